// Token-level model of the WGSL type -> Rust type mapping (C06) and of vertex formats (C07).
// Pure specifications written from the property statement and the documented representations; nothing assumed here.
#![allow(unused_imports)]
use vstd::prelude::*;
use crate::prelude::*;
use crate::tokens::*;
use crate::model_common::*;
use crate::MatrixVectorTypes;

verus! {

pub open spec fn vsize(s: naga::VectorSize) -> int { match s { naga::VectorSize::Bi => 2, naga::VectorSize::Tri => 3, naga::VectorSize::Quad => 4 } }
pub open spec fn lit_n(s: naga::VectorSize) -> Seq<Tok> { seq![Tok::LitU(vsize(s))] }

// scalar kind and width -> Rust scalar type (None = outside the documented feature set)
pub open spec fn scalar_toks(kind: naga::ScalarKind, width: u8) -> Option<Seq<Tok>> {
    match (kind, width) {
        (naga::ScalarKind::Sint, 1) => Some(ts!(i8)),
        (naga::ScalarKind::Uint, 1) => Some(ts!(u8)),
        (naga::ScalarKind::Sint, 2) => Some(ts!(i16)),
        (naga::ScalarKind::Uint, 2) => Some(ts!(u16)),
        (naga::ScalarKind::Sint, 4) => Some(ts!(i32)),
        (naga::ScalarKind::Uint, 4) => Some(ts!(u32)),
        (naga::ScalarKind::Float, 4) => Some(ts!(f32)),
        (naga::ScalarKind::Float, 8) => Some(ts!(f64)),
        (naga::ScalarKind::Bool, _) => Some(ts!(bool)),
        _ => None,
    }
}
// plain arrays: a vector of n components is [S; n]
pub open spec fn rust_vec_toks(size: naga::VectorSize, kind: naga::ScalarKind, width: u8) -> Seq<Tok> {
    let s = scalar_toks(kind, width)->0; let n = lit_n(size);
    ts!([#s; #n])
}
// glam: exactly the 12 types glam has, plain arrays otherwise
pub open spec fn glam_vec_toks(size: naga::VectorSize, kind: naga::ScalarKind, width: u8) -> Seq<Tok> {
    match (size, kind, width) {
        (naga::VectorSize::Bi, naga::ScalarKind::Float, 4) => ts!(glam::Vec2),
        (naga::VectorSize::Tri, naga::ScalarKind::Float, 4) => ts!(glam::Vec3),
        (naga::VectorSize::Quad, naga::ScalarKind::Float, 4) => ts!(glam::Vec4),
        (naga::VectorSize::Bi, naga::ScalarKind::Float, 8) => ts!(glam::DVec2),
        (naga::VectorSize::Tri, naga::ScalarKind::Float, 8) => ts!(glam::DVec3),
        (naga::VectorSize::Quad, naga::ScalarKind::Float, 8) => ts!(glam::DVec4),
        (naga::VectorSize::Bi, naga::ScalarKind::Uint, 4) => ts!(glam::UVec2),
        (naga::VectorSize::Tri, naga::ScalarKind::Uint, 4) => ts!(glam::UVec3),
        (naga::VectorSize::Quad, naga::ScalarKind::Uint, 4) => ts!(glam::UVec4),
        (naga::VectorSize::Bi, naga::ScalarKind::Sint, 4) => ts!(glam::IVec2),
        (naga::VectorSize::Tri, naga::ScalarKind::Sint, 4) => ts!(glam::IVec3),
        (naga::VectorSize::Quad, naga::ScalarKind::Sint, 4) => ts!(glam::IVec4),
        _ => rust_vec_toks(size, kind, width),
    }
}
pub open spec fn nalgebra_vec_toks(size: naga::VectorSize, kind: naga::ScalarKind, width: u8) -> Seq<Tok> {
    let s = scalar_toks(kind, width)->0; let n = lit_n(size);
    ts!(nalgebra::SVector<#s, #n>)
}
// matrices are float; plain arrays as the repository's snapshots have them: [[S; columns]; rows]
pub open spec fn rust_mat_toks(rows: naga::VectorSize, columns: naga::VectorSize, width: u8) -> Seq<Tok> {
    let s = scalar_toks(naga::ScalarKind::Float, width)->0; let r = lit_n(rows); let c = lit_n(columns);
    ts!([[#s; #c]; #r])
}
pub open spec fn glam_mat_toks(rows: naga::VectorSize, columns: naga::VectorSize, width: u8) -> Seq<Tok> {
    match (rows, columns, width) {
        (naga::VectorSize::Bi, naga::VectorSize::Bi, 4) => ts!(glam::Mat2),
        (naga::VectorSize::Tri, naga::VectorSize::Tri, 4) => ts!(glam::Mat3),
        (naga::VectorSize::Quad, naga::VectorSize::Quad, 4) => ts!(glam::Mat4),
        (naga::VectorSize::Bi, naga::VectorSize::Bi, 8) => ts!(glam::DMat2),
        (naga::VectorSize::Tri, naga::VectorSize::Tri, 8) => ts!(glam::DMat3),
        (naga::VectorSize::Quad, naga::VectorSize::Quad, 8) => ts!(glam::DMat4),
        _ => rust_mat_toks(rows, columns, width),
    }
}
pub open spec fn nalgebra_mat_toks(rows: naga::VectorSize, columns: naga::VectorSize, width: u8) -> Seq<Tok> {
    let s = scalar_toks(naga::ScalarKind::Float, width)->0; let r = lit_n(rows); let c = lit_n(columns);
    ts!(nalgebra::SMatrix<#s, #r, #c>)
}

// ---- the recursive mapping (arrays of arrays, arrays of structs): recursion through type handles ----
pub open spec fn tys(m: &naga::Module) -> Seq<naga::Type> { uarena_seq(&m.types) }
// naga builds the UniqueArena bottom-up: an array's base type has a smaller handle
pub open spec fn arrays_wf(m: &naga::Module) -> bool {
    forall|i: int| 0 <= i < tys(m).len() ==> (match (#[trigger] tys(m)[i]).inner {
        naga::TypeInner::Array { base, .. } => 0 <= handle_index(base) < i, _ => true })
}
pub open spec fn ty_supported_idx(m: &naga::Module, i: int) -> bool
    decreases i
{
    0 <= i < tys(m).len() && (match tys(m)[i].inner {
        naga::TypeInner::Struct { .. } => tys(m)[i].name is Some,
        naga::TypeInner::Array { base, size: naga::ArraySize::Constant(_), .. } => 0 <= handle_index(base) < i && ty_supported_idx(m, handle_index(base)),
        naga::TypeInner::Scalar(s) => scalar_toks(s.kind, s.width) is Some,
        naga::TypeInner::Atomic(s) => scalar_toks(s.kind, s.width) is Some,
        naga::TypeInner::Vector { scalar, .. } => scalar_toks(scalar.kind, scalar.width) is Some,
        naga::TypeInner::Matrix { scalar, .. } => scalar_toks(naga::ScalarKind::Float, scalar.width) is Some,
        _ => false,
    })
}
// a type VALUE that sits in the arena at index i
pub open spec fn ty_supported(m: &naga::Module, t: &naga::Type) -> bool {
    exists|i: int| 0 <= i < tys(m).len() && #[trigger] tys(m)[i] == *t && ty_supported_idx(m, i)
}
pub open spec fn vec_toks(f: MatrixVectorTypes, size: naga::VectorSize, kind: naga::ScalarKind, width: u8) -> Seq<Tok> {
    match f { MatrixVectorTypes::Rust => rust_vec_toks(size, kind, width), MatrixVectorTypes::Glam => glam_vec_toks(size, kind, width), MatrixVectorTypes::Nalgebra => nalgebra_vec_toks(size, kind, width) }
}
pub open spec fn mat_toks(f: MatrixVectorTypes, rows: naga::VectorSize, columns: naga::VectorSize, width: u8) -> Seq<Tok> {
    match f { MatrixVectorTypes::Rust => rust_mat_toks(rows, columns, width), MatrixVectorTypes::Glam => glam_mat_toks(rows, columns, width), MatrixVectorTypes::Nalgebra => nalgebra_mat_toks(rows, columns, width) }
}
pub open spec fn rty_idx(m: &naga::Module, i: int, f: MatrixVectorTypes) -> Seq<Tok>
    decreases i
{
    if !(0 <= i < tys(m).len()) { Seq::empty() } else {
        match tys(m)[i].inner {
            naga::TypeInner::Scalar(s) => scalar_toks(s.kind, s.width)->0,
            naga::TypeInner::Atomic(s) => scalar_toks(s.kind, s.width)->0,                 // atomics map to their scalar
            naga::TypeInner::Vector { size, scalar } => vec_toks(f, size, scalar.kind, scalar.width),
            naga::TypeInner::Matrix { columns, rows, scalar } => mat_toks(f, rows, columns, scalar.width),
            naga::TypeInner::Array { base, size: naga::ArraySize::Constant(n), .. } =>
                if 0 <= handle_index(base) < i {
                    let e = rty_idx(m, handle_index(base), f); let c = seq![Tok::LitU(nonzero_get(n) as int)];
                    ts!([#e; #c])                                                          // fixed arrays keep their length
                } else { Seq::empty() },
            naga::TypeInner::Struct { .. } => seq![Tok::Id(tys(m)[i].name->0@)],           // the emitted struct of the same name
            _ => Seq::empty(),
        }
    }
}
pub open spec fn ty_idx(m: &naga::Module, t: &naga::Type) -> int { choose|i: int| 0 <= i < tys(m).len() && #[trigger] tys(m)[i] == *t && ty_supported_idx(m, i) }
pub open spec fn rty_toks(m: &naga::Module, t: &naga::Type, f: MatrixVectorTypes) -> Seq<Tok> { rty_idx(m, ty_idx(m, t), f) }
// a UniqueArena holds each value once, so a type value has exactly one index
pub proof fn lemma_ty_idx(m: &naga::Module, t: &naga::Type, i: int)
    requires 0 <= i < tys(m).len(), tys(m)[i] == *t, ty_supported_idx(m, i),
    ensures ty_idx(m, t) == i,
{
    let j = ty_idx(m, t);
    axiom_uarena_unique(&m.types, i, j);
}


// ---------------- C07: vertex formats ----------------
// What a wgpu 24 vertex format IS (wgpu-types VertexFormat docs / wgpu-core validation.rs NumericType::from_vertex_format):
// scalar kind, bytes per component, number of components.  Only the non-normalized integer and float formats a WGSL
// vertex input can have are listed; every other format maps to None.
//@conform
pub open spec fn vf_shape(f: wgpu_types::VertexFormat) -> Option<(naga::ScalarKind, int, int)> {
    match f {
        wgpu_types::VertexFormat::Uint8x2 => Some((naga::ScalarKind::Uint, 1, 2)),
        wgpu_types::VertexFormat::Uint8x4 => Some((naga::ScalarKind::Uint, 1, 4)),
        wgpu_types::VertexFormat::Sint8x2 => Some((naga::ScalarKind::Sint, 1, 2)),
        wgpu_types::VertexFormat::Sint8x4 => Some((naga::ScalarKind::Sint, 1, 4)),
        wgpu_types::VertexFormat::Uint16x2 => Some((naga::ScalarKind::Uint, 2, 2)),
        wgpu_types::VertexFormat::Uint16x4 => Some((naga::ScalarKind::Uint, 2, 4)),
        wgpu_types::VertexFormat::Sint16x2 => Some((naga::ScalarKind::Sint, 2, 2)),
        wgpu_types::VertexFormat::Sint16x4 => Some((naga::ScalarKind::Sint, 2, 4)),
        wgpu_types::VertexFormat::Float32 => Some((naga::ScalarKind::Float, 4, 1)),
        wgpu_types::VertexFormat::Float32x2 => Some((naga::ScalarKind::Float, 4, 2)),
        wgpu_types::VertexFormat::Float32x3 => Some((naga::ScalarKind::Float, 4, 3)),
        wgpu_types::VertexFormat::Float32x4 => Some((naga::ScalarKind::Float, 4, 4)),
        wgpu_types::VertexFormat::Uint32 => Some((naga::ScalarKind::Uint, 4, 1)),
        wgpu_types::VertexFormat::Uint32x2 => Some((naga::ScalarKind::Uint, 4, 2)),
        wgpu_types::VertexFormat::Uint32x3 => Some((naga::ScalarKind::Uint, 4, 3)),
        wgpu_types::VertexFormat::Uint32x4 => Some((naga::ScalarKind::Uint, 4, 4)),
        wgpu_types::VertexFormat::Sint32 => Some((naga::ScalarKind::Sint, 4, 1)),
        wgpu_types::VertexFormat::Sint32x2 => Some((naga::ScalarKind::Sint, 4, 2)),
        wgpu_types::VertexFormat::Sint32x3 => Some((naga::ScalarKind::Sint, 4, 3)),
        wgpu_types::VertexFormat::Sint32x4 => Some((naga::ScalarKind::Sint, 4, 4)),
        wgpu_types::VertexFormat::Float64 => Some((naga::ScalarKind::Float, 8, 1)),
        wgpu_types::VertexFormat::Float64x2 => Some((naga::ScalarKind::Float, 8, 2)),
        wgpu_types::VertexFormat::Float64x3 => Some((naga::ScalarKind::Float, 8, 3)),
        wgpu_types::VertexFormat::Float64x4 => Some((naga::ScalarKind::Float, 8, 4)),
        _ => None,
    }
}
// the shape of a WGSL vertex attribute type
pub open spec fn attr_shape(t: naga::TypeInner) -> Option<(naga::ScalarKind, int, int)> {
    match t {
        naga::TypeInner::Scalar(s) => Some((s.kind, s.width as int, 1)),
        naga::TypeInner::Vector { size, scalar } => Some((scalar.kind, scalar.width as int, vsize(size))),
        _ => None,
    }
}
// the attribute types the generator supports: f32/i32/u32/f64 scalars and vec2-4 (and the 8/16 bit integer pairs/quads naga could carry)
pub open spec fn attr_supported(t: naga::TypeInner) -> bool {
    match attr_shape(t) {
        Some((k, w, n)) => (k == naga::ScalarKind::Float && (w == 4 || w == 8))
            || ((k == naga::ScalarKind::Sint || k == naga::ScalarKind::Uint) && (w == 4 || ((w == 1 || w == 2) && (n == 2 || n == 4)))),
        None => false,
    }
}

} // verus!
