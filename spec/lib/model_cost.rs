// Cost model of the two recursive walkers (C20): sizes of the things they walk, and the *potential* that pays for
// every expansion.  Pure specifications and proved lemmas; nothing here is assumed.
//
//   (all sizes are weighted by 4 = 4: see below)
//   step            = one loop iteration of a walker (one statement of a block looked at, one switch case entered,
//                     one expression looked at, one struct member looked at) or one call of add_types_recursive
//   block_size(b)   = number of statements of b plus, recursively, of every block nested in them, plus one per nested
//                     block of a statement (the switch-case loop)
//   fn_size(f)      = 1 (the expansion itself) + block_size(f.body) + number of expressions of f
//   fn_potential(v) = sum of fn_size over the arena functions NOT in the visited set v
//
// The contracts of unit `cost` say:  steps + potential(after) <= potential(before) + size(of what was passed in).
// Expanding a callee is paid for by its leaving the potential - which is only possible once per function (and per entry
// point, since the visited set starts empty for each).  Summed over a run:  steps <= entries * (1 + module size).
#![allow(unused_imports)]
use vstd::prelude::*;
use crate::prelude::*;
use crate::model_stages::*;
use crate::model_reach::*;

verus! {

// Slack: the contracts allow up to W steps per unit of size (the walkers as they stand spend exactly one).  A change that does a
// constant factor more work per statement / expression / member (a second cheap pass, a repeated memo hit) still verifies; a change
// whose work multiplies with nesting depth, call depth or the number of call sites cannot be paid by any constant and fails.
// (written as the literal 4 - and 8 = 2 x 4 for the type closure - in every formula so that the arithmetic stays linear)

// ---------------- size of a statement tree (one recursive function; the three views below are its modes) ----------------
// mode 2: the whole block; mode 1: its first i statements; mode 0: the first k nested blocks of statement i
pub open spec fn tree_size(b: &naga::Block, mode: int, i: int, k: int) -> nat
    decreases block_height(b), mode, i, k
{
    if mode >= 2 {
        tree_size(b, 1, block_stmts(b).len() as int, 0)
    } else if mode == 1 {
        if i <= 0 || i > block_stmts(b).len() { 0 } else { tree_size(b, 1, i - 1, 0) + 4 + tree_size(b, 0, i - 1, nsub(b, i - 1)) }
    } else if mode == 0 {
        if k <= 0 || !(0 <= i < block_stmts(b).len()) || k > nsub(b, i) { 0 } else {
            tree_size(b, 0, i, k - 1) + 4 + (if block_height(&subblk(b, i, k - 1)) < block_height(b) { tree_size(&subblk(b, i, k - 1), 2, 0, 0) } else { 0 })
        }
    } else { 0 }
}
pub open spec fn block_size(b: &naga::Block) -> nat { tree_size(b, 2, 0, 0) }
pub open spec fn stmts_size(b: &naga::Block, i: int) -> nat { tree_size(b, 1, i, 0) }
pub open spec fn subs_size(b: &naga::Block, i: int, k: int) -> nat { tree_size(b, 0, i, k) }

pub proof fn lemma_block_size(b: &naga::Block)
    ensures block_size(b) == stmts_size(b, block_stmts(b).len() as int),
{
    reveal_with_fuel(tree_size, 2);
}
pub proof fn lemma_stmts_size_step(b: &naga::Block, i: int)
    requires 0 <= i < block_stmts(b).len(),
    ensures stmts_size(b, i + 1) == stmts_size(b, i) + 4 + subs_size(b, i, nsub(b, i)), stmts_size(b, 0) == 0,
{
    reveal_with_fuel(tree_size, 2);
}
pub proof fn lemma_subs_size_step(b: &naga::Block, i: int, k: int)
    requires 0 <= i < block_stmts(b).len(), 0 <= k < nsub(b, i),
    ensures subs_size(b, i, k + 1) == subs_size(b, i, k) + 4 + block_size(&subblk(b, i, k)), subs_size(b, i, 0) == 0,
{
    axiom_block_height(b, i, k);
    reveal_with_fuel(tree_size, 2);
}

pub proof fn lemma_subs_size_zero(b: &naga::Block, i: int)
    ensures subs_size(b, i, 0) == 0,
{
    reveal_with_fuel(tree_size, 2);
}

pub open spec fn fn_size(f: &naga::Function) -> nat { 4 + block_size(&f.body) + 4 * exprs(f).len() }

// ---------------- potential of the visited set ----------------
pub open spec fn vis_fn(v: Set<naga::Handle<naga::Function>>, d: int) -> bool { v.contains(mk_handle(d)) }
pub open spec fn vsub(a: Set<naga::Handle<naga::Function>>, b: Set<naga::Handle<naga::Function>>) -> bool {
    forall|d: int| #[trigger] vis_fn(a, d) ==> vis_fn(b, d)
}
pub proof fn lemma_vsub_trans(a: Set<naga::Handle<naga::Function>>, b: Set<naga::Handle<naga::Function>>, c: Set<naga::Handle<naga::Function>>)
    requires vsub(a, b), vsub(b, c),
    ensures vsub(a, c),
{
    assert forall|d: int| #[trigger] vis_fn(a, d) implies vis_fn(c, d) by { assert(vis_fn(b, d)); }
}
pub proof fn lemma_vsub_insert(v: Set<naga::Handle<naga::Function>>, h: naga::Handle<naga::Function>)
    ensures vsub(v, v.insert(h)),
{}
pub open spec fn pot_upto(m: &naga::Module, v: Set<naga::Handle<naga::Function>>, n: int) -> nat
    decreases n
{
    if n <= 0 { 0 } else { pot_upto(m, v, n - 1) + (if vis_fn(v, n - 1) { 0 } else { fn_size(&fun(m, n - 1)) }) }
}
pub open spec fn fn_potential(m: &naga::Module, v: Set<naga::Handle<naga::Function>>) -> nat { pot_upto(m, v, nfun(m)) }
// the size of all arena functions together = the potential of the empty set
pub open spec fn funs_size(m: &naga::Module) -> nat { fn_potential(m, Set::empty()) }

pub proof fn lemma_pot_mono(m: &naga::Module, a: Set<naga::Handle<naga::Function>>, b: Set<naga::Handle<naga::Function>>, n: int)
    requires vsub(a, b),
    ensures pot_upto(m, b, n) <= pot_upto(m, a, n),
    decreases n,
{
    if n > 0 {
        lemma_pot_mono(m, a, b, n - 1);
        if vis_fn(a, n - 1) { assert(vis_fn(b, n - 1)); }
    }
}
// visiting a function that was not visited takes exactly its size out of the potential
pub proof fn lemma_pot_insert(m: &naga::Module, v: Set<naga::Handle<naga::Function>>, c: int, n: int)
    requires 0 <= c, !vis_fn(v, c),
    ensures pot_upto(m, v.insert(mk_handle(c)), n) + (if c < n { fn_size(&fun(m, c)) } else { 0 }) == pot_upto(m, v, n),
    decreases n,
{
    let v2 = v.insert(mk_handle::<naga::Function>(c));
    if n > 0 {
        lemma_pot_insert(m, v, c, n - 1);
        axiom_mk_handle_idx::<naga::Function>(n - 1);
        axiom_mk_handle_idx::<naga::Function>(c);
        assert(vis_fn(v2, n - 1) == (vis_fn(v, n - 1) || n - 1 == c));
    }
}

// ---------------- the whole run of global_shader_stages ----------------
// bound on the steps spent on the first n entry points: each pays one step, its own body, and at most every arena function once
pub open spec fn run_bound(m: &naga::Module, n: int) -> nat
    decreases n
{
    if n <= 0 { 0 } else { run_bound(m, n - 1) + 4 + fn_size(&m.entry_points@[n - 1].function) + funs_size(m) }
}
pub open spec fn entries_size(m: &naga::Module, n: int) -> nat
    decreases n
{
    if n <= 0 { 0 } else { entries_size(m, n - 1) + fn_size(&m.entry_points@[n - 1].function) }
}
// the size of the module's code as the walkers see it
pub open spec fn code_size(m: &naga::Module) -> nat { funs_size(m) + entries_size(m, m.entry_points@.len() as int) }

pub proof fn lemma_entry_size_le(m: &naga::Module, j: int, n: int)
    requires 0 <= j < n,
    ensures fn_size(&m.entry_points@[j].function) <= entries_size(m, n),
    decreases n,
{
    if j < n - 1 { lemma_entry_size_le(m, j, n - 1); }
}
// the closed form: quadratic at worst - (number of entry points) x (1 + size of the code)
pub proof fn lemma_run_bound(m: &naga::Module, n: int)
    requires 0 <= n <= m.entry_points@.len(),
    ensures run_bound(m, n) <= n * (4 + code_size(m)),
    decreases n,
{
    if n > 0 {
        lemma_run_bound(m, n - 1);
        lemma_entry_size_le(m, n - 1, m.entry_points@.len() as int);
        assert(n * (4 + code_size(m)) == (n - 1) * (4 + code_size(m)) + (4 + code_size(m))) by(nonlinear_arith);
    }
}

// ---------------- the type closure (structs::add_types_recursive) ----------------
// number of types a type directly contains (one loop iteration / one recursive call each)
pub open spec fn nchildren(m: &naga::Module, t: int) -> nat {
    match ty_at(m, t).inner {
        naga::TypeInner::Pointer { .. } => 1,
        naga::TypeInner::Array { .. } => 1,
        naga::TypeInner::BindingArray { .. } => 1,
        naga::TypeInner::Struct { members, .. } => members@.len(),
        _ => 0,
    }
}
// potential: two steps per directly contained type of every type NOT yet in the set (the loop iteration and the call it makes)
pub open spec fn tpot_upto(m: &naga::Module, v: Set<naga::Handle<naga::Type>>, n: int) -> nat
    decreases n
{
    if n <= 0 { 0 } else { tpot_upto(m, v, n - 1) + (if seen(v, n - 1) { 0 } else { 8 * nchildren(m, n - 1) }) }
}
pub open spec fn type_potential(m: &naga::Module, v: Set<naga::Handle<naga::Type>>) -> nat { tpot_upto(m, v, ntypes(m)) }
// two steps per member / element type in the whole arena: the potential of the empty set
pub open spec fn types_size(m: &naga::Module) -> nat { type_potential(m, Set::empty()) }

pub proof fn lemma_tpot_mono(m: &naga::Module, a: Set<naga::Handle<naga::Type>>, b: Set<naga::Handle<naga::Type>>, n: int)
    requires smono(a, b),
    ensures tpot_upto(m, b, n) <= tpot_upto(m, a, n),
    decreases n,
{
    if n > 0 {
        lemma_tpot_mono(m, a, b, n - 1);
        if seen(a, n - 1) { assert(seen(b, n - 1)); }
    }
}
pub proof fn lemma_tpot_insert(m: &naga::Module, v: Set<naga::Handle<naga::Type>>, c: int, n: int)
    requires 0 <= c, !seen(v, c),
    ensures tpot_upto(m, v.insert(mk_handle(c)), n) + (if c < n { 8 * nchildren(m, c) } else { 0 }) == tpot_upto(m, v, n),
    decreases n,
{
    let v2 = v.insert(mk_handle::<naga::Type>(c));
    if n > 0 {
        lemma_tpot_insert(m, v, c, n - 1);
        axiom_mk_handle_idx::<naga::Type>(n - 1);
        axiom_mk_handle_idx::<naga::Type>(c);
        assert(seen(v2, n - 1) == (seen(v, n - 1) || n - 1 == c));
    }
}
pub proof fn lemma_smono_trans(a: Set<naga::Handle<naga::Type>>, b: Set<naga::Handle<naga::Type>>, c: Set<naga::Handle<naga::Type>>)
    requires smono(a, b), smono(b, c),
    ensures smono(a, c),
{
    assert forall|d: int| #[trigger] seen(a, d) implies seen(c, d) by { assert(seen(b, d)); }
}

} // verus!
