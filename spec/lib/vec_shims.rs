// Stand-ins for Iterator::flat_map, slice::sort_by_key and Vec::dedup_by_key (no vstd specification; the first is a
// provided trait method, the other two take the key closure by `FnMut(&T) -> K` / `FnMut(&mut T) -> K`).
// The extracted code calls `.shim_X(` where /repo calls `.X(` (whitelisted renames, logged in the evidence); each
// shim's body is the real std call; its contract is ASSUMED and is the documented std behaviour:
//   flat_map       : the concatenation, in order, of what the closure returns for each element,
//   sort_by_key    : a stable sort by the key in the key type's total order (here: String's lexicographic Ord),
//   dedup_by_key   : of every run of consecutive elements with equal keys only the first is kept.
#![allow(unused_imports)]
use vstd::prelude::*;
use vstd::std_specs::iter::IteratorSpec;
use crate::iter_shims::*;

verus! {

pub open spec fn concat_vecs<B>(ys: Seq<Vec<B>>) -> Seq<B>
    decreases ys.len()
{
    if ys.len() == 0 { Seq::empty() } else { concat_vecs(ys.drop_last()) + ys.last()@ }
}

pub trait ShimFlatMap: Iterator + Sized {
    fn shim_flat_map<B, F: FnMut(Self::Item) -> Vec<B>>(self, f: F) -> (r: std::vec::IntoIter<B>)
        requires
            self.obeys_prophetic_iter_laws(),
            forall|i: int| 0 <= i < self.remaining().len() ==> f.requires((#[trigger] self.remaining()[i],)),
        ensures
            exists|ys: Seq<Vec<B>>| #![trigger concat_vecs(ys)] ys.len() == self.remaining().len()
                && (forall|i: int| 0 <= i < ys.len() ==> f.ensures((self.remaining()[i],), #[trigger] ys[i]))
                && r.remaining() == concat_vecs(ys) && crate::prelude::elems(&r) == concat_vecs(ys) && r.obeys_prophetic_iter_laws() && r.decrease() is Some;
}
impl<I: Iterator> ShimFlatMap for I {
    #[verifier::external_body]
    fn shim_flat_map<B, F: FnMut(I::Item) -> Vec<B>>(self, f: F) -> (r: std::vec::IntoIter<B>)
    { self.flat_map(f).collect::<Vec<B>>().into_iter() }
}

// ---- the total order of the key type (Ord), uninterpreted; lawfulness is assumed for the key types used (String) ----
pub uninterp spec fn key_le<K>(a: K, b: K) -> bool;
pub axiom fn axiom_key_le_total_order<K>(a: K, b: K, c: K)
    ensures
        key_le(a, b) || key_le(b, a),
        key_le(a, b) && key_le(b, a) ==> a == b,
        key_le(a, b) && key_le(b, c) ==> key_le(a, c);

pub open spec fn idx_ok(v: int, n: int) -> bool { 0 <= v < n }
// p is a permutation of 0..n
pub open spec fn is_perm(p: Seq<int>, n: int) -> bool {
    &&& p.len() == n
    &&& forall|i: int| 0 <= i < n ==> 0 <= #[trigger] p[i] < n
    &&& forall|i: int, j: int| 0 <= i < j < n ==> p[i] != p[j]
    &&& forall|v: int| #[trigger] idx_ok(v, n) ==> exists|i: int| 0 <= i < n && #[trigger] p[i] == v
}
// ys is xs stably sorted by the keys ks (ks[i] is the key of xs[i])
pub open spec fn stably_sorted<T, K>(xs: Seq<T>, ks: Seq<K>, ys: Seq<T>) -> bool {
    exists|p: Seq<int>| #![trigger is_perm(p, xs.len() as int)] is_perm(p, xs.len() as int) && ys.len() == xs.len()
        && (forall|i: int| 0 <= i < xs.len() ==> #[trigger] ys[i] == xs[p[i]])
        && (forall|i: int, j: int| 0 <= i < j < xs.len() ==> key_le(#[trigger] ks[p[i]], #[trigger] ks[p[j]]) && (ks[p[i]] == ks[p[j]] ==> p[i] < p[j]))
}

pub trait ShimSortByKey<T> {
    spec fn sv(&self) -> Seq<T>;
    fn shim_sort_by_key<K: Ord, F: FnMut(&T) -> K>(&mut self, f: F)
        requires
            forall|i: int| 0 <= i < old(self).sv().len() ==> f.requires((&#[trigger] old(self).sv()[i],)),
        ensures
            exists|ks: Seq<K>| #![trigger stably_sorted(old(self).sv(), ks, final(self).sv())] ks.len() == old(self).sv().len()
                && (forall|i: int| 0 <= i < ks.len() ==> f.ensures((&old(self).sv()[i],), #[trigger] ks[i]))
                && stably_sorted(old(self).sv(), ks, final(self).sv());
}
impl<T> ShimSortByKey<T> for Vec<T> {
    open spec fn sv(&self) -> Seq<T> { self@ }
    #[verifier::external_body]
    fn shim_sort_by_key<K: Ord, F: FnMut(&T) -> K>(&mut self, f: F) { self.sort_by_key(f) }
}

// keep element i iff it is the first of its run of equal keys
pub open spec fn run_heads<K>(ks: Seq<K>) -> Seq<bool> { Seq::new(ks.len(), |i: int| i == 0 || ks[i] != ks[i - 1]) }

pub trait ShimDedupByKey<T> {
    spec fn dv(&self) -> Seq<T>;
    // std passes `&mut T` to the key closure; the stand-in passes `&T` (the closures of /repo only read)
    fn shim_dedup_by_key<K: PartialEq, F: FnMut(&T) -> K>(&mut self, f: F)
        requires
            forall|i: int| 0 <= i < old(self).dv().len() ==> f.requires((&#[trigger] old(self).dv()[i],)),
        ensures
            exists|ks: Seq<K>| #![trigger run_heads(ks)] ks.len() == old(self).dv().len()
                && (forall|i: int| 0 <= i < ks.len() ==> f.ensures((&old(self).dv()[i],), #[trigger] ks[i]))
                && final(self).dv() == keep(old(self).dv(), run_heads(ks));
}
impl<T> ShimDedupByKey<T> for Vec<T> {
    open spec fn dv(&self) -> Seq<T> { self@ }
    #[verifier::external_body]
    fn shim_dedup_by_key<K: PartialEq, F: FnMut(&T) -> K>(&mut self, mut f: F) { self.dedup_by_key(|x| f(&*x)) }
}

// ---------------- proved lemmas about the specifications above ----------------
// concatenation: every element comes from one of the parts, and every element of every part is there
pub proof fn lemma_concat_index<B>(ys: Seq<Vec<B>>, t: int)
    requires 0 <= t < concat_vecs(ys).len(),
    ensures exists|j: int, k: int| 0 <= j < ys.len() && 0 <= k < (#[trigger] ys[j])@.len() && concat_vecs(ys)[t] == #[trigger] ys[j]@[k],
    decreases ys.len(),
{
    if ys.len() > 0 {
        let pre = concat_vecs(ys.drop_last());
        if t < pre.len() {
            lemma_concat_index(ys.drop_last(), t);
            let (j, k) = choose|j: int, k: int| 0 <= j < ys.drop_last().len() && 0 <= k < (#[trigger] ys.drop_last()[j])@.len() && pre[t] == #[trigger] ys.drop_last()[j]@[k];
            assert(ys[j] == ys.drop_last()[j]);
            assert(concat_vecs(ys)[t] == ys[j]@[k]);
        } else {
            let j = ys.len() - 1;
            let k = t - pre.len();
            assert(concat_vecs(ys)[t] == ys[j]@[k]);
        }
    }
}
pub proof fn lemma_concat_member<B>(ys: Seq<Vec<B>>, j: int, k: int)
    requires 0 <= j < ys.len(), 0 <= k < ys[j]@.len(),
    ensures exists|t: int| 0 <= t < concat_vecs(ys).len() && #[trigger] concat_vecs(ys)[t] == ys[j]@[k],
    decreases ys.len(),
{
    let pre = concat_vecs(ys.drop_last());
    if j == ys.len() - 1 {
        assert(concat_vecs(ys)[pre.len() + k] == ys[j]@[k]);
    } else {
        lemma_concat_member(ys.drop_last(), j, k);
        let t = choose|t: int| 0 <= t < pre.len() && #[trigger] pre[t] == ys.drop_last()[j]@[k];
        assert(concat_vecs(ys)[t] == ys[j]@[k]);
    }
}

// the source index of every kept element
pub open spec fn kidx(bs: Seq<bool>) -> Seq<int>
    decreases bs.len()
{
    if bs.len() == 0 { Seq::empty() } else {
        let r = kidx(bs.drop_last());
        if bs.last() { r.push(bs.len() - 1) } else { r }
    }
}
pub proof fn lemma_kidx<A>(xs: Seq<A>, bs: Seq<bool>)
    requires bs.len() == xs.len(),
    ensures
        kidx(bs).len() == keep(xs, bs).len(),
        forall|j: int| 0 <= j < kidx(bs).len() ==> 0 <= #[trigger] kidx(bs)[j] < xs.len() && bs[kidx(bs)[j]] && keep(xs, bs)[j] == xs[kidx(bs)[j]],
        forall|a: int, b: int| 0 <= a < b < kidx(bs).len() ==> #[trigger] kidx(bs)[a] < #[trigger] kidx(bs)[b],
        forall|i: int| 0 <= i < xs.len() && #[trigger] bs[i] ==> exists|j: int| 0 <= j < kidx(bs).len() && #[trigger] kidx(bs)[j] == i,
    decreases xs.len(),
{
    if xs.len() > 0 {
        let xs0 = xs.drop_last();
        let bs0 = bs.drop_last();
        lemma_kidx(xs0, bs0);
        let n = xs.len() - 1;
        assert forall|i: int| 0 <= i < xs.len() && #[trigger] bs[i] implies exists|j: int| 0 <= j < kidx(bs).len() && #[trigger] kidx(bs)[j] == i by {
            if i < n {
                assert(bs0[i]);
                let j = choose|j: int| 0 <= j < kidx(bs0).len() && #[trigger] kidx(bs0)[j] == i;
                assert(kidx(bs)[j] == i);
            } else {
                assert(kidx(bs)[kidx(bs0).len() as int] == i);
            }
        }
        assert forall|j: int| 0 <= j < kidx(bs).len() implies 0 <= #[trigger] kidx(bs)[j] < xs.len() && bs[kidx(bs)[j]] && keep(xs, bs)[j] == xs[kidx(bs)[j]] by {
            if j < kidx(bs0).len() {
                assert(kidx(bs)[j] == kidx(bs0)[j]);
                assert(bs0[kidx(bs0)[j]]);
                assert(keep(xs0, bs0)[j] == xs0[kidx(bs0)[j]]);
            }
        }
        assert forall|a: int, b: int| 0 <= a < b < kidx(bs).len() implies #[trigger] kidx(bs)[a] < #[trigger] kidx(bs)[b] by {
            if b < kidx(bs0).len() {
                assert(kidx(bs0)[a] < kidx(bs0)[b]);
            } else {
                assert(kidx(bs)[a] == kidx(bs0)[a]);
                assert(kidx(bs0)[a] < n);
            }
        }
    }
}

// The conclusions below are opaque predicates with instantiation lemmas: stated as bare quantifiers they chain into each
// other (a ⊆ b and b ⊆ a produce an unbounded supply of index terms) and the solver runs out of resources.
#[verifier::opaque]
pub open spec fn all_in<T>(a: Seq<T>, b: Seq<T>) -> bool { forall|i: int| 0 <= i < a.len() ==> b.contains(#[trigger] a[i]) }
pub proof fn all_in_at<T>(a: Seq<T>, b: Seq<T>, i: int) -> (k: int)
    requires all_in(a, b), 0 <= i < a.len(),
    ensures 0 <= k < b.len(), b[k] == a[i],
{ reveal(all_in); assert(b.contains(a[i])); choose|k: int| 0 <= k < b.len() && b[k] == a[i] }

#[verifier::opaque]
pub open spec fn sorted_by<T, K>(ys: Seq<T>, key: spec_fn(T) -> K) -> bool {
    forall|i: int, j: int| 0 <= i < j < ys.len() ==> key_le(key(#[trigger] ys[i]), key(#[trigger] ys[j]))
}
#[verifier::opaque]
pub open spec fn keys_distinct<T, K>(r: Seq<T>, key: spec_fn(T) -> K) -> bool {
    forall|a: int, b: int| 0 <= a < b < r.len() ==> key(#[trigger] r[a]) != key(#[trigger] r[b])
}
pub proof fn keys_distinct_at<T, K>(r: Seq<T>, key: spec_fn(T) -> K, a: int, b: int)
    requires keys_distinct(r, key), 0 <= a < b < r.len(),
    ensures key(r[a]) != key(r[b]),
{ reveal(keys_distinct); }
#[verifier::opaque]
pub open spec fn keys_covered<T, K>(xs: Seq<T>, r: Seq<T>, key: spec_fn(T) -> K) -> bool {
    forall|i: int| 0 <= i < xs.len() ==> exists|a: int| 0 <= a < r.len() && key(#[trigger] r[a]) == key(#[trigger] xs[i])
}
pub proof fn keys_covered_at<T, K>(xs: Seq<T>, r: Seq<T>, key: spec_fn(T) -> K, i: int) -> (a: int)
    requires keys_covered(xs, r, key), 0 <= i < xs.len(),
    ensures 0 <= a < r.len(), key(r[a]) == key(xs[i]),
{ reveal(keys_covered); choose|a: int| 0 <= a < r.len() && key(#[trigger] r[a]) == key(xs[i]) }

// a (stable) sort keeps the elements and orders them by key
pub proof fn lemma_sorted_props<T, K>(xs: Seq<T>, ks: Seq<K>, ys: Seq<T>, key: spec_fn(T) -> K)
    requires stably_sorted(xs, ks, ys), ks.len() == xs.len(), forall|i: int| 0 <= i < xs.len() ==> #[trigger] ks[i] == key(xs[i]),
    ensures ys.len() == xs.len(), sorted_by(ys, key), all_in(ys, xs), all_in(xs, ys),
{
    let n = xs.len() as int;
    let p = choose|p: Seq<int>| #![trigger is_perm(p, n)] is_perm(p, n) && ys.len() == xs.len()
        && (forall|i: int| 0 <= i < xs.len() ==> #[trigger] ys[i] == xs[p[i]])
        && (forall|i: int, j: int| 0 <= i < j < xs.len() ==> key_le(#[trigger] ks[p[i]], #[trigger] ks[p[j]]) && (ks[p[i]] == ks[p[j]] ==> p[i] < p[j]));
    assert(sorted_by(ys, key)) by {
        reveal(sorted_by);
        assert forall|i: int, j: int| 0 <= i < j < ys.len() implies key_le(key(#[trigger] ys[i]), key(#[trigger] ys[j])) by {
            assert(key_le(ks[p[i]], ks[p[j]]));
            assert(ys[i] == xs[p[i]] && ys[j] == xs[p[j]]);
        }
    }
    assert(all_in(ys, xs)) by {
        reveal(all_in);
        assert forall|i: int| 0 <= i < ys.len() implies xs.contains(#[trigger] ys[i]) by { assert(ys[i] == xs[p[i]]); }
    }
    assert(all_in(xs, ys)) by {
        reveal(all_in);
        assert forall|v: int| 0 <= v < xs.len() implies ys.contains(#[trigger] xs[v]) by {
            assert(idx_ok(v, n));
            let i = choose|i: int| 0 <= i < n && #[trigger] p[i] == v;
            assert(ys[i] == xs[p[i]]);
        }
    }
}

// every element's key is the key of the head of its run
proof fn lemma_run_head<K>(ks: Seq<K>, i: int) -> (h: int)
    requires 0 <= i < ks.len(),
    ensures 0 <= h <= i, run_heads(ks)[h], ks[h] == ks[i],
    decreases i,
{
    if i == 0 || ks[i] != ks[i - 1] { i } else { lemma_run_head(ks, i - 1) }
}

// dedup of a sequence sorted by key: no key twice, every key still there, nothing new
pub proof fn lemma_dedup_sorted<T, K>(xs: Seq<T>, ks: Seq<K>, key: spec_fn(T) -> K)
    requires
        ks.len() == xs.len(), forall|i: int| 0 <= i < xs.len() ==> #[trigger] ks[i] == key(xs[i]),
        sorted_by(xs, key),
    ensures
        keys_distinct(keep(xs, run_heads(ks)), key), keys_covered(xs, keep(xs, run_heads(ks)), key), all_in(keep(xs, run_heads(ks)), xs),
{
    let bs = run_heads(ks);
    let r = keep(xs, bs);
    let ix = kidx(bs);
    lemma_kidx(xs, bs);
    assert(keys_distinct(r, key)) by {
        reveal(keys_distinct);
        reveal(sorted_by);
        assert forall|a: int, b: int| 0 <= a < b < r.len() implies key(#[trigger] r[a]) != key(#[trigger] r[b]) by {
            let i = ix[a];
            let j = ix[b];
            assert(i < j);
            assert(bs[j]);
            assert(r[a] == xs[i] && r[b] == xs[j]);
            if key(xs[i]) == key(xs[j]) {
                // i <= j-1 < j, keys are nondecreasing, so key(j-1) is squeezed between two equal keys
                assert(ks[j] != ks[j - 1]);
                if i < j - 1 { assert(key_le(key(xs[i]), key(xs[j - 1]))); }
                assert(key_le(key(xs[j - 1]), key(xs[j])));
                axiom_key_le_total_order(key(xs[j - 1]), key(xs[j]), key(xs[i]));
                axiom_key_le_total_order(key(xs[i]), key(xs[j - 1]), key(xs[j]));
                assert(key(xs[j - 1]) == key(xs[j]));
                assert(false);
            }
        }
    }
    assert(keys_covered(xs, r, key)) by {
        reveal(keys_covered);
        assert forall|i: int| 0 <= i < xs.len() implies exists|a: int| 0 <= a < r.len() && key(#[trigger] r[a]) == key(#[trigger] xs[i]) by {
            let h = lemma_run_head(ks, i);
            let a = choose|a: int| 0 <= a < ix.len() && #[trigger] ix[a] == h;
            assert(r[a] == xs[h]);
            assert(key(r[a]) == key(xs[i]));
        }
    }
    assert(all_in(r, xs)) by {
        reveal(all_in);
        assert forall|a: int| 0 <= a < r.len() implies xs.contains(#[trigger] r[a]) by { assert(r[a] == xs[ix[a]]); }
    }
}

} // verus!
