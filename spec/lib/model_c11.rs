// The C11 model: what get_bind_group_data has to compute, written from the property statement
// (pure specifications over the real naga::Module; nothing assumed here).
#![allow(unused_imports)]
use vstd::prelude::*;
use std::collections::BTreeMap;
use crate::prelude::*;
use crate::{GroupData, GroupBinding, CreateModuleError};

verus! {

// every type handle of a global variable is in range: part of naga's own module invariant
pub open spec fn module_wf(m: &naga::Module) -> bool {
    forall|i: int| 0 <= i < arena_seq(&m.global_variables).len() ==> 0 <= handle_index(#[trigger] arena_seq(&m.global_variables)[i].ty) < uarena_seq(&m.types).len()
}

// ---------------- model for C11 ----------------
pub open spec fn gv(m: &naga::Module) -> Seq<naga::GlobalVariable> { arena_seq(&m.global_variables) }
pub open spec fn bound(m: &naga::Module, i: int) -> bool { 0 <= i < gv(m).len() && gv(m)[i].binding is Some }
pub open spec fn grp(m: &naga::Module, i: int) -> u32 { gv(m)[i].binding->0.group }
pub open spec fn bnd(m: &naga::Module, i: int) -> u32 { gv(m)[i].binding->0.binding }
pub open spec fn same_slot(m: &naga::Module, j: int, i: int) -> bool { bound(m, j) && grp(m, j) == grp(m, i) && bnd(m, j) == bnd(m, i) }
pub open spec fn dup_at(m: &naga::Module, i: int) -> bool {
    bound(m, i) && exists|j: int| 0 <= j < i && #[trigger] same_slot(m, j, i)
}
pub open spec fn no_dup_upto(m: &naga::Module, k: int) -> bool { forall|i: int| 0 <= i < k ==> !#[trigger] dup_at(m, i) }

pub open spec fn members(m: &naga::Module, g: u32, k: int) -> Seq<int>
    decreases k
{
    if k <= 0 { Seq::empty() } else {
        let r = members(m, g, k - 1);
        if bound(m, k - 1) && grp(m, k - 1) == g { r.push(k - 1) } else { r }
    }
}
pub open spec fn rec_ok(m: &naga::Module, b: &GroupBinding, i: int) -> bool {
    &&& b.binding_index == bnd(m, i)
    &&& b.name == gv(m)[i].name
    &&& *b.binding_type == uarena_seq(&m.types)[handle_index(gv(m)[i].ty)]
    &&& b.address_space == gv(m)[i].space
}
pub open spec fn group_ok(m: &naga::Module, d: &GroupData, g: u32, k: int) -> bool {
    &&& d.bindings@.len() == members(m, g, k).len()
    &&& forall|t: int| 0 <= t < members(m, g, k).len() ==> rec_ok(m, &#[trigger] d.bindings@[t], members(m, g, k)[t])
}
pub open spec fn groups_ok(m: &naga::Module, gs: Map<u32, GroupData>, k: int) -> bool {
    &&& forall|g: u32| #[trigger] gs.contains_key(g) <==> members(m, g, k).len() > 0
    &&& forall|g: u32| #[trigger] gs.contains_key(g) ==> group_ok(m, &gs[g], g, k)
}
pub open spec fn dense(m: &naga::Module, cnt: int) -> bool {
    forall|g: u32| #[trigger] members(m, g, gv(m).len() as int).len() > 0 <==> (g as int) < cnt
}

pub open spec fn it_done(m: &naga::Module, gs: Map<u32, GroupData>, n: int) -> bool { groups_ok(m, gs, n) && no_dup_upto(m, n) }
pub open spec fn bgd_post(m: &naga::Module, r: Result<BTreeMap<u32, GroupData>, CreateModuleError>) -> bool {
    let n = gv(m).len() as int;
    match r {
        Err(CreateModuleError::DuplicateBinding { binding }) => exists|i: int| 0 <= i < n && #[trigger] dup_at(m, i) && no_dup_upto(m, i) && binding == bnd(m, i),
        Err(CreateModuleError::NonConsecutiveBindGroups) => no_dup_upto(m, n) && !exists|cnt: int| dense(m, cnt),
        Ok(gs) => no_dup_upto(m, n) && dense(m, gs@.len() as int) && groups_ok(m, gs@, n),
        Err(_) => false, // this function never produces a parse or validation error
    }
}



} // verus!
