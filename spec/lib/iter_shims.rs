// Stand-ins for *provided* trait methods of Iterator, which Verus can neither call nor give an
// `assume_specification` ("provided trait method").  The extracted code calls `.shim_X(` where /repo
// calls `.X(` (a whitelisted rename, logged in the evidence); receiver, arguments and closures are the
// real ones and are verified.  Each shim's body is the real std call; its contract is ASSUMED.
#![allow(unused_imports)]
use vstd::prelude::*;
use vstd::std_specs::iter::IteratorSpec;

verus! {

pub trait ShimIterEq: Iterator + Sized {
    fn shim_eq(self, other: core::ops::Range<usize>) -> (r: bool)
        where Self: Iterator<Item = usize>;
}
impl<I: Iterator<Item = usize>> ShimIterEq for I {
    // std: Iterator::eq pulls from both sides in lock step and stops at the first difference.
    // `remaining()` is prophetic: it is the sequence this iterator actually yields, so a short-circuiting
    // comparison sees a prefix of the underlying sequence; `will_return_none()` says it was exhausted.
    #[verifier::external_body]
    fn shim_eq(self, other: core::ops::Range<usize>) -> (r: bool)
        ensures self.obeys_prophetic_iter_laws() ==> ({
            let rem = self.remaining();
            let n = if other.end >= other.start { other.end - other.start } else { 0 };
            &&& r ==> self.will_return_none() && rem.len() == n && forall|k: int| 0 <= k < n ==> #[trigger] rem[k] == other.start + k
            &&& !r ==> ((exists|p: int| 0 <= p < rem.len() && (p >= n || #[trigger] rem[p] != other.start + p)) || (self.will_return_none() && rem.len() < n))
        })
    { self.eq(other) }
}


// ---- filter_map / filter / find / enumerate / flat_map: eager stand-ins with the std meaning ----
// The closures of /repo passed to these are pure (they only read), so evaluating them eagerly on the whole
// sequence yields the same elements in the same order as std's lazy adapters.
pub open spec fn somes<B>(ys: Seq<Option<B>>) -> Seq<B>
    decreases ys.len()
{
    if ys.len() == 0 { Seq::empty() } else {
        let r = somes(ys.drop_last());
        match ys.last() { Some(y) => r.push(y), None => r }
    }
}
pub open spec fn keep<A>(xs: Seq<A>, bs: Seq<bool>) -> Seq<A>
    decreases xs.len()
{
    if xs.len() == 0 || bs.len() != xs.len() { Seq::empty() } else {
        let r = keep(xs.drop_last(), bs.drop_last());
        if bs.last() { r.push(xs.last()) } else { r }
    }
}

// every kept element is one of the originals whose flag is set
pub proof fn lemma_keep_elems<A>(xs: Seq<A>, bs: Seq<bool>, j: int)
    requires bs.len() == xs.len(), 0 <= j < keep(xs, bs).len(),
    ensures exists|i: int| 0 <= i < xs.len() && bs[i] && #[trigger] xs[i] == keep(xs, bs)[j],
    decreases xs.len(),
{
    if xs.len() > 0 {
        let kx = keep(xs.drop_last(), bs.drop_last());
        if bs.last() && j == kx.len() {
            assert(xs[xs.len() - 1] == keep(xs, bs)[j]);
        } else {
            lemma_keep_elems(xs.drop_last(), bs.drop_last(), j);
            let i = choose|i: int| 0 <= i < xs.len() - 1 && bs.drop_last()[i] && #[trigger] xs.drop_last()[i] == kx[j];
            assert(xs[i] == keep(xs, bs)[j]);
        }
    }
}

// filtering first and mapping the survivors == mapping everything with the dropped ones sent to None
pub proof fn lemma_somes_keep<A, B>(xs: Seq<A>, bs: Seq<bool>, ys: Seq<Option<B>>, zs: Seq<Option<B>>, f: spec_fn(A) -> Option<B>)
    requires bs.len() == xs.len(), ys.len() == keep(xs, bs).len(), zs.len() == xs.len(),
        forall|j: int| 0 <= j < ys.len() ==> #[trigger] ys[j] == f(keep(xs, bs)[j]),
        forall|i: int| 0 <= i < xs.len() ==> #[trigger] zs[i] == (if bs[i] { f(xs[i]) } else { None }),
    ensures somes(ys) == somes(zs),
    decreases xs.len(),
{
    if xs.len() > 0 {
        let kx = keep(xs.drop_last(), bs.drop_last());
        if bs.last() {
            assert(keep(xs, bs) == kx.push(xs.last()));
            assert(ys.drop_last().len() == kx.len());
            assert forall|j: int| 0 <= j < ys.drop_last().len() implies #[trigger] ys.drop_last()[j] == f(kx[j]) by { assert(ys[j] == f(keep(xs, bs)[j])); }
            lemma_somes_keep(xs.drop_last(), bs.drop_last(), ys.drop_last(), zs.drop_last(), f);
            assert(ys.last() == f(xs.last()));
            assert(zs.last() == f(xs.last()));
        } else {
            assert(keep(xs, bs) == kx);
            lemma_somes_keep(xs.drop_last(), bs.drop_last(), ys, zs.drop_last(), f);
            assert(zs.last() is None);
        }
    } else {
        assert(ys.len() == 0);
    }
}

// mapping the survivors == surviving the mapped options
pub open spec fn opt_map<A, B>(o: Option<A>, g: spec_fn(A) -> B) -> Option<B> { match o { Some(a) => Some(g(a)), None => None } }
pub proof fn lemma_somes_map<A, B>(ys: Seq<Option<A>>, g: spec_fn(A) -> B)
    ensures somes(ys).map_values(g) == somes(ys.map_values(|o: Option<A>| opt_map(o, g))),
    decreases ys.len(),
{
    let zs = ys.map_values(|o: Option<A>| opt_map(o, g));
    if ys.len() > 0 {
        lemma_somes_map(ys.drop_last(), g);
        assert(zs.drop_last() =~= ys.drop_last().map_values(|o: Option<A>| opt_map(o, g)));
        match ys.last() {
            Some(y) => { assert(somes(ys).map_values(g) =~= somes(ys.drop_last()).map_values(g).push(g(y))); },
            None => {},
        }
    } else {
        assert(somes(ys).map_values(g) =~= somes(zs));
    }
}

pub trait ShimFilterMap: Iterator + Sized {
    fn shim_filter_map<B, F: FnMut(Self::Item) -> Option<B>>(self, f: F) -> (r: std::vec::IntoIter<B>)
        requires
            self.obeys_prophetic_iter_laws(),
            forall|i: int| 0 <= i < self.remaining().len() ==> f.requires((#[trigger] self.remaining()[i],)),
        ensures
            exists|ys: Seq<Option<B>>| #![trigger somes(ys)] ys.len() == self.remaining().len()
                && (forall|i: int| 0 <= i < ys.len() ==> f.ensures((self.remaining()[i],), #[trigger] ys[i]))
                && r.remaining() == somes(ys) && crate::prelude::elems(&r) == somes(ys) && r.obeys_prophetic_iter_laws() && r.decrease() is Some;
}
impl<I: Iterator> ShimFilterMap for I {
    #[verifier::external_body]
    fn shim_filter_map<B, F: FnMut(I::Item) -> Option<B>>(self, f: F) -> (r: std::vec::IntoIter<B>)
    { self.filter_map(f).collect::<Vec<B>>().into_iter() }
}

pub trait ShimFind: Iterator + Sized {
    fn shim_find<P: FnMut(&Self::Item) -> bool>(self, p: P) -> (r: Option<Self::Item>)
        requires
            self.obeys_prophetic_iter_laws(),
            forall|i: int| 0 <= i < self.remaining().len() ==> p.requires((&#[trigger] self.remaining()[i],)),
        ensures
            match r {
                None => forall|i: int| 0 <= i < self.remaining().len() ==> p.ensures((&#[trigger] self.remaining()[i],), false),
                Some(x) => exists|k: int| 0 <= k < self.remaining().len() && x == #[trigger] self.remaining()[k] && p.ensures((&self.remaining()[k],), true)
                    && forall|i: int| 0 <= i < k ==> p.ensures((&#[trigger] self.remaining()[i],), false),
            };
}
impl<I: Iterator> ShimFind for I {
    #[verifier::external_body]
    fn shim_find<P: FnMut(&I::Item) -> bool>(self, p: P) -> (r: Option<I::Item>)
    { let mut s = self; s.find(p) }
}

pub trait ShimFilter: Iterator + Sized {
    fn shim_filter<P: FnMut(&Self::Item) -> bool>(self, p: P) -> (r: std::vec::IntoIter<Self::Item>)
        requires
            self.obeys_prophetic_iter_laws(),
            forall|i: int| 0 <= i < self.remaining().len() ==> p.requires((&#[trigger] self.remaining()[i],)),
        ensures
            exists|bs: Seq<bool>| #![trigger keep(self.remaining(), bs)] bs.len() == self.remaining().len()
                && (forall|i: int| 0 <= i < bs.len() ==> p.ensures((&self.remaining()[i],), #[trigger] bs[i]))
                && r.remaining() == keep(self.remaining(), bs) && crate::prelude::elems(&r) == keep(self.remaining(), bs) && r.obeys_prophetic_iter_laws() && r.decrease() is Some;
}
impl<I: Iterator> ShimFilter for I {
    #[verifier::external_body]
    fn shim_filter<P: FnMut(&I::Item) -> bool>(self, p: P) -> (r: std::vec::IntoIter<I::Item>)
    { self.filter(p).collect::<Vec<I::Item>>().into_iter() }
}

pub trait ShimEnumerate: Iterator + Sized {
    fn shim_enumerate(self) -> (r: std::vec::IntoIter<(usize, Self::Item)>)
        requires self.obeys_prophetic_iter_laws(),
        ensures r.remaining().len() == self.remaining().len(), crate::prelude::elems(&r) == r.remaining(), r.obeys_prophetic_iter_laws(), r.decrease() is Some,
            forall|i: int| 0 <= i < self.remaining().len() ==> (#[trigger] r.remaining()[i]).0 == i && r.remaining()[i].1 == self.remaining()[i];
}
impl<I: Iterator> ShimEnumerate for I {
    #[verifier::external_body]
    fn shim_enumerate(self) -> (r: std::vec::IntoIter<(usize, I::Item)>)
    { self.enumerate().collect::<Vec<(usize, I::Item)>>().into_iter() }
}

// `.cloned()` on an iterator of references: Clone of the naga IR types is a structural copy
pub trait ShimCloned<'a, T: 'a + Clone>: Iterator<Item = &'a T> + Sized {
    fn shim_cloned(self) -> (r: std::vec::IntoIter<T>)
        requires self.obeys_prophetic_iter_laws(),
        ensures r.remaining().len() == self.remaining().len(), crate::prelude::elems(&r) == r.remaining(), r.obeys_prophetic_iter_laws(), r.decrease() is Some,
            forall|i: int| 0 <= i < self.remaining().len() ==> #[trigger] r.remaining()[i] == *self.remaining()[i];
}
impl<'a, T: 'a + Clone, I: Iterator<Item = &'a T>> ShimCloned<'a, T> for I {
    #[verifier::external_body]
    fn shim_cloned(self) -> (r: std::vec::IntoIter<T>)
    { self.cloned().collect::<Vec<T>>().into_iter() }
}

} // verus!
