// Stand-ins for *provided* trait methods of Iterator, which Verus can neither call nor give an
// `assume_specification` ("provided trait method").  The extracted code calls `.shim_X(` where /repo
// calls `.X(` (a whitelisted rename, logged in the evidence); receiver, arguments and closures are the
// real ones and are verified.  Each shim's body is the real std call; its contract is ASSUMED.
#![allow(unused_imports)]
use vstd::prelude::*;
use vstd::std_specs::iter::IteratorSpec;

verus! {

pub trait ShimIterEq: Iterator + Sized {
    fn shim_eq(self, other: core::ops::Range<usize>) -> (r: bool)
        where Self: Iterator<Item = usize>;
}
impl<I: Iterator<Item = usize>> ShimIterEq for I {
    // std: Iterator::eq pulls from both sides in lock step and stops at the first difference.
    // `remaining()` is prophetic: it is the sequence this iterator actually yields, so a short-circuiting
    // comparison sees a prefix of the underlying sequence; `will_return_none()` says it was exhausted.
    #[verifier::external_body]
    fn shim_eq(self, other: core::ops::Range<usize>) -> (r: bool)
        ensures self.obeys_prophetic_iter_laws() ==> ({
            let rem = self.remaining();
            let n = if other.end >= other.start { other.end - other.start } else { 0 };
            &&& r ==> self.will_return_none() && rem.len() == n && forall|k: int| 0 <= k < n ==> #[trigger] rem[k] == other.start + k
            &&& !r ==> ((exists|p: int| 0 <= p < rem.len() && (p >= n || #[trigger] rem[p] != other.start + p)) || (self.will_return_none() && rem.len() < n))
        })
    { self.eq(other) }
}

} // verus!
