// naga's WGSL front end and validator as uninterpreted, result-valued functions of their arguments
// (needed for C17: what they accept is naga's business; the contract only says the result is a function of
// the source text / of (capabilities, module), and that the validator reports exactly what spec_validate says).
#![allow(unused_imports)]
use vstd::prelude::*;

verus! {

#[verifier::external_type_specification] #[verifier::external_body] pub struct ExValidator(naga::valid::Validator);
#[verifier::external_type_specification] #[verifier::external_body] pub struct ExValidationFlags(naga::valid::ValidationFlags);
#[verifier::external_type_specification] #[verifier::external_body] pub struct ExCapabilities(naga::valid::Capabilities);
#[verifier::external_type_specification] #[verifier::external_body] pub struct ExModuleInfo(naga::valid::ModuleInfo);

pub uninterp spec fn spec_parse(src: Seq<char>) -> Result<naga::Module, naga::front::wgsl::ParseError>;
pub uninterp spec fn spec_validate(caps: naga::valid::Capabilities, m: naga::Module) -> Option<naga::WithSpan<naga::valid::ValidationError>>;
pub uninterp spec fn validator_caps(v: naga::valid::Validator) -> naga::valid::Capabilities;

pub assume_specification[ naga::front::wgsl::parse_str ](src: &str) -> (r: Result<naga::Module, naga::front::wgsl::ParseError>)
    ensures r == spec_parse(src@);
pub assume_specification[ naga::valid::ValidationFlags::all ]() -> naga::valid::ValidationFlags;
pub assume_specification[ naga::valid::Validator::new ](flags: naga::valid::ValidationFlags, caps: naga::valid::Capabilities) -> (v: naga::valid::Validator)
    ensures validator_caps(v) == caps;
pub assume_specification[ naga::valid::Validator::validate ](v: &mut naga::valid::Validator, m: &naga::Module) -> (r: Result<naga::valid::ModuleInfo, naga::WithSpan<naga::valid::ValidationError>>)
    ensures (r is Err) == (spec_validate(validator_caps(*old(v)), *m) is Some),
            r is Err ==> Some(r->Err_0) == spec_validate(validator_caps(*old(v)), *m);

} // verus!
