// Model of the type closure of structs::add_types_recursive (C08, C20): pure specifications and proved lemmas.
#![allow(unused_imports)]
use vstd::prelude::*;
use crate::prelude::*;

verus! {

// ---------------- model: the "directly contains" relation on type handles, from the statement ----------------
// (members, arrays, runtime arrays; pointers and binding arrays as naga has them)
pub open spec fn ntypes(m: &naga::Module) -> int { uarena_seq(&m.types).len() as int }
pub open spec fn ty_at(m: &naga::Module, a: int) -> naga::Type { uarena_seq(&m.types)[a] }
pub open spec fn edge(m: &naga::Module, a: int, b: int) -> bool {
    0 <= a < ntypes(m) && match ty_at(m, a).inner {
        naga::TypeInner::Pointer { base, .. } => handle_index(base) == b,
        naga::TypeInner::Array { base, .. } => handle_index(base) == b,
        naga::TypeInner::BindingArray { base, .. } => handle_index(base) == b,
        naga::TypeInner::Struct { members, .. } => exists|k: int| 0 <= k < members@.len() && handle_index(#[trigger] members@[k].ty) == b,
        _ => false,
    }
}
// naga builds the UniqueArena bottom-up: a type only refers to types with smaller handles
pub open spec fn types_wf(m: &naga::Module) -> bool {
    forall|a: int, b: int| #[trigger] edge(m, a, b) ==> 0 <= b < a
}
// reachability: reflexive-transitive closure of edge (well-founded by types_wf)
pub open spec fn reach(m: &naga::Module, a: int, b: int) -> bool
    decreases a
{
    0 <= a < ntypes(m) && (a == b || exists|c: int| 0 <= c < a && #[trigger] edge(m, a, c) && reach(m, c, b))
}

// ---------------- seen set ----------------
pub open spec fn seen(v: Set<naga::Handle<naga::Type>>, d: int) -> bool { v.contains(mk_handle(d)) }
pub open spec fn smono(a: Set<naga::Handle<naga::Type>>, b: Set<naga::Handle<naga::Type>>) -> bool { forall|d: int| #[trigger] seen(a, d) ==> seen(b, d) }
// every seen type with index <= t has all the types it directly contains seen as well
pub open spec fn closed_upto(m: &naga::Module, v: Set<naga::Handle<naga::Type>>, t: int) -> bool {
    forall|a: int, b: int| seen(v, a) && a <= t && #[trigger] edge(m, a, b) ==> seen(v, b)
}
pub open spec fn closed(m: &naga::Module, v: Set<naga::Handle<naga::Type>>) -> bool {
    forall|a: int, b: int| seen(v, a) && #[trigger] edge(m, a, b) ==> seen(v, b)
}
pub open spec fn new_closed(m: &naga::Module, v0: Set<naga::Handle<naga::Type>>, v1: Set<naga::Handle<naga::Type>>) -> bool {
    forall|a: int, b: int| seen(v1, a) && !seen(v0, a) && #[trigger] edge(m, a, b) ==> seen(v1, b)
}
pub open spec fn new_reached(m: &naga::Module, v0: Set<naga::Handle<naga::Type>>, v1: Set<naga::Handle<naga::Type>>, t: int) -> bool {
    forall|d: int| #[trigger] seen(v1, d) && !seen(v0, d) ==> reach(m, t, d)
}
pub open spec fn all_reached(m: &naga::Module, v1: Set<naga::Handle<naga::Type>>, t: int) -> bool {
    forall|d: int| #[trigger] reach(m, t, d) ==> seen(v1, d)
}
pub open spec fn in_arena(m: &naga::Module, v: Set<naga::Handle<naga::Type>>) -> bool {
    forall|h: naga::Handle<naga::Type>| #[trigger] v.contains(h) ==> 0 <= handle_index(h) < ntypes(m)
}

// ---------------- cost measure: number of type handles not yet seen ----------------
pub open spec fn sset(m: &naga::Module, v: Set<naga::Handle<naga::Type>>) -> Set<int> {
    Set::<int>::range(0, ntypes(m)).filter(|d: int| seen(v, d))
}
pub open spec fn unseen(m: &naga::Module, v: Set<naga::Handle<naga::Type>>) -> nat { (ntypes(m) - sset(m, v).len()) as nat }
pub proof fn lemma_sset_bounds(m: &naga::Module, v: Set<naga::Handle<naga::Type>>)
    ensures sset(m, v).finite(), sset(m, v).len() <= ntypes(m),
{
    let r = Set::<int>::range(0, ntypes(m));
    r.lemma_len_filter(|d: int| seen(v, d));
    assert(r.len() == ntypes(m));
}
pub proof fn lemma_unseen_mono(m: &naga::Module, v: Set<naga::Handle<naga::Type>>, v2: Set<naga::Handle<naga::Type>>)
    requires smono(v, v2),
    ensures unseen(m, v2) <= unseen(m, v),
{
    lemma_sset_bounds(m, v); lemma_sset_bounds(m, v2);
    assert(sset(m, v).subset_of(sset(m, v2)));
    vstd::set_lib::lemma_len_subset(sset(m, v), sset(m, v2));
}
pub proof fn lemma_unseen_insert(m: &naga::Module, v: Set<naga::Handle<naga::Type>>, c: int)
    requires 0 <= c < ntypes(m), !seen(v, c),
    ensures unseen(m, v.insert(mk_handle(c))) < unseen(m, v),
{
    let v2 = v.insert(mk_handle::<naga::Type>(c));
    lemma_sset_bounds(m, v); lemma_sset_bounds(m, v2);
    assert forall|d: int| sset(m, v2).contains(d) == sset(m, v).insert(c).contains(d) by {
        axiom_mk_handle_idx::<naga::Type>(d);
        axiom_mk_handle_idx::<naga::Type>(c);
    }
    assert(sset(m, v2) =~= sset(m, v).insert(c));
}

// a seen type whose small part of the set is closed has everything it reaches seen
pub proof fn lemma_closed_reach(m: &naga::Module, v: Set<naga::Handle<naga::Type>>, t: int, a: int, d: int)
    requires types_wf(m), closed_upto(m, v, t), seen(v, a), a <= t, reach(m, a, d),
    ensures seen(v, d),
    decreases a,
{
    if a != d {
        let c = choose|c: int| 0 <= c < a && #[trigger] edge(m, a, c) && reach(m, c, d);
        lemma_closed_reach(m, v, t, c, d);
    }
}


// what is needed to descend into child c of the in-progress type t
pub proof fn lemma_child_pre(m: &naga::Module, v0: Set<naga::Handle<naga::Type>>, vk: Set<naga::Handle<naga::Type>>, t: int, c: int)
    requires types_wf(m), edge(m, t, c), closed_upto(m, v0, t), smono(v0, vk), !seen(v0, t),
        forall|a: int, b: int| seen(vk, a) && !seen(v0, a) && a != t && #[trigger] edge(m, a, b) ==> seen(vk, b),
    ensures 0 <= c < t, closed_upto(m, vk, c),
{
    assert forall|a: int, b: int| seen(vk, a) && a <= c && #[trigger] edge(m, a, b) implies seen(vk, b) by {
        if seen(v0, a) { assert(seen(v0, b)); }
    }
}
// bookkeeping after the recursive call for child c
pub proof fn lemma_child_post(m: &naga::Module, v0: Set<naga::Handle<naga::Type>>, vk: Set<naga::Handle<naga::Type>>, v2: Set<naga::Handle<naga::Type>>, t: int, c: int)
    requires types_wf(m), 0 <= t < ntypes(m), edge(m, t, c), smono(v0, vk), smono(vk, v2),
        forall|d: int| #[trigger] seen(vk, d) && !seen(v0, d) ==> reach(m, t, d),
        forall|a: int, b: int| seen(vk, a) && !seen(v0, a) && a != t && #[trigger] edge(m, a, b) ==> seen(vk, b),
        new_reached(m, vk, v2, c), new_closed(m, vk, v2),
    ensures smono(v0, v2),
        forall|d: int| #[trigger] seen(v2, d) && !seen(v0, d) ==> reach(m, t, d),
        forall|a: int, b: int| seen(v2, a) && !seen(v0, a) && a != t && #[trigger] edge(m, a, b) ==> seen(v2, b),
{
    assert forall|d: int| #[trigger] seen(v2, d) && !seen(v0, d) implies reach(m, t, d) by {
        if !seen(vk, d) { assert(reach(m, c, d)); assert(0 <= c < t); }
    }
    assert forall|a: int, b: int| seen(v2, a) && !seen(v0, a) && a != t && #[trigger] edge(m, a, b) implies seen(v2, b) by {
        if seen(vk, a) { assert(seen(vk, b)); }
    }
}
// a type with a single directly contained type (pointer, array, binding array)
pub open spec fn only_child(m: &naga::Module, t: int, c: int) -> bool { forall|b: int| #[trigger] edge(m, t, b) <==> b == c }
pub proof fn lemma_one_child_pre(m: &naga::Module, v0: Set<naga::Handle<naga::Type>>, v1: Set<naga::Handle<naga::Type>>, t: int, c: int)
    requires types_wf(m), 0 <= t < ntypes(m), edge(m, t, c), closed_upto(m, v0, t), !seen(v0, t), smono(v0, v1),
        forall|d: int| seen(v1, d) ==> seen(v0, d) || d == t,
    ensures 0 <= c < t, closed_upto(m, v1, c),
{
    assert forall|a: int, b: int| seen(v1, a) && a <= c && #[trigger] edge(m, a, b) implies seen(v1, b) by {
        assert(seen(v0, a)); assert(seen(v0, b));
    }
}
pub proof fn lemma_one_child_post(m: &naga::Module, v0: Set<naga::Handle<naga::Type>>, v1: Set<naga::Handle<naga::Type>>, v2: Set<naga::Handle<naga::Type>>, t: int, c: int)
    requires types_wf(m), 0 <= t < ntypes(m), only_child(m, t, c), !seen(v0, t), seen(v1, t), smono(v0, v1), smono(v1, v2),
        forall|d: int| seen(v1, d) ==> seen(v0, d) || d == t,
        all_reached(m, v2, c), new_reached(m, v1, v2, c), new_closed(m, v1, v2),
    ensures smono(v0, v2), all_reached(m, v2, t), new_reached(m, v0, v2, t), new_closed(m, v0, v2),
{
    assert(edge(m, t, c));
    assert forall|d: int| #[trigger] reach(m, t, d) implies seen(v2, d) by {
        if d != t { let c2 = choose|c2: int| 0 <= c2 < t && #[trigger] edge(m, t, c2) && reach(m, c2, d); assert(c2 == c); }
    }
    assert forall|d: int| #[trigger] seen(v2, d) && !seen(v0, d) implies reach(m, t, d) by {
        if !seen(v1, d) { assert(reach(m, c, d)); }
    }
    assert forall|a: int, b: int| seen(v2, a) && !seen(v0, a) && #[trigger] edge(m, a, b) implies seen(v2, b) by {
        if seen(v1, a) { assert(a == t); assert(b == c); assert(reach(m, c, c)); }
    }
}

// ---------------- the same argument packaged so that the body of add_types_recursive needs no hint inside its match arms ----------------
// (a proof whose hints sit around individual calls is lost when an arm is merged, split or re-bracketed; these facts are stated once,
//  before and after the match, with triggers that fire on the obligations of the recursive calls)
// the state in which a not yet seen type t is entered
pub open spec fn entered(m: &naga::Module, v0: Set<naga::Handle<naga::Type>>, t: int) -> bool {
    types_wf(m) && 0 <= t < ntypes(m) && closed_upto(m, v0, t) && !seen(v0, t)
}
// what holds of the set while t is in progress: it grew from v0, holds t, everything new is reachable from t,
// and every new type other than t is finished (its contents are in the set)
pub open spec fn frame(m: &naga::Module, v0: Set<naga::Handle<naga::Type>>, v: Set<naga::Handle<naga::Type>>, t: int) -> bool {
    &&& smono(v0, v) && seen(v, t)
    &&& forall|d: int| #[trigger] seen(v, d) && !seen(v0, d) ==> reach(m, t, d)
    &&& forall|a: int, b: int| seen(v, a) && !seen(v0, a) && a != t && #[trigger] edge(m, a, b) ==> seen(v, b)
}
// every directly contained type of t has been closed over
pub open spec fn children_done(m: &naga::Module, v: Set<naga::Handle<naga::Type>>, t: int) -> bool {
    forall|c: int| #[trigger] edge(m, t, c) ==> all_reached(m, v, c)
}
// the precondition of a call for type c in state v: c is in the arena, and every finished type at or below c already has its
// contents in the set (in-progress ancestors have larger handles)
pub open spec fn type_call_ok(m: &naga::Module, v: Set<naga::Handle<naga::Type>>, c: int) -> bool {
    &&& 0 <= c < ntypes(m) && closed_upto(m, v, c)
    // a consequence of the line above in a bottom-up arena (lemma_seen_already), stated so that the "already in the set" exit
    // needs no hint, whatever shape it has (early return, guard around the rest, ..)
    &&& seen(v, c) ==> all_reached(m, v, c)
}
// what a caller that keeps the set closed has to show
pub proof fn lemma_call_ok_from_closed(m: &naga::Module, v: Set<naga::Handle<naga::Type>>, c: int)
    requires types_wf(m), 0 <= c < ntypes(m), closed_upto(m, v, c),
    ensures type_call_ok(m, v, c),
{
    if seen(v, c) { lemma_seen_already(m, v, c); }
}
// the precondition of the recursive call for ANY directly contained type c of t, in ANY in-progress state v
pub open spec fn child_ready(m: &naga::Module, v0: Set<naga::Handle<naga::Type>>, t: int) -> bool {
    forall|v: Set<naga::Handle<naga::Type>>, c: int| frame(m, v0, v, t) && edge(m, t, c) ==> #[trigger] type_call_ok(m, v, c) && 0 <= c < t
}
pub proof fn lemma_child_ready(m: &naga::Module, v0: Set<naga::Handle<naga::Type>>, t: int)
    requires entered(m, v0, t),
    ensures child_ready(m, v0, t),
{
    assert forall|v: Set<naga::Handle<naga::Type>>, c: int| frame(m, v0, v, t) && edge(m, t, c) implies #[trigger] type_call_ok(m, v, c) && 0 <= c < t by {
        lemma_child_pre(m, v0, v, t, c);
        lemma_call_ok_from_closed(m, v, c);
    }
}
pub proof fn lemma_enter(m: &naga::Module, v0: Set<naga::Handle<naga::Type>>, v1: Set<naga::Handle<naga::Type>>, t: int)
    requires types_wf(m), 0 <= t < ntypes(m), closed_upto(m, v0, t), !seen(v0, t), v1 =~= v0.insert(mk_handle(t)),
    ensures entered(m, v0, t), frame(m, v0, v1, t), unseen(m, v1) < unseen(m, v0), child_ready(m, v0, t),
{
    lemma_unseen_insert(m, v0, t);
    axiom_mk_handle_idx::<naga::Type>(t);
    assert forall|d: int| seen(v1, d) implies seen(v0, d) || d == t by { axiom_mk_handle_idx::<naga::Type>(d); }
    assert(reach(m, t, t));
    lemma_child_ready(m, v0, t);
}
// bookkeeping after the recursive call for the directly contained type c
pub proof fn lemma_frame_step(m: &naga::Module, v0: Set<naga::Handle<naga::Type>>, vk: Set<naga::Handle<naga::Type>>, v2: Set<naga::Handle<naga::Type>>, t: int, c: int)
    requires entered(m, v0, t), frame(m, v0, vk, t), edge(m, t, c), smono(vk, v2), new_reached(m, vk, v2, c), new_closed(m, vk, v2),
    ensures frame(m, v0, v2, t),
{
    lemma_child_post(m, v0, vk, v2, t, c);
    assert(seen(vk, t));
}
// the same as an implication, for use after the match without knowing which arm ran: whichever directly contained type c was
// descended into from state vk, the frame is re-established
pub proof fn lemma_frame_step_if(m: &naga::Module, v0: Set<naga::Handle<naga::Type>>, vk: Set<naga::Handle<naga::Type>>, v2: Set<naga::Handle<naga::Type>>, t: int, c: int)
    ensures entered(m, v0, t) && frame(m, v0, vk, t) && edge(m, t, c) && smono(vk, v2) && new_reached(m, vk, v2, c) && new_closed(m, vk, v2) ==> frame(m, v0, v2, t),
{
    if entered(m, v0, t) && frame(m, v0, vk, t) && edge(m, t, c) && smono(vk, v2) && new_reached(m, vk, v2, c) && new_closed(m, vk, v2) {
        lemma_frame_step(m, v0, vk, v2, t, c);
    }
}
// the directly contained type of a pointer / array / binding array
pub open spec fn single_child(m: &naga::Module, t: int) -> Option<int> {
    match ty_at(m, t).inner {
        naga::TypeInner::Pointer { base, .. } => Some(handle_index(base)),
        naga::TypeInner::Array { base, .. } => Some(handle_index(base)),
        naga::TypeInner::BindingArray { base, .. } => Some(handle_index(base)),
        _ => None,
    }
}
// leaving t: the four postconditions follow from the frame and "every directly contained type is closed over"
pub proof fn lemma_leave(m: &naga::Module, v0: Set<naga::Handle<naga::Type>>, vf: Set<naga::Handle<naga::Type>>, t: int)
    ensures entered(m, v0, t) && frame(m, v0, vf, t) && children_done(m, vf, t)
        ==> smono(v0, vf) && all_reached(m, vf, t) && new_reached(m, v0, vf, t) && new_closed(m, v0, vf),
{
    if entered(m, v0, t) && frame(m, v0, vf, t) && children_done(m, vf, t) {
        assert forall|d: int| #[trigger] reach(m, t, d) implies seen(vf, d) by {
            if d != t {
                let c = choose|c: int| 0 <= c < t && #[trigger] edge(m, t, c) && reach(m, c, d);
                assert(all_reached(m, vf, c));
            }
        }
        assert forall|a: int, b: int| seen(vf, a) && !seen(v0, a) && #[trigger] edge(m, a, b) implies seen(vf, b) by {
            if a == t { assert(all_reached(m, vf, b)); assert(0 <= b < t); assert(reach(m, b, b)); }
        }
    }
}
// the type was in the set already: everything it reaches is there (it is finished or an in-progress ancestor cannot be below it)
pub proof fn lemma_seen_already(m: &naga::Module, v0: Set<naga::Handle<naga::Type>>, t: int)
    requires types_wf(m), closed_upto(m, v0, t), seen(v0, t),
    ensures all_reached(m, v0, t),
{
    assert forall|d: int| #[trigger] reach(m, t, d) implies seen(v0, d) by { lemma_closed_reach(m, v0, t, t, d); }
}


} // verus!
