// Token-level spec functions shared by several units (pure specifications; nothing assumed here).
#![allow(unused_imports)]
use vstd::prelude::*;
use crate::tokens::*;

verus! {

// the identifier `{prefix}{n}` (indexed_name_to_ident)
pub open spec fn name_id(prefix: &str, n: u32) -> Seq<Tok> { seq![Tok::Id(fmt2("{}{}", FmtV::S(prefix@), FmtV::U(n as int)))] }

// ---------------- C03: stage set -> token expression ----------------
// The canonical expression for each subset of {VERTEX=1, FRAGMENT=2, COMPUTE=4}.  That rustc/wgpu read
// `wgpu::ShaderStages::VERTEX.union(wgpu::ShaderStages::COMPUTE)` as the set {V, C} is trusted (DESIGN 4.5).
pub open spec fn stages_toks(bits: u32) -> Seq<Tok> {
    if bits == 7 { ts!(wgpu::ShaderStages::all()) }
    else if bits == 3 { ts!(wgpu::ShaderStages::VERTEX_FRAGMENT) }
    else if bits == 0 { ts!(wgpu::ShaderStages::NONE) }
    else if bits == 1 { ts!(wgpu::ShaderStages::VERTEX) }
    else if bits == 2 { ts!(wgpu::ShaderStages::FRAGMENT) }
    else if bits == 4 { ts!(wgpu::ShaderStages::COMPUTE) }
    else if bits == 5 { ts!(wgpu::ShaderStages::VERTEX.union(wgpu::ShaderStages::COMPUTE)) }
    else { ts!(wgpu::ShaderStages::FRAGMENT.union(wgpu::ShaderStages::COMPUTE)) }
}
pub open spec fn stage_map_ok(gs: Map<String, crate::wgpu::ShaderStages>) -> bool { forall|n: String| #[trigger] gs.contains_key(n) ==> gs[n].bits < 8 }

} // verus!
