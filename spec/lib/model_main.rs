// Model of the top-level assembly (lib::create_shader_module_inner): C04 pipeline layout order, C09 non-interference,
// C13 emission, C16 SOURCE item, C17 gating, C18 functional dependence, C19 printer choice.  Pure specifications.
// Every callee contract used here is the concrete contract proved in the callee's own unit (stubs are checked token for token).
#![allow(unused_imports)]
use vstd::prelude::*;
use crate::prelude::*;
use crate::tokens::*;
use crate::seq_lemmas::*;
use crate::model_common::*;
use crate::model_c11::*;
use crate::model_bindgroup::*;
use crate::model_lib::*;
use crate::model_types::*;
use crate::model_reach::*;
use crate::model_structs::*;
use crate::model_consts::*;
use crate::model_entry::*;
use crate::model_vertex::{vertex_args_wf, vertex_states_toks, vertex_fields_wf, vertex_methods_post};
use crate::naga_front::*;
use crate::print_model::*;
use crate::print_model::process_model::*;
use crate::wgpu;
use crate::{GroupData, GroupBinding, CreateModuleError, WriteOptions, ValidationOptions, MatrixVectorTypes};

verus! {

// ---- the only part of the options the generated items may depend on (C09) ----
pub struct StructOpts { pub bytemuck_vertex: bool, pub bytemuck_host: bool, pub encase_host: bool, pub serde: bool, pub mvt: MatrixVectorTypes }
pub open spec fn struct_opts(o: WriteOptions) -> StructOpts {
    StructOpts { bytemuck_vertex: o.derive_bytemuck_vertex, bytemuck_host: o.derive_bytemuck_host_shareable,
                 encase_host: o.derive_encase_host_shareable, serde: o.derive_serde, mvt: o.matrix_vector_types }
}

// ---- abstract contracts of callees proved (or to be proved) elsewhere: results are functions of the arguments ----
// the stage analysis: the concrete contracts of wgsl::global_shader_stages / entry_stages (proved in unit stages).  The map is
// THE stage map of the module: bounded + exact + complete have exactly one solution (model_stages::lemma_stages_unique).
pub open spec fn pre_stages(m: &naga::Module) -> bool { crate::model_stages::wf(m) && crate::model_stages::wf_entries(m) }
pub open spec fn spec_global_stages(m: &naga::Module) -> Map<String, wgpu::ShaderStages> { crate::model_stages::stage_map_of(m) }
pub open spec fn spec_entry_bits(m: &naga::Module) -> u32 { crate::model_stages::entry_bits(m.entry_points@) }
// the struct section: the concrete contract of structs::structs (proved in unit structs), read through the five struct switches only
pub open spec fn opts_of(so: StructOpts) -> WriteOptions {
    WriteOptions { derive_bytemuck_vertex: so.bytemuck_vertex, derive_bytemuck_host_shareable: so.bytemuck_host, derive_encase_host_shareable: so.encase_host,
                   derive_serde: so.serde, matrix_vector_types: so.mvt, rustfmt: false, validate: None }
}
pub open spec fn pre_structs(m: &naga::Module, o: StructOpts) -> bool { structs_pre(m, opts_of(o)) }
pub open spec fn spec_structs(m: &naga::Module, o: StructOpts) -> Seq<Tok> { structs_toks(m, opts_of(o)) }
pub open spec fn pre_consts(m: &naga::Module) -> bool { consts_wf(m) }
pub open spec fn spec_consts(m: &naga::Module) -> Seq<Seq<Tok>> { consts_items(m) }
pub open spec fn pre_overrides(m: &naga::Module) -> bool { overrides_supported(m) }
pub open spec fn spec_overrides(m: &naga::Module) -> Seq<Tok> { overrides_toks(m) }
// the vertex section: the concrete contract of entry::vertex_struct_methods (proved in unit vertex).  It is a RELATION
// (vertex_methods_post: one impl block per vertex input struct, every such struct, none twice - the order of the blocks is
// left to sort_by_key), so the output specification takes the section as an argument `vm` constrained by it.
pub open spec fn pre_vertex_methods(m: &naga::Module) -> bool { vertex_args_wf(m) && vertex_fields_wf(m) }
pub open spec fn pre_entry_consts(m: &naga::Module) -> bool { true }
pub open spec fn spec_entry_consts(m: &naga::Module) -> Seq<Tok> { entry_consts_toks(m.entry_points@) }
pub open spec fn pre_vertex_states(m: &naga::Module) -> bool { vertex_args_wf(m) }
pub open spec fn spec_vertex_states(m: &naga::Module) -> Seq<Tok> { vertex_states_toks(m) }
pub open spec fn pre_fragment_states(m: &naga::Module) -> bool { entries_wf(m) }
pub open spec fn spec_fragment_states(m: &naga::Module) -> Seq<Tok> { fragment_states_toks(m) }

// ---- C16: the SOURCE item ----
pub open spec fn source_toks(src: Seq<char>, path: Option<Seq<char>>) -> Seq<Tok> {
    let included = match path {
        Some(p) => { let pl = seq![Tok::LitS(p)]; ts!(include_str!(#pl)) },   // include_str! of exactly the given path
        None => seq![Tok::LitS(src)],                                          // a string literal whose VALUE is the whole input
    };
    ts!(
        pub const SOURCE: &str = #included;
        pub fn create_shader_module(device: &wgpu::Device) -> wgpu::ShaderModule {
            let source = std::borrow::Cow::Borrowed(SOURCE);
            device.create_shader_module(wgpu::ShaderModuleDescriptor {
                label: None,
                source: wgpu::ShaderSource::Wgsl(source)
            })
        }
    )
}

// ---- C04 / C13: the pipeline layout ----
pub open spec fn layout_item_toks(k: u32) -> Seq<Tok> { let g = name_id("BindGroup", k); ts!(bind_groups::#g::get_bind_group_layout(device)) }
pub open spec fn opt_toks(o: Option<Seq<Tok>>) -> Seq<Tok> { match o { Some(t) => t, None => Seq::empty() } }
pub open spec fn pipeline_layout_toks(ks: Seq<u32>, pc_range: Option<Seq<Tok>>) -> Seq<Tok> {
    let layouts = flat(Seq::new(ks.len(), |i: int| layout_item_toks(ks[i])), ts!(&), Seq::empty(), ts!(,));
    let pcr = opt_toks(pc_range);
    ts!(
        pub fn create_pipeline_layout(device: &wgpu::Device) -> wgpu::PipelineLayout {
            device.create_pipeline_layout(&wgpu::PipelineLayoutDescriptor {
                label: None,
                bind_group_layouts: &[
                    #layouts
                ],
                push_constant_ranges: &[#pcr],
            })
        }
    )
}
pub open spec fn pc_stages_toks(st: Option<Seq<Tok>>) -> Seq<Tok> {
    match st { Some(s) => ts!(pub const PUSH_CONSTANT_STAGES: wgpu::ShaderStages = #s;), None => Seq::empty() }
}
// the push constant pieces (relational form of model_lib::pc_post over token views)
pub open spec fn pc_ok(m: &naga::Module, gs: Map<String, wgpu::ShaderStages>, eb: u32, pcr: Option<Seq<Tok>>, pcs: Option<Seq<Tok>>) -> bool {
    match (pcr, pcs) {
        (None, None) => forall|i: int| 0 <= i < globals(m).len() ==> !is_pc(&#[trigger] globals(m)[i]),
        (Some(a), Some(b)) => exists|k: int| #[trigger] first_pc(m, k) && a == pc_range_toks(m, &globals(m)[k]) && b == stages_toks(pc_bits(&globals(m)[k], gs, eb)),
        _ => false,
    }
}

// ---- the whole module ----
pub open spec fn output_toks(m: &naga::Module, src: Seq<char>, path: Option<Seq<char>>, so: StructOpts,
                             gmap: Map<u32, GroupData>, ks: Seq<u32>, pcr: Option<Seq<Tok>>, pcs: Option<Seq<Tok>>, vm: Seq<Tok>) -> Seq<Tok> {
    let structs = spec_structs(m, so);
    let consts = flat(spec_consts(m), Seq::empty(), Seq::empty(), Seq::empty());
    let overrides = spec_overrides(m);
    let bgm = bind_groups_module_toks(ks, gmap, spec_global_stages(m));
    let cm = compute_module_toks(m.entry_points@);
    let ec = spec_entry_consts(m);
    let vs = spec_vertex_states(m);
    let fs = spec_fragment_states(m);
    let csm = source_toks(src, path);
    let pst = pc_stages_toks(pcs);
    let cpl = pipeline_layout_toks(ks, pcr);
    ts!(#structs #consts #overrides #bgm #vm #cm #ec #vs #fs #csm #pst #cpl)
}

// ---- C19: what the formatter path may return ----
// either the unformatted token string, or - only if the whole input was written, the run exited successfully and printed
// non-empty valid UTF-8 - exactly what that run printed
// the formatted text is still the same program: it lexes, and to the same tokens modulo trailing commas (lib::is_same_program)
pub open spec fn same_program(text: Seq<char>, toks: Seq<Tok>) -> bool {
    lexes(text) && canon_text(parse_toks(text)) == canon_text(toks)
}
pub open spec fn fmt_post(toks: Seq<Tok>, text: Seq<char>) -> bool {
    text == tokens_string(toks) || (same_program(text, toks) && exists|id: int| #[trigger] run_success(id) && run_written(id, utf8_encode(tokens_string(toks)))
        && run_stdout(id).len() > 0 && utf8_decode(run_stdout(id)) == Some(text))
}
pub open spec fn printed(toks: Seq<Tok>, rustfmt: bool, text: Seq<char>) -> bool {
    if rustfmt { fmt_post(toks, text) }
    else { parse_file_spec(tokens_string(toks)) is Some && text == unparse_spec(parse_file_spec(tokens_string(toks))->0) }
}

pub open spec fn bgd_ok(m: &naga::Module, gmap: Map<u32, GroupData>) -> bool {
    let n = gv(m).len() as int;
    no_dup_upto(m, n) && dense(m, gmap.len() as int) && groups_ok(m, gmap, n)
}
pub open spec fn gen_ok(m: &naga::Module, src: Seq<char>, path: Option<Seq<char>>, so: StructOpts, rustfmt: bool, text: Seq<char>,
                        gmap: Map<u32, GroupData>, ks: Seq<u32>, pcr: Option<Seq<Tok>>, pcs: Option<Seq<Tok>>, vm: Seq<Tok>) -> bool {
    &&& bgd_ok(m, gmap) && is_keys(ks, gmap.dom())
    &&& vertex_methods_post(m, vm)
    &&& pc_ok(m, spec_global_stages(m), spec_entry_bits(m), pcr, pcs)
    &&& printed(output_toks(m, src, path, so, gmap, ks, pcr, pcs, vm), rustfmt, text)
}
// everything after parsing/validation: depends on the options ONLY through struct_opts and the rustfmt switch
pub open spec fn gen_rest_post(m: &naga::Module, src: Seq<char>, path: Option<Seq<char>>, so: StructOpts, rustfmt: bool, r: Result<String, CreateModuleError>) -> bool {
    match r {
        Err(CreateModuleError::DuplicateBinding { binding }) => bgd_post(m, Err(CreateModuleError::DuplicateBinding { binding })),
        Err(CreateModuleError::NonConsecutiveBindGroups) => bgd_post(m, Err(CreateModuleError::NonConsecutiveBindGroups)),
        Err(_) => false,
        Ok(text) => exists|gmap: Map<u32, GroupData>, ks: Seq<u32>, pcr: Option<Seq<Tok>>, pcs: Option<Seq<Tok>>, vm: Seq<Tok>|
            #[trigger] gen_ok(m, src, path, so, rustfmt, text@, gmap, ks, pcr, pcs, vm),
    }
}
// the documented feature set (abstract where the callee's unit does not exist yet) and naga's own invariants
pub open spec fn supported(m: &naga::Module, so: StructOpts) -> bool {
    &&& module_wf(m) && globals_wf(m) && pre_stages(m)
    &&& pre_structs(m, so) && pre_consts(m) && pre_overrides(m) && pre_vertex_methods(m) && pre_entry_consts(m)
    &&& pre_vertex_states(m) && pre_fragment_states(m)
    &&& forall|gmap: Map<u32, GroupData>| #[trigger] bgd_ok(m, gmap) ==> groups_supported(gmap)
}
#[verifier::opaque]
pub open spec fn gen_post(src: Seq<char>, path: Option<Seq<char>>, options: WriteOptions, r: Result<String, CreateModuleError>) -> bool {
    match spec_parse(src) {
        Err(e) => r == Err::<String, CreateModuleError>(CreateModuleError::ParseError { error: e }),
        Ok(m) => {
            if options.validate is Some && spec_validate(options.validate->0.capabilities, m) is Some {
                r == Err::<String, CreateModuleError>(CreateModuleError::ValidationError { error: spec_validate(options.validate->0.capabilities, m)->0 })
            } else {
                gen_rest_post(&m, src, path, struct_opts(options), options.rustfmt, r)
            }
        },
    }
}
// preconditions of the success path: the input is inside the documented feature set, and - C01, not claimed - the generated
// token stream is a syntactically valid Rust file (pretty_print unwraps syn::parse_file)
#[verifier::opaque]
pub open spec fn gen_pre(src: Seq<char>, path: Option<Seq<char>>, options: WriteOptions) -> bool {
    spec_parse(src) is Ok ==> {
        let m = spec_parse(src)->Ok_0;
        &&& supported(&m, struct_opts(options))
        &&& !options.rustfmt ==> forall|gmap: Map<u32, GroupData>, ks: Seq<u32>, pcr: Option<Seq<Tok>>, pcs: Option<Seq<Tok>>, vm: Seq<Tok>|
                parse_file_spec(tokens_string(#[trigger] output_toks(&m, src, path, struct_opts(options), gmap, ks, pcr, pcs, vm))) is Some
    }
}

} // verus!
