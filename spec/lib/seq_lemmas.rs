// Generic sequence lemmas (all proved; nothing assumed here).
#![allow(unused_imports)]
use vstd::prelude::*;

verus! {

pub open spec fn strictly_increasing(s: Seq<u32>) -> bool {
    forall|a: int, b: int| 0 <= a < b < s.len() ==> s[a] < s[b]
}
// `ks` is THE ascending enumeration of the key set `dom`
pub open spec fn is_keys(ks: Seq<u32>, dom: Set<u32>) -> bool {
    &&& strictly_increasing(ks)
    &&& forall|x: u32| ks.contains(x) <==> dom.contains(x)
}

proof fn lemma_sorted_prefix(a: Seq<u32>, b: Seq<u32>, i: int)
    requires strictly_increasing(a), strictly_increasing(b), forall|x: u32| a.contains(x) <==> b.contains(x), 0 <= i < a.len(), i < b.len(),
    ensures a[i] == b[i],
    decreases i,
{
    if i > 0 { lemma_sorted_prefix(a, b, i - 1); }
    assert forall|j: int| 0 <= j < i implies a[j] == b[j] by { lemma_sorted_prefix(a, b, j); }
    // a[i] occurs in b at some k; k < i is impossible (b[k] == a[k] < a[i]), so b[i] <= b[k] == a[i]
    assert(a.contains(a[i]));
    let k = choose|k: int| 0 <= k < b.len() && b[k] == a[i];
    if k < i { assert(a[k] < a[i]); }
    assert(b[i] <= a[i]);
    assert(b.contains(b[i]));
    let k2 = choose|k2: int| 0 <= k2 < a.len() && a[k2] == b[i];
    if k2 < i { assert(b[k2] < b[i]); }
    assert(a[i] <= b[i]);
}

// two strictly increasing sequences with the same elements are equal
pub proof fn lemma_sorted_unique(a: Seq<u32>, b: Seq<u32>)
    requires strictly_increasing(a), strictly_increasing(b), forall|x: u32| a.contains(x) <==> b.contains(x),
    ensures a == b,
{
    if a.len() < b.len() {
        let x = b[a.len() as int];
        assert(b.contains(x));
        let k = choose|k: int| 0 <= k < a.len() && a[k] == x;
        lemma_sorted_prefix(a, b, k);
        assert(b[k] < b[a.len() as int]);
    }
    if b.len() < a.len() {
        let x = a[b.len() as int];
        assert(a.contains(x));
        let k = choose|k: int| 0 <= k < b.len() && b[k] == x;
        lemma_sorted_prefix(a, b, k);
        assert(a[k] < a[b.len() as int]);
    }
    assert forall|i: int| 0 <= i < a.len() implies a[i] == b[i] by { lemma_sorted_prefix(a, b, i); }
    assert(a =~= b);
}

pub proof fn lemma_keys_unique(a: Seq<u32>, b: Seq<u32>, dom: Set<u32>)
    requires is_keys(a, dom), is_keys(b, dom),
    ensures a == b,
{
    lemma_sorted_unique(a, b);
}

} // verus!
