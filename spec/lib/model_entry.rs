// Token-level model of entry.rs (C14 entry metadata, C07 vertex layouts, C12 pass-through of override constants).
// Pure specifications written from the property statements; nothing assumed here.
#![allow(unused_imports)]
use vstd::prelude::*;
use proc_macro2::TokenStream;
use crate::prelude::*;
use crate::iter_shims::*;
use crate::tokens::*;
use crate::model_common::*;

verus! {

// ---- model, written from the statement ("as many colour targets as are needed to address every @location it writes") ----
// wgpu matches a fragment output at @location(l) with color target l, so location l is addressable iff l < N.
pub open spec fn written_location(b: &Option<naga::Binding>, l: int) -> bool {
    match b { Some(naga::Binding::Location { location, .. }) => *location as int == l, _ => false }
}
// the locations a fragment entry point writes
pub open spec fn writes(m: &naga::Module, f: &naga::Function, l: int) -> bool {
    match f.result {
        None => false,
        Some(r) => match r.binding {
            Some(_) => written_location(&r.binding, l),
            None => match uarena_seq(&m.types)[handle_index(r.ty)].inner {
                naga::TypeInner::Struct { members, .. } => exists|k: int| 0 <= k < members@.len() && written_location(&#[trigger] members@[k].binding, l),
                _ => false,
            },
        },
    }
}
pub open spec fn needed_targets(m: &naga::Module, f: &naga::Function, n: int) -> bool {
    &&& forall|l: int| #[trigger] writes(m, f, l) ==> l < n          // every written location is addressable
    &&& (n == 0 || writes(m, f, n - 1))                                // and not one target more than that
}
pub open spec fn result_wf(m: &naga::Module, f: &naga::Function) -> bool {
    f.result is Some ==> 0 <= handle_index(f.result->0.ty) < uarena_seq(&m.types).len()
}



// needed_targets determines the number
pub proof fn lemma_needed_unique(m: &naga::Module, f: &naga::Function, a: int, b: int)
    requires needed_targets(m, f, a), needed_targets(m, f, b), a >= 0, b >= 0,
    ensures a == b,
{
    if a < b { assert(writes(m, f, b - 1)); }
    if b < a { assert(writes(m, f, a - 1)); }
}
pub open spec fn target_count(m: &naga::Module, f: &naga::Function) -> int { choose|n: int| n >= 0 && needed_targets(m, f, n) }

// ---------------- C14: entry point name constants ----------------
pub open spec fn entry_const_name(e: &naga::EntryPoint) -> Seq<Tok> { seq![Tok::Id(fmt1("ENTRY_{}", FmtV::S(upper(e.name@))))] }
pub open spec fn entry_const_toks(e: &naga::EntryPoint) -> Seq<Tok> {
    let const_name = entry_const_name(e);
    let entry_name = seq![Tok::LitS(e.name@)];     // the exact WGSL name
    ts!(pub const #const_name: &str = #entry_name;)
}
pub open spec fn entry_consts_toks(es: Seq<naga::EntryPoint>) -> Seq<Tok> {
    flat(Seq::new(es.len(), |i: int| entry_const_toks(&es[i])), Seq::empty(), Seq::empty(), Seq::empty())
}

// ---------------- C14 / C12: fragment entry helpers ----------------
pub open spec fn has_overrides(m: &naga::Module) -> bool { arena_seq(&m.overrides).len() > 0 }
pub open spec fn overrides_param(m: &naga::Module) -> Seq<Tok> { if has_overrides(m) { ts!(overrides: &OverrideConstants) } else { Seq::empty() } }
pub open spec fn constants_expr(m: &naga::Module) -> Seq<Tok> { if has_overrides(m) { ts!(overrides.constants()) } else { ts!(Default::default()) } }
pub open spec fn frag_entry_toks(m: &naga::Module, e: &naga::EntryPoint) -> Option<Seq<Tok>> {
    if e.stage == naga::ShaderStage::Fragment {
        let fn_name = seq![Tok::Id(fmt1("{}_entry", FmtV::S(e.name@)))];
        let const_name = entry_const_name(e);                  // the SAME constant that entry_point_constants exports
        let n = seq![Tok::LitU(target_count(m, &e.function))];
        let overrides = overrides_param(m);
        let constants = constants_expr(m);
        Some(ts!(
            pub fn #fn_name(
                targets: [Option<wgpu::ColorTargetState>; #n],
                #overrides
            ) -> FragmentEntry<#n> {
                FragmentEntry {
                    entry_point: #const_name,
                    targets,
                    constants: #constants
                }
            }
        ))
    } else { None }
}
pub open spec fn fragment_states_toks(m: &naga::Module) -> Seq<Tok> {
    let es = m.entry_points@;
    let items = somes(Seq::new(es.len(), |i: int| frag_entry_toks(m, &es[i])));
    if items.len() == 0 { Seq::empty() } else {
        let entries = flat(items, Seq::empty(), Seq::empty(), Seq::empty());
        ts!(
            #[derive(Debug)]
            pub struct FragmentEntry<const N: usize> {
                pub entry_point: &'static str,
                pub targets: [Option<wgpu::ColorTargetState>; N],
                pub constants: std::collections::HashMap<String, f64>,
            }

            pub fn fragment_state<'a, const N: usize>(
                module: &'a wgpu::ShaderModule,
                entry: &'a FragmentEntry<N>,
            ) -> wgpu::FragmentState<'a> {
                wgpu::FragmentState {
                    module,
                    entry_point: Some(entry.entry_point),
                    targets: &entry.targets,
                    compilation_options: wgpu::PipelineCompilationOptions {
                        constants: &entry.constants,
                        ..Default::default()
                    },
                }
            }

            #entries
        )
    }
}
pub open spec fn entries_wf(m: &naga::Module) -> bool {
    forall|i: int| 0 <= i < m.entry_points@.len() ==> result_wf(m, &(#[trigger] m.entry_points@[i]).function)
}
pub open spec fn opt_ts(o: Option<TokenStream>) -> Option<Seq<Tok>> { match o { Some(t) => Some(ts_view(&t)), None => None } }
pub proof fn lemma_somes_toks(ys: Seq<Option<TokenStream>>, zs: Seq<Option<Seq<Tok>>>)
    requires ys.len() == zs.len(), forall|i: int| 0 <= i < ys.len() ==> #[trigger] zs[i] == opt_ts(ys[i]),
    ensures toks_of(somes(ys)) =~= somes(zs),
    decreases ys.len(),
{
    if ys.len() > 0 {
        lemma_somes_toks(ys.drop_last(), zs.drop_last());
        assert(zs.last() == opt_ts(ys.last()));
    }
}

} // verus!
