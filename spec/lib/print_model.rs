// Printing and the formatter process.
//  * TokenStream -> String, syn::parse_file and prettyplease::unparse are UNINTERPRETED functions of their argument
//    (the contract says only that the result is a function of the argument: needed for C16-C19, never what it is).
//  * `process_model` is an ENVIRONMENT MODEL of std::process / std::io for pretty_print_rustfmt only: every call
//    may fail, the exit status and the bytes printed by the formatter are arbitrary (uninterpreted functions of
//    an arbitrary run id).  Nothing is assumed about the formatter.  The builder methods take `self` by value
//    (std takes &mut self); the extracted call chain is textually the same.
#![allow(unused_imports)]
use vstd::prelude::*;
use proc_macro2::TokenStream;
use crate::tokens::*;

verus! {

pub uninterp spec fn tokens_string(t: Seq<Tok>) -> Seq<char>;
pub trait ShimToString { spec fn str_view(&self) -> Seq<char>; fn shim_to_string(&self) -> (r: String) ensures r@ == self.str_view(); }
impl ShimToString for TokenStream {
    open spec fn str_view(&self) -> Seq<char> { tokens_string(ts_view(self)) }
    #[verifier::external_body] fn shim_to_string(&self) -> (r: String) { self.to_string() }
}
// the decimal representation of an integer (uninterpreted: equal numbers give equal strings, and - stated as an axiom
// because it is what makes @id keys distinct - different numbers give different strings)
pub uninterp spec fn dec_string(n: int) -> Seq<char>;
pub broadcast axiom fn axiom_dec_string_injective(a: int, b: int)
    ensures #[trigger] dec_string(a) == #[trigger] dec_string(b) ==> a == b;
impl ShimToString for u16 {
    open spec fn str_view(&self) -> Seq<char> { dec_string(*self as int) }
    #[verifier::external_body] fn shim_to_string(&self) -> (r: String) { self.to_string() }
}
impl ShimToString for String {
    open spec fn str_view(&self) -> Seq<char> { self@ }
    #[verifier::external_body] fn shim_to_string(&self) -> (r: String) { self.to_string() }
}

#[verifier::external_type_specification] #[verifier::external_body] pub struct ExSynFile(syn::File);
#[verifier::external_type_specification] #[verifier::external_body] pub struct ExSynError(syn::Error);
pub uninterp spec fn parse_file_spec(s: Seq<char>) -> Option<syn::File>;
pub assume_specification[ syn::parse_file ](s: &str) -> (r: Result<syn::File, syn::Error>)
    ensures (r is Ok) == (parse_file_spec(s@) is Some), r is Ok ==> r->Ok_0 == parse_file_spec(s@)->0;
pub uninterp spec fn unparse_spec(f: syn::File) -> Seq<char>;
pub assume_specification[ prettyplease::unparse ](f: &syn::File) -> (r: String)
    ensures r@ == unparse_spec(*f);

pub mod process_model {
    use vstd::prelude::*;
    verus! {
    // what the environment did in run `id` (all uninterpreted: the formatter is adversarial)
    pub uninterp spec fn run_input(id: int) -> Seq<u8>;      // the bytes the formatter actually received in full, if `run_written`
    pub uninterp spec fn run_written(id: int, input: Seq<u8>) -> bool;  // the whole input was accepted by the formatter's stdin
    pub uninterp spec fn run_success(id: int) -> bool;       // exit status is success (not: non-zero code, not: killed by a signal)
    pub uninterp spec fn run_stdout(id: int) -> Seq<u8>;

    pub struct Stdio { pub kind: u8 }
    impl Stdio {
        pub fn piped() -> (r: Stdio) ensures r.kind == 1 { Stdio { kind: 1 } }
        pub fn null() -> (r: Stdio) ensures r.kind == 0 { Stdio { kind: 0 } }
    }
    pub struct IoError { pub code: i32 }
    pub struct Command { pub program: Ghost<Seq<char>>, pub stdin_piped: bool }
    pub struct ChildStdin { pub id: Ghost<int> }
    pub struct Child { pub stdin: Option<ChildStdin>, pub id: Ghost<int> }
    pub struct ExitStatus { pub id: Ghost<int>, pub ok: bool }
    pub struct Output { pub status: ExitStatus, pub stdout: Vec<u8>, pub stderr: Vec<u8> }
    impl Command {
        #[verifier::external_body]
        pub fn new(program: &str) -> (r: Command) ensures r.program@ == program@, !r.stdin_piped { unimplemented!() }
        pub fn arg(self, a: &str) -> (r: Command) ensures r == self { self }
        pub fn stdin(self, s: Stdio) -> (r: Command) ensures r.program == self.program, r.stdin_piped == (s.kind == 1) { Command { program: self.program, stdin_piped: s.kind == 1 } }
        pub fn stdout(self, s: Stdio) -> (r: Command) ensures r == self { self }
        pub fn stderr(self, s: Stdio) -> (r: Command) ensures r == self { self }
        // may fail (formatter absent); on success the child has a stdin handle iff it was piped
        #[verifier::external_body]
        pub fn spawn(self) -> (r: Result<Child, IoError>)
            ensures r is Ok ==> ((r->Ok_0.stdin is Some) == self.stdin_piped) && (r->Ok_0.stdin is Some ==> r->Ok_0.stdin->0.id == r->Ok_0.id)
        { unimplemented!() }
    }
    pub trait Write { fn write_all(&mut self, buf: &[u8]) -> (r: Result<(), IoError>); }
    impl Write for ChildStdin {
        // may fail at any point (the formatter exits or closes stdin before reading everything: EPIPE)
        #[verifier::external_body]
        fn write_all(&mut self, buf: &[u8]) -> (r: Result<(), IoError>)
            ensures final(self).id == old(self).id, r is Ok ==> run_written(old(self).id@, buf@)
        { unimplemented!() }
    }
    impl Child {
        // may fail; status and stdout are whatever the run produced
        #[verifier::external_body]
        pub fn wait_with_output(self) -> (r: Result<Output, IoError>)
            ensures r is Ok ==> r->Ok_0.status.id == self.id && r->Ok_0.status.ok == run_success(self.id@) && r->Ok_0.stdout@ == run_stdout(self.id@)
        { unimplemented!() }
    }
    impl ExitStatus {
        pub fn success(&self) -> (r: bool) ensures r == self.ok { self.ok }
        // Some(0) iff success; None when the process was killed by a signal; any other code otherwise
        #[verifier::external_body]
        pub fn code(&self) -> (r: Option<i32>) ensures self.ok <==> r == Some(0i32) { unimplemented!() }
    }
    }
}

// String::from_utf8 may fail; on success the string is a function of the bytes
pub uninterp spec fn utf8_decode(b: Seq<u8>) -> Option<Seq<char>>;
#[verifier::external_type_specification] #[verifier::external_body] pub struct ExFromUtf8Error(std::string::FromUtf8Error);
pub assume_specification[ String::from_utf8 ](v: Vec<u8>) -> (r: Result<String, std::string::FromUtf8Error>)
    ensures (r is Ok) == (utf8_decode(v@) is Some), r is Ok ==> r->Ok_0@ == utf8_decode(v@)->0;
// str::replace is an uninterpreted function of its inputs: equal inputs give equal outputs, nothing else is known
// (in particular NOT that it is the identity: a contract that needs the original string fails)
pub uninterp spec fn str_replace(s: Seq<char>, from: Seq<char>, to: Seq<char>) -> Seq<char>;
pub uninterp spec fn str_replace_char(s: Seq<char>, from: char, to: Seq<char>) -> Seq<char>;
pub trait ShimReplace<P> { fn shim_replace(&self, from: P, to: &str) -> (r: String); }
impl<'a> ShimReplace<&'a str> for str {
    #[verifier::external_body]
    fn shim_replace(&self, from: &'a str, to: &str) -> (r: String) ensures r@ == str_replace(self@, from@, to@) { self.replace(from, to) }
}
impl ShimReplace<char> for str {
    #[verifier::external_body]
    fn shim_replace(&self, from: char, to: &str) -> (r: String) ensures r@ == str_replace_char(self@, from, to@) { self.replace(from, to) }
}
// str::{strip_prefix, strip_suffix, trim_start_matches, trim_end_matches, starts_with, ends_with} are generic over Pattern too:
// stand-ins whose results are uninterpreted functions of the inputs (never the identity)
pub uninterp spec fn str_strip(s: Seq<char>, pat: Seq<char>, side: int) -> Option<Seq<char>>;
pub uninterp spec fn str_trim_matches(s: Seq<char>, pat: Seq<char>, side: int) -> Seq<char>;
pub uninterp spec fn str_has(s: Seq<char>, pat: Seq<char>, side: int) -> bool;
pub trait ShimPat { spec fn pat_view(&self) -> Seq<char>; }
impl<'a> ShimPat for &'a str { open spec fn pat_view(&self) -> Seq<char> { (*self)@ } }
impl ShimPat for char { open spec fn pat_view(&self) -> Seq<char> { seq![*self] } }
pub trait ShimStrOps {
    fn shim_strip_prefix<'b, P: ShimPat>(&'b self, p: P) -> Option<&'b str>;
    fn shim_strip_suffix<'b, P: ShimPat>(&'b self, p: P) -> Option<&'b str>;
    fn shim_trim_start_matches<'b, P: ShimPat>(&'b self, p: P) -> &'b str;
    fn shim_trim_end_matches<'b, P: ShimPat>(&'b self, p: P) -> &'b str;
    fn shim_starts_with<P: ShimPat>(&self, p: P) -> bool;
    fn shim_ends_with<P: ShimPat>(&self, p: P) -> bool;
}
impl ShimStrOps for str {
    #[verifier::external_body]
    fn shim_strip_prefix<'b, P: ShimPat>(&'b self, p: P) -> (r: Option<&'b str>)
        ensures (r is Some) == (str_strip(self@, p.pat_view(), 0) is Some), r is Some ==> r->0@ == str_strip(self@, p.pat_view(), 0)->0 { unimplemented!() }
    #[verifier::external_body]
    fn shim_strip_suffix<'b, P: ShimPat>(&'b self, p: P) -> (r: Option<&'b str>)
        ensures (r is Some) == (str_strip(self@, p.pat_view(), 1) is Some), r is Some ==> r->0@ == str_strip(self@, p.pat_view(), 1)->0 { unimplemented!() }
    #[verifier::external_body]
    fn shim_trim_start_matches<'b, P: ShimPat>(&'b self, p: P) -> (r: &'b str) ensures r@ == str_trim_matches(self@, p.pat_view(), 0) { unimplemented!() }
    #[verifier::external_body]
    fn shim_trim_end_matches<'b, P: ShimPat>(&'b self, p: P) -> (r: &'b str) ensures r@ == str_trim_matches(self@, p.pat_view(), 1) { unimplemented!() }
    #[verifier::external_body]
    fn shim_starts_with<P: ShimPat>(&self, p: P) -> (r: bool) ensures r == str_has(self@, p.pat_view(), 0) { unimplemented!() }
    #[verifier::external_body]
    fn shim_ends_with<P: ShimPat>(&self, p: P) -> (r: bool) ensures r == str_has(self@, p.pat_view(), 1) { unimplemented!() }
}
pub uninterp spec fn utf8_encode(s: Seq<char>) -> Seq<u8>;
pub assume_specification[ String::as_bytes ](s: &String) -> (r: &[u8])
    ensures r@ == utf8_encode(s@);

} // verus!
