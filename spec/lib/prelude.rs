// Shared prelude: specifications of the REAL foreign types (naga, indexmap, std) that the extracted
// functions of /repo are verified against, and the ASSUMED contracts of the foreign functions they call.
// Everything in this file is part of the trusted base and is listed as such in every evidence file
// (vtool/scan.py enumerates the `assume_specification`, `axiom`, `external_body`, `uninterp` items).
#![allow(unused_imports, non_camel_case_types)]
use vstd::prelude::*;
use vstd::std_specs::iter::IteratorSpec;
use std::collections::BTreeMap;
use std::collections::btree_map::Entry;
extern crate case;

verus! {

// the code generator runs on a 64-bit host: u32 -> usize casts are lossless (listed in every evidence file)
global size_of usize == 8;

macro_rules! opaque { ($($n:ident = $t:ty;)*) => { $( #[verifier::external_type_specification] #[verifier::external_body] pub struct $n($t); )* } }
macro_rules! transp { ($($n:ident = $t:ty;)*) => { $( #[verifier::external_type_specification] pub struct $n($t); )* } }
macro_rules! opaque1 { ($($n:ident = $t:ident;)*) => { $( #[verifier::external_type_specification] #[verifier::external_body] #[verifier::accept_recursive_types(T)] pub struct $n<T>(naga::$t<T>); )* } }

opaque1!{ ExHandle = Handle; ExRange = Range; ExArena = Arena; ExUniqueArena = UniqueArena; }

#[verifier::external_type_specification]
#[verifier::external_body]
#[verifier::accept_recursive_types(K)]
#[verifier::accept_recursive_types(V)]
#[verifier::accept_recursive_types(S)]
pub struct ExIndexMap<K, V, S>(indexmap::IndexMap<K, V, S>);

#[verifier::external_type_specification]
#[verifier::external_body]
#[verifier::accept_recursive_types(H)]
pub struct ExBuildHasherDefault<H>(core::hash::BuildHasherDefault<H>);

#[verifier::external_type_specification]
#[verifier::external_body]
#[verifier::reject_recursive_types(K)]
#[verifier::reject_recursive_types(V)]
#[verifier::reject_recursive_types(A)]
pub struct ExEntry<'a, K: 'a, V: 'a, A: core::alloc::Allocator + Clone>(Entry<'a, K, V, A>);

// The real naga IR types.  `transp!` = fields and variants visible (the real definitions: a variant
// that naga has and the code forgets cannot be hidden by an incomplete model); `opaque!` = never inspected.
opaque!{
  ExFxHasher = rustc_hash::FxHasher;
  ExStorageAccess = naga::StorageAccess;
  Exnaga_BinaryOperator = naga::BinaryOperator;
  Exnaga_DerivativeAxis = naga::DerivativeAxis;
  Exnaga_DerivativeControl = naga::DerivativeControl;
  Exnaga_ImageQuery = naga::ImageQuery;
  Exnaga_MathFunction = naga::MathFunction;
  Exnaga_RelationalFunction = naga::RelationalFunction;
  Exnaga_SampleLevel = naga::SampleLevel;
  Exnaga_SwizzleComponent = naga::SwizzleComponent;
  Exnaga_UnaryOperator = naga::UnaryOperator;
  ExBlock = naga::Block;
  ExBarrier = naga::Barrier;
  ExAtomicFunction = naga::AtomicFunction;
  ExRayQueryFunction = naga::RayQueryFunction;
  ExGatherMode = naga::GatherMode;
  ExSubgroupOperation = naga::SubgroupOperation;
  ExCollectiveOperation = naga::CollectiveOperation;
  ExSwitchValue = naga::SwitchValue;
  ExSpecialTypes = naga::SpecialTypes;
  ExDiagnosticFilterNode = naga::diagnostic_filter::DiagnosticFilterNode;
  ExLocalVariable = naga::LocalVariable;
  ExEarlyDepthTest = naga::EarlyDepthTest;
  ExInterpolation = naga::Interpolation;
  ExSampling = naga::Sampling;
  ExStorageFormat = naga::StorageFormat;
  ExPendingArraySize = naga::PendingArraySize;
  ExParseError = naga::front::wgsl::ParseError;
  ExValidationError = naga::valid::ValidationError;
}
#[verifier::external_type_specification]
#[verifier::external_body]
#[verifier::accept_recursive_types(E)]
pub struct ExWithSpan<E>(naga::WithSpan<E>);
transp!{
  ExType = naga::Type;
  ExTypeInner = naga::TypeInner;
  ExScalar = naga::Scalar;
  ExScalarKind = naga::ScalarKind;
  ExVectorSize = naga::VectorSize;
  ExArraySize = naga::ArraySize;
  ExImageDimension = naga::ImageDimension;
  ExImageClass = naga::ImageClass;
  ExBinding = naga::Binding;
  ExBuiltIn = naga::BuiltIn;
  ExStructMember = naga::StructMember;
  ExFunctionArgument = naga::FunctionArgument;
  ExFunctionResult = naga::FunctionResult;
  ExResourceBinding = naga::ResourceBinding;
  ExAddressSpace = naga::AddressSpace;
  ExStatement = naga::Statement;
  ExSwitchCase = naga::SwitchCase;
  ExModule = naga::Module;
  ExFunction = naga::Function;
  ExEntryPoint = naga::EntryPoint;
  ExGlobalVariable = naga::GlobalVariable;
  ExShaderStage = naga::ShaderStage;
  ExExpression = naga::Expression;
  ExLiteral = naga::Literal;
  ExConstant = naga::Constant;
  ExOverride = naga::Override;
}

// ---------------- arenas and handles (opaque; uninterpreted views) ----------------
pub uninterp spec fn arena_seq<T>(a: &naga::Arena<T>) -> Seq<T>;
pub uninterp spec fn uarena_seq<T>(a: &naga::UniqueArena<T>) -> Seq<T>;
pub uninterp spec fn handle_index<T>(h: naga::Handle<T>) -> int;
pub uninterp spec fn mk_handle<T>(i: int) -> naga::Handle<T>;

// a handle is determined by its index (naga: Handle = NonZeroU32 index + PhantomData)
pub broadcast axiom fn axiom_mk_handle<T>(h: naga::Handle<T>)
    ensures #[trigger] mk_handle::<T>(handle_index(h)) == h;
pub axiom fn axiom_mk_handle_idx<T>(i: int)
    ensures handle_index(mk_handle::<T>(i)) == i;
pub broadcast axiom fn axiom_handle_key_model<T>()
    ensures #[trigger] vstd::std_specs::hash::obeys_key_model::<naga::Handle<T>>();

pub assume_specification<'a, T>[ naga::Arena::<T>::iter ](a: &'a naga::Arena<T>) -> (r: impl DoubleEndedIterator<Item = (naga::Handle<T>, &'a T)>)
    ensures r.obeys_prophetic_iter_laws(), r.decrease() is Some,
            r.remaining().len() == arena_seq(a).len(),
            forall|i: int| 0 <= i < arena_seq(a).len() ==> handle_index((#[trigger] r.remaining()[i]).0) == i && *r.remaining()[i].1 == arena_seq(a)[i];

pub assume_specification<T>[ naga::Arena::<T>::is_empty ](a: &naga::Arena<T>) -> (r: bool)
    ensures r == (arena_seq(a).len() == 0);

pub assume_specification<T>[ <naga::Arena<T> as core::ops::Index<naga::Handle<T>>>::index ](a: &naga::Arena<T>, h: naga::Handle<T>) -> (r: &T)
    ensures *r == arena_seq(a)[handle_index(h)];

pub broadcast axiom fn axiom_arena_index_req<T>(a: naga::Arena<T>, h: naga::Handle<T>)
    ensures #[trigger] vstd::std_specs::core::IndexSpec::index_req(&a, &h) == (0 <= handle_index(h) < arena_seq(&a).len());

pub assume_specification<T>[ <naga::UniqueArena<T> as core::ops::Index<naga::Handle<T>>>::index ](a: &naga::UniqueArena<T>, h: naga::Handle<T>) -> (r: &T)
    ensures *r == uarena_seq(a)[handle_index(h)];

pub broadcast axiom fn axiom_uarena_index_req<T>(a: naga::UniqueArena<T>, h: naga::Handle<T>)
    ensures #[trigger] vstd::std_specs::core::IndexSpec::index_req(&a, &h) == (0 <= handle_index(h) < uarena_seq(&a).len());

// naga's UniqueArena stores each distinct value exactly once
pub axiom fn axiom_uarena_unique<T>(a: &naga::UniqueArena<T>, i: int, j: int)
    requires 0 <= i < uarena_seq(a).len(), 0 <= j < uarena_seq(a).len(), uarena_seq(a)[i] == uarena_seq(a)[j],
    ensures i == j;

pub assume_specification<'a, T: Eq + core::hash::Hash>[ naga::UniqueArena::<T>::iter ](a: &'a naga::UniqueArena<T>) -> (r: impl DoubleEndedIterator<Item = (naga::Handle<T>, &'a T)>)
    ensures r.obeys_prophetic_iter_laws(), r.decrease() is Some,
            r.remaining().len() == uarena_seq(a).len(),
            forall|i: int| 0 <= i < uarena_seq(a).len() ==> handle_index((#[trigger] r.remaining()[i]).0) == i && *r.remaining()[i].1 == uarena_seq(a)[i];

// ---------------- naga::StorageAccess (foreign bitflags: opaque, bits as an uninterpreted view) ----------------
// naga 24: LOAD = 1, STORE = 2, ATOMIC = 4.  Associated constants of a foreign type cannot be specified,
// so the extracted code calls sa_load()/sa_store()/sa_atomic() where /repo writes naga::StorageAccess::LOAD/..
// (a unit-wide mechanical rewrite, logged in the evidence); the bodies return the real constants.
pub uninterp spec fn sa_bits(a: naga::StorageAccess) -> u32;
pub assume_specification[ naga::StorageAccess::contains ](a: &naga::StorageAccess, b: naga::StorageAccess) -> (r: bool)
    ensures r == (sa_bits(*a) & sa_bits(b) == sa_bits(b));
#[verifier::external_body]
pub const fn sa_load() -> (r: naga::StorageAccess) ensures sa_bits(r) == 1 { naga::StorageAccess::LOAD }
#[verifier::external_body]
pub const fn sa_store() -> (r: naga::StorageAccess) ensures sa_bits(r) == 2 { naga::StorageAccess::STORE }
#[verifier::external_body]
pub const fn sa_atomic() -> (r: naga::StorageAccess) ensures sa_bits(r) == 4 { naga::StorageAccess::ATOMIC }

// ---------------- blocks (opaque; the statement tree is finite) ----------------
pub uninterp spec fn block_stmts(b: &naga::Block) -> Seq<naga::Statement>;
pub uninterp spec fn block_height(b: &naga::Block) -> nat;
pub assume_specification[ <naga::Block as core::ops::Deref>::deref ](b: &naga::Block) -> (r: &[naga::Statement])
    ensures r@ == block_stmts(b);

// `for s in block` (IntoIterator for &Block is `self.iter()` in naga 24): the same slice iterator as `block.iter()`
pub assume_specification<'a>[ <&'a naga::Block as IntoIterator>::into_iter ](b: &'a naga::Block) -> (r: core::slice::Iter<'a, naga::Statement>)
    ensures r.remaining() == block_stmts(b).as_ref(), vstd::std_specs::slice::into_iter_elts(r) == r.remaining().unref(),
        r.decrease() is Some, r.obeys_prophetic_iter_laws();   // the clauses vstd states for `<[T]>::iter`

// ALL block-carrying constructs of the real naga::Statement, in one place.
pub open spec fn sub_blocks(s: &naga::Statement) -> Seq<naga::Block> {
    match s {
        naga::Statement::Block(b) => seq![*b],
        naga::Statement::If { accept, reject, .. } => seq![*accept, *reject],
        naga::Statement::Switch { cases, .. } => cases@.map_values(|c: naga::SwitchCase| c.body),
        naga::Statement::Loop { body, continuing, .. } => seq![*body, *continuing],
        _ => Seq::empty(),
    }
}
pub broadcast axiom fn axiom_block_height(b: &naga::Block, i: int, k: int)
    requires 0 <= i < block_stmts(b).len(), 0 <= k < sub_blocks(&block_stmts(b)[i]).len(),
    ensures #[trigger] block_height(&sub_blocks(&block_stmts(b)[i])[k]) < block_height(b);

// naga::Statement::is_terminator (naga/src/back/mod.rs, transcribed): Break | Continue | Return | Kill.  Specified so that a
// walker that stops at a terminator fails its "every statement of the block was visited" invariant instead of being unsupported.
//@conform
pub open spec fn stmt_is_terminator(s: naga::Statement) -> bool {
    match s {
        naga::Statement::Break => true,
        naga::Statement::Continue => true,
        naga::Statement::Return { .. } => true,
        naga::Statement::Kill => true,
        _ => false,
    }
}
pub assume_specification[ naga::Statement::is_terminator ](s: &naga::Statement) -> (r: bool)
    ensures r == stmt_is_terminator(*s);

// String's Ord is a lawful total order (needed by vstd's BTreeMap<String, _> specs)
pub broadcast axiom fn axiom_string_obeys_cmp()
    ensures #[trigger] vstd::laws_cmp::obeys_cmp::<String>();

// ---------------- strings: case conversion as an uninterpreted function of the input ----------------
pub uninterp spec fn upper(s: Seq<char>) -> Seq<char>;
pub assume_specification[ str::to_uppercase ](s: &str) -> (r: String)
    ensures r@ == upper(s@);
// other case conversions and trimming: uninterpreted functions of the text, DIFFERENT from `upper` (a helper that upper-cases
// with to_ascii_uppercase does not name the constant that to_uppercase defined) and NOT the identity (a contract that needs the
// original text fails when the text was trimmed first)
pub uninterp spec fn lower(s: Seq<char>) -> Seq<char>;
pub uninterp spec fn ascii_upper(s: Seq<char>) -> Seq<char>;
pub uninterp spec fn ascii_lower(s: Seq<char>) -> Seq<char>;
pub uninterp spec fn trimmed(s: Seq<char>, side: int) -> Seq<char>;
pub assume_specification[ str::to_lowercase ](s: &str) -> (r: String) ensures r@ == lower(s@);
pub assume_specification[ str::to_ascii_uppercase ](s: &str) -> (r: String) ensures r@ == ascii_upper(s@);
pub assume_specification[ str::to_ascii_lowercase ](s: &str) -> (r: String) ensures r@ == ascii_lower(s@);
pub assume_specification[ str::trim ](s: &str) -> (r: &str) ensures r@ == trimmed(s@, 0);
pub assume_specification[ str::trim_start ](s: &str) -> (r: &str) ensures r@ == trimmed(s@, 1);
pub assume_specification[ str::trim_end ](s: &str) -> (r: &str) ensures r@ == trimmed(s@, 2);
// case::CaseExt::to_snake (the `case` crate): likewise an uninterpreted function of the text
pub uninterp spec fn snake(s: Seq<char>) -> Seq<char>;
pub assume_specification[ <str as case::CaseExt>::to_snake ](s: &str) -> (r: String)
    ensures r@ == snake(s@);

// ---------------- naga layout helpers (naga's numbers are taken as the WGSL ones: DESIGN 4.7) ----------------
#[verifier::external_type_specification] #[verifier::external_body] pub struct ExGlobalCtx<'a>(naga::proc::GlobalCtx<'a>);
pub uninterp spec fn type_size(m: &naga::Module, t: naga::TypeInner) -> u32;
pub uninterp spec fn ctx_module<'a>(c: naga::proc::GlobalCtx<'a>) -> &'a naga::Module;
pub assume_specification<'a>[ naga::Module::to_ctx ](m: &'a naga::Module) -> (r: naga::proc::GlobalCtx<'a>)
    ensures ctx_module(r) == m;
pub assume_specification[ naga::TypeInner::size ](t: &naga::TypeInner, c: naga::proc::GlobalCtx<'_>) -> (r: u32)
    ensures r == type_size(ctx_module(c), *t);

// ---------------- handle equality ----------------
pub assume_specification<T>[ <naga::Handle<T> as PartialEq>::eq ](a: &naga::Handle<T>, b: &naga::Handle<T>) -> (r: bool)
    ensures r == (*a == *b);
// `Option<Handle<T>> == Option<Handle<T>>`: vstd declares Option's eq without a postcondition; the extracted code calls
// `.shim_opt_eq(..)` where /repo writes `== Some(*h)` (unit-wide mechanical rewrite)
pub trait ShimOptEq: Sized { fn shim_opt_eq(self, other: Self) -> (r: bool) ensures r == (self == other); }
impl<T> ShimOptEq for Option<naga::Handle<T>> {
    #[verifier::external_body]
    fn shim_opt_eq(self, other: Self) -> (r: bool) { self == other }
}

// ---------------- derived PartialEq of naga enums is structural equality ----------------
pub assume_specification[ <naga::ShaderStage as PartialEq>::eq ](a: &naga::ShaderStage, b: &naga::ShaderStage) -> (r: bool)
    ensures r == (*a == *b);
pub assume_specification[ <naga::ScalarKind as PartialEq>::eq ](a: &naga::ScalarKind, b: &naga::ScalarKind) -> (r: bool)
    ensures r == (*a == *b);
pub assume_specification[ <naga::AddressSpace as PartialEq>::eq ](a: &naga::AddressSpace, b: &naga::AddressSpace) -> (r: bool)
    ensures r == (*a == *b);

// derived Clone of a naga IR struct is a structural copy
pub assume_specification[ <naga::StructMember as Clone>::clone ](m: &naga::StructMember) -> (r: naga::StructMember)
    ensures r == *m;

// ---------------- naga::Literal::zero (transcribed from naga 24 proc/mod.rs Literal::new(0, scalar)) ----------------
//@conform
pub open spec fn lit_zero(s: naga::Scalar) -> Option<naga::Literal> {
    match (s.kind, s.width) {
        (naga::ScalarKind::Float, 8) => Some(naga::Literal::F64(0.0f64)),
        (naga::ScalarKind::Float, 4) => Some(naga::Literal::F32(0.0f32)),
        (naga::ScalarKind::Uint, 4) => Some(naga::Literal::U32(0u32)),
        (naga::ScalarKind::Sint, 4) => Some(naga::Literal::I32(0i32)),
        (naga::ScalarKind::Uint, 8) => Some(naga::Literal::U64(0u64)),
        (naga::ScalarKind::Sint, 8) => Some(naga::Literal::I64(0i64)),
        (naga::ScalarKind::Bool, 1) => Some(naga::Literal::Bool(false)),
        _ => None,
    }
}
pub assume_specification[ naga::Literal::zero ](s: naga::Scalar) -> (r: Option<naga::Literal>)
    ensures r == lit_zero(s);

// ---------------- NonZeroU32 (array lengths) ----------------
// vstd declares NonZero::get without a postcondition, so the value cannot be named; the extracted code calls
// `.shim_nz_get()` where /repo calls `.get()` on a NonZeroU32 (unit-wide mechanical rewrite)
pub uninterp spec fn nonzero_get(n: core::num::NonZeroU32) -> u32;
pub trait ShimNzGet { fn shim_nz_get(&self) -> (r: u32); }
impl ShimNzGet for core::num::NonZeroU32 {
    #[verifier::external_body]
    fn shim_nz_get(&self) -> (r: u32) ensures r == nonzero_get(*self) { self.get() }
}

// ---------------- naga's Layouter (its numbers ARE the WGSL layout: DESIGN 4.7) ----------------
#[verifier::external_type_specification] #[verifier::external_body] pub struct ExLayouter(naga::proc::Layouter);
#[verifier::external_type_specification] #[verifier::external_body] pub struct ExAlignment(naga::proc::Alignment);
#[verifier::external_type_specification] pub struct ExTypeLayout(naga::proc::TypeLayout);
#[verifier::external_type_specification] #[verifier::external_body] pub struct ExLayoutError(naga::proc::LayoutError);
// the WGSL byte size of type i of the module (naga's layout algorithm, uninterpreted)
pub uninterp spec fn wgsl_size(m: &naga::Module, i: int) -> u32;
pub uninterp spec fn layouter_module(l: &naga::proc::Layouter) -> Option<&naga::Module>;
pub uninterp spec fn layout_ok(m: &naga::Module) -> bool;   // naga can lay out every type of the module
pub assume_specification[ <naga::proc::Layouter as Default>::default ]() -> (r: naga::proc::Layouter)
    ensures layouter_module(&r) is None;
pub assume_specification[ naga::proc::Layouter::update ](l: &mut naga::proc::Layouter, c: naga::proc::GlobalCtx<'_>) -> (r: Result<(), naga::proc::LayoutError>)
    ensures (r is Ok) == layout_ok(ctx_module(c)), r is Ok ==> layouter_module(final(l)) == Some(ctx_module(c));
pub assume_specification[ <naga::proc::Layouter as core::ops::Index<naga::Handle<naga::Type>>>::index ](l: &naga::proc::Layouter, h: naga::Handle<naga::Type>) -> (r: &naga::proc::TypeLayout)
    ensures layouter_module(l) is Some ==> r.size == wgsl_size(layouter_module(l)->0, handle_index(h));
pub broadcast axiom fn axiom_layouter_index_req(l: naga::proc::Layouter, h: naga::Handle<naga::Type>)
    ensures #[trigger] vstd::std_specs::core::IndexSpec::index_req(&l, &h) == (layouter_module(&l) is Some && 0 <= handle_index(h) < uarena_seq(&layouter_module(&l)->0.types).len());

// TypeLayout::to_stride (naga 24 proc/layouter.rs): the size rounded up to the alignment - an uninterpreted function of the
// layout, NOT the size (a struct of size 12 and alignment 16 has stride 16)
// Alignment::round_up (naga 24 proc/layouter.rs): an uninterpreted function of (alignment, n) - NOT the identity (12 rounds up to 16 at alignment 16)
pub uninterp spec fn align_round_up(a: naga::proc::Alignment, n: u32) -> u32;
pub assume_specification[ naga::proc::Alignment::round_up ](a: &naga::proc::Alignment, n: u32) -> (r: u32)
    ensures r == align_round_up(*a, n);
pub uninterp spec fn layout_stride(l: naga::proc::TypeLayout) -> u32;
pub assume_specification[ naga::proc::TypeLayout::to_stride ](l: &naga::proc::TypeLayout) -> (r: u32)
    ensures r == layout_stride(*l);

// TypeInner::scalar (transcribed from naga 24 proc/mod.rs): the component scalar of scalars, vectors AND matrices
//@conform
pub open spec fn inner_scalar(t: naga::TypeInner) -> Option<naga::Scalar> {
    match t {
        naga::TypeInner::Scalar(scalar) => Some(scalar),
        naga::TypeInner::Vector { scalar, .. } => Some(scalar),
        naga::TypeInner::Matrix { scalar, .. } => Some(scalar),
        _ => None,
    }
}
pub assume_specification[ naga::TypeInner::scalar ](t: &naga::TypeInner) -> (r: Option<naga::Scalar>)
    ensures r == inner_scalar(*t);

// the elements still held by a vec::IntoIter (a non-prophetic view; the eager iterator stand-ins state elems == remaining)
pub uninterp spec fn elems<T>(it: &std::vec::IntoIter<T>) -> Seq<T>;

// ---------------- arrays ----------------
pub assume_specification<T, const N: usize, F: FnMut(T) -> U, U>[ <[T; N]>::map ](a: [T; N], f: F) -> (r: [U; N])
    requires forall|i: int| 0 <= i < N ==> f.requires((#[trigger] a@[i],)),
    ensures forall|i: int| 0 <= i < N ==> f.ensures((a@[i],), #[trigger] r@[i]);
// `let [x, y, z] = a;` (slice patterns are not supported by Verus): the extracted code destructures through this helper
#[verifier::external_body]
pub fn take3<T>(a: [T; 3]) -> (r: (T, T, T)) ensures r.0 == a@[0], r.1 == a@[1], r.2 == a@[2] { let [x, y, z] = a; (x, y, z) }

// ---------------- Option helpers missing from vstd ----------------
pub assume_specification<'a, T: Copy>[ Option::<&'a T>::copied ](o: Option<&'a T>) -> (r: Option<T>)
    ensures r == (match o { Some(x) => Some(*x), None => None });

pub assume_specification<T, U>[ Option::<(T, U)>::unzip ](o: Option<(T, U)>) -> (r: (Option<T>, Option<U>))
    ensures r == (match o { Some(p) => (Some(p.0), Some(p.1)), None => (None, None) });

// ---------------- BTreeMap::entry().or_insert() (pattern of vstd's HashMap entry specs) ----------------
pub uninterp spec fn ekey<'a, K, V, A: core::alloc::Allocator + Clone>(e: Entry<'a, K, V, A>) -> K;
pub uninterp spec fn evalue<'a, K, V, A: core::alloc::Allocator + Clone>(e: Entry<'a, K, V, A>) -> Option<V>;
pub uninterp spec fn efinal<'a, K, V, A: core::alloc::Allocator + Clone>(e: Entry<'a, K, V, A>) -> Option<V>;

pub assume_specification<'a, K: Ord, V, A: core::alloc::Allocator + Clone>[ BTreeMap::<K, V, A>::entry ](m: &'a mut BTreeMap<K, V, A>, key: K) -> (e: Entry<'a, K, V, A>)
    ensures
        ekey(e) == key,
        evalue(e) == old(m)@.get(key),
        final(m)@ == (match efinal(e) { Some(v) => old(m)@.insert(key, v), None => old(m)@.remove(key) });

pub assume_specification<'a, K: Ord, V, A: core::alloc::Allocator + Clone>[ Entry::<'a, K, V, A>::or_insert ](e: Entry<'a, K, V, A>, default: V) -> (r: &'a mut V)
    ensures
        *r == (match evalue(e) { Some(v) => v, None => default }),
        efinal(e) == Some(*final(r));

} // verus!
