// Token view of proc_macro2::TokenStream and the stand-ins for `quote!`, `format!`, `panic!`, `todo!`.
//
// The REAL, opaque proc_macro2::{TokenStream, Ident, Literal, Span} types are used; what is assumed is
//   * a flat ghost view  ts_view(&TokenStream) : Seq<Tok>  (delimiters are ordinary tokens "(" ")" ...),
//   * `quote!(T..)` appends the tokens of T in order; `#x` appends x's tokens (Interp, one impl per type);
//     `#(pre #x post) sep *` appends  pre x_i post  joined by sep  (every repetition in /repo has one variable),
//   * `format!` returns an uninterpreted function of the template literal and the argument views
//     (equal inputs -> equal strings, nothing else); inline captures are hoisted to positional arguments
//     by a whitelisted replacement because a macro_rules cannot look inside a string literal,
//   * `panic!`/`todo!`/`unreachable!` have precondition `false` (so Verus proves they are unreachable).
// `ts!(..)` is the same muncher on the specification side, producing a Seq<Tok> by the same chain of
// push/add so that equality with the executable side holds by congruence.
#![allow(unused_imports, unused_macros)]
use vstd::prelude::*;
use proc_macro2::{TokenStream, Literal, Span, Ident};

verus! {

pub enum Tok {
    T(&'static str),        // a template token (stringify!) or delimiter
    Id(Seq<char>),          // Ident::new(s)
    LitU(int),              // Literal::usize_unsuffixed(n)
    LitS(Seq<char>),        // a string literal with this VALUE (Literal::string / quote's ToTokens for str, String)
    LitU32(u32), LitI32(i32), LitU64(u64), LitI64(i64), LitU16(u16), // suffixed integer literals (quote's ToTokens)
    LitF32(f32), LitF64(f64), // suffixed float literals carrying exactly this value
    LitBool(bool),          // the identifiers `true` / `false`
}

#[verifier::external_type_specification] #[verifier::external_body] pub struct ExTokenStream(TokenStream);
#[verifier::external_type_specification] #[verifier::external_body] pub struct ExLiteral(Literal);
#[verifier::external_type_specification] #[verifier::external_body] pub struct ExSpan(Span);
#[verifier::external_type_specification] #[verifier::external_body] pub struct ExIdent(Ident);
#[verifier::external_type_specification] pub struct ExVertexFormat(wgpu_types::VertexFormat);

pub uninterp spec fn ts_view(t: &TokenStream) -> Seq<Tok>;
pub uninterp spec fn lit_view(t: &Literal) -> Tok;
pub uninterp spec fn id_view(t: &Ident) -> Seq<char>;

pub assume_specification[ Span::call_site ]() -> Span;
pub assume_specification[ TokenStream::is_empty ](t: &TokenStream) -> (r: bool)
    ensures r == (ts_view(t).len() == 0);
pub assume_specification[ Ident::new ](s: &str, span: Span) -> (r: Ident)
    ensures id_view(&r) == s@;
pub assume_specification[ Literal::usize_unsuffixed ](n: usize) -> (r: Literal)
    ensures lit_view(&r) == Tok::LitU(n as int);
// the other unsuffixed integer constructors print the same token for the same VALUE (a narrowing cast before them changes the value)
pub assume_specification[ Literal::u8_unsuffixed ](n: u8) -> (r: Literal) ensures lit_view(&r) == Tok::LitU(n as int);
pub assume_specification[ Literal::u16_unsuffixed ](n: u16) -> (r: Literal) ensures lit_view(&r) == Tok::LitU(n as int);
pub assume_specification[ Literal::u32_unsuffixed ](n: u32) -> (r: Literal) ensures lit_view(&r) == Tok::LitU(n as int);
pub assume_specification[ Literal::u64_unsuffixed ](n: u64) -> (r: Literal) ensures lit_view(&r) == Tok::LitU(n as int);
pub assume_specification[ Literal::string ](s: &str) -> (r: Literal)
    ensures lit_view(&r) == Tok::LitS(s@);

// `text.parse::<TokenStream>().unwrap()`: the tokens are a function of the text; it panics unless the text lexes
pub uninterp spec fn parse_toks(s: Seq<char>) -> Seq<Tok>;
pub uninterp spec fn lexes(s: Seq<char>) -> bool;
pub trait ShimParseTokens {
    spec fn pview(&self) -> Seq<char>;
    fn shim_parse_tokens(&self) -> (r: TokenStream)
        requires lexes(self.pview()),
        ensures ts_view(&r) == parse_toks(self.pview());
}
impl ShimParseTokens for String {
    open spec fn pview(&self) -> Seq<char> { self@ }
    #[verifier::external_body]
    fn shim_parse_tokens(&self) -> (r: TokenStream) { self.parse().unwrap() }
}

// `text.parse::<TokenStream>()` without unwrap: Ok exactly when the text lexes, and then the same function of the text
#[verifier::external_type_specification] #[verifier::external_body] pub struct ExLexError(proc_macro2::LexError);
pub trait ShimTryParseTokens {
    spec fn tview(&self) -> Seq<char>;
    fn shim_try_parse_tokens(&self) -> (r: Result<TokenStream, proc_macro2::LexError>)
        ensures (r is Ok) == lexes(self.tview()), r is Ok ==> ts_view(&r->Ok_0) == parse_toks(self.tview());
}
impl ShimTryParseTokens for str {
    open spec fn tview(&self) -> Seq<char> { self@ }
    #[verifier::external_body]
    fn shim_try_parse_tokens(&self) -> (r: Result<TokenStream, proc_macro2::LexError>) { self.parse::<TokenStream>() }
}
// Clone of a token stream is the same tokens
pub assume_specification[ <TokenStream as Clone>::clone ](t: &TokenStream) -> (r: TokenStream)
    ensures ts_view(&r) == ts_view(t);
// the canonical text of a token sequence as lib::token_text prints it: tokens separated by spaces, groups by their delimiters,
// a comma that is the last token of a stream or group dropped.  Uninterpreted: all that matters is that it is a FUNCTION of the
// tokens (equal texts <- equal token sequences modulo trailing commas is what the helper is for; that meaning is trusted and
// conformance-tested by the witness search, which carries the same algorithm independently)
pub uninterp spec fn canon_text(t: Seq<Tok>) -> Seq<char>;

pub trait Interp {
    spec fn toks(&self) -> Seq<Tok>;
    fn interp(&self, s: &mut TokenStream)
        ensures ts_view(final(s)) == ts_view(old(s)) + self.toks();
}
impl Interp for TokenStream {
    open spec fn toks(&self) -> Seq<Tok> { ts_view(self) }
    #[verifier::external_body]
    fn interp(&self, s: &mut TokenStream) { unimplemented!() }
}
impl Interp for Literal {
    open spec fn toks(&self) -> Seq<Tok> { seq![lit_view(self)] }
    #[verifier::external_body]
    fn interp(&self, s: &mut TokenStream) { unimplemented!() }
}
impl Interp for Ident {
    open spec fn toks(&self) -> Seq<Tok> { seq![Tok::Id(id_view(self))] }
    #[verifier::external_body]
    fn interp(&self, s: &mut TokenStream) { unimplemented!() }
}
impl Interp for String {
    open spec fn toks(&self) -> Seq<Tok> { seq![Tok::LitS(self@)] }
    #[verifier::external_body]
    fn interp(&self, s: &mut TokenStream) { unimplemented!() }
}
impl Interp for str {
    open spec fn toks(&self) -> Seq<Tok> { seq![Tok::LitS(self@)] }
    #[verifier::external_body]
    fn interp(&self, s: &mut TokenStream) { unimplemented!() }
}
impl Interp for bool {
    open spec fn toks(&self) -> Seq<Tok> { seq![Tok::LitBool(*self)] }
    #[verifier::external_body]
    fn interp(&self, s: &mut TokenStream) { unimplemented!() }
}
impl Interp for u32 {
    open spec fn toks(&self) -> Seq<Tok> { seq![Tok::LitU32(*self)] }
    #[verifier::external_body]
    fn interp(&self, s: &mut TokenStream) { unimplemented!() }
}
impl Interp for i32 {
    open spec fn toks(&self) -> Seq<Tok> { seq![Tok::LitI32(*self)] }
    #[verifier::external_body]
    fn interp(&self, s: &mut TokenStream) { unimplemented!() }
}
impl Interp for u64 {
    open spec fn toks(&self) -> Seq<Tok> { seq![Tok::LitU64(*self)] }
    #[verifier::external_body]
    fn interp(&self, s: &mut TokenStream) { unimplemented!() }
}
impl Interp for i64 {
    open spec fn toks(&self) -> Seq<Tok> { seq![Tok::LitI64(*self)] }
    #[verifier::external_body]
    fn interp(&self, s: &mut TokenStream) { unimplemented!() }
}
impl Interp for f32 {
    open spec fn toks(&self) -> Seq<Tok> { seq![Tok::LitF32(*self)] }
    #[verifier::external_body]
    fn interp(&self, s: &mut TokenStream) { unimplemented!() }
}
impl Interp for f64 {
    open spec fn toks(&self) -> Seq<Tok> { seq![Tok::LitF64(*self)] }
    #[verifier::external_body]
    fn interp(&self, s: &mut TokenStream) { unimplemented!() }
}
impl<T: Interp> Interp for Option<T> {
    open spec fn toks(&self) -> Seq<Tok> { match self { Some(x) => x.toks(), None => Seq::empty() } }
    #[verifier::external_body]
    fn interp(&self, s: &mut TokenStream) { unimplemented!() }
}
impl<'a, T: Interp + ?Sized> Interp for &'a T {
    open spec fn toks(&self) -> Seq<Tok> { (**self).toks() }
    #[verifier::external_body]
    fn interp(&self, s: &mut TokenStream) { unimplemented!() }
}

// `pre item post` for each item, joined by `sep`
pub open spec fn flat(items: Seq<Seq<Tok>>, pre: Seq<Tok>, post: Seq<Tok>, sep: Seq<Tok>) -> Seq<Tok>
    decreases items.len()
{
    if items.len() == 0 { Seq::empty() }
    else if items.len() == 1 { pre + items[0] + post }
    else { flat(items.drop_last(), pre, post, sep) + sep + pre + items.last() + post }
}
pub open spec fn toks_of<T: Interp>(v: Seq<T>) -> Seq<Seq<Tok>> { Seq::new(v.len(), |i: int| v[i].toks()) }

pub mod shim {
    use super::*;
    #[verifier::external_body]
    pub fn new() -> (r: TokenStream) ensures ts_view(&r) == Seq::<Tok>::empty() { unimplemented!() }
    #[verifier::external_body]
    pub fn t(s: &mut TokenStream, x: &'static str) ensures ts_view(final(s)) == ts_view(old(s)).push(Tok::T(x)) { unimplemented!() }
    #[verifier::external_body]
    pub fn rep_slice<T: Interp>(s: &mut TokenStream, v: &[T], pre: &TokenStream, post: &TokenStream, sep: &TokenStream)
        ensures ts_view(final(s)) == ts_view(old(s)) + flat(toks_of(v@), ts_view(pre), ts_view(post), ts_view(sep))
    { unimplemented!() }
}

// what a `#(.. #v ..)*` repetition may iterate over: a Vec or a slice (quote iterates `&v`)
pub trait RepSrc { type Item: Interp; fn as_rep_slice(&self) -> (r: &[Self::Item]) ensures r@ == self.rep_view(); spec fn rep_view(&self) -> Seq<Self::Item>; }
impl<T: Interp> RepSrc for Vec<T> { type Item = T; open spec fn rep_view(&self) -> Seq<T> { self@ } #[verifier::external_body] fn as_rep_slice(&self) -> (r: &[T]) { self.as_slice() } }
impl<'a, T: Interp> RepSrc for &'a [T] { type Item = T; open spec fn rep_view(&self) -> Seq<T> { (*self)@ } #[verifier::external_body] fn as_rep_slice(&self) -> (r: &[T]) { *self } }

// quote! also iterates iterators; the eager stand-ins of filter_map & co return a vec::IntoIter whose `remaining()` is the element sequence
impl<T: Interp> RepSrc for std::vec::IntoIter<T> { type Item = T; open spec fn rep_view(&self) -> Seq<T> { crate::prelude::elems(self) } #[verifier::external_body] fn as_rep_slice(&self) -> (r: &[T]) { self.as_slice() } }

// ---- format!/panic! stand-ins ----
pub enum FmtV { U(int), S(Seq<char>), Tk(Tok), SF(naga::StorageFormat), VF(wgpu_types::VertexFormat) }
pub struct FmtHandle { pub v: Ghost<FmtV> }
pub trait FmtArg { spec fn fview(&self) -> FmtV; fn view_of(&self) -> (r: FmtHandle) ensures r.v@ == self.fview(); }
impl FmtArg for u32 { open spec fn fview(&self) -> FmtV { FmtV::U(*self as int) } fn view_of(&self) -> (r: FmtHandle) { FmtHandle { v: Ghost(self.fview()) } } }
impl FmtArg for usize { open spec fn fview(&self) -> FmtV { FmtV::U(*self as int) } fn view_of(&self) -> (r: FmtHandle) { FmtHandle { v: Ghost(self.fview()) } } }
impl FmtArg for String { open spec fn fview(&self) -> FmtV { FmtV::S(self@) } fn view_of(&self) -> (r: FmtHandle) { FmtHandle { v: Ghost(self.fview()) } } }
impl FmtArg for str { open spec fn fview(&self) -> FmtV { FmtV::S(self@) } fn view_of(&self) -> (r: FmtHandle) { FmtHandle { v: Ghost(self.fview()) } } }
impl FmtArg for Literal { open spec fn fview(&self) -> FmtV { FmtV::Tk(lit_view(self)) } fn view_of(&self) -> (r: FmtHandle) { FmtHandle { v: Ghost(self.fview()) } } }
impl FmtArg for wgpu_types::VertexFormat { open spec fn fview(&self) -> FmtV { FmtV::VF(*self) } fn view_of(&self) -> (r: FmtHandle) { FmtHandle { v: Ghost(self.fview()) } } }
impl FmtArg for naga::StorageFormat { open spec fn fview(&self) -> FmtV { FmtV::SF(*self) } fn view_of(&self) -> (r: FmtHandle) { FmtHandle { v: Ghost(self.fview()) } } }
impl<'a, T: FmtArg + ?Sized> FmtArg for &'a T { open spec fn fview(&self) -> FmtV { (**self).fview() } fn view_of(&self) -> (r: FmtHandle) { FmtHandle { v: Ghost(self.fview()) } } }
pub uninterp spec fn fmt1(tpl: &str, a: FmtV) -> Seq<char>;
pub uninterp spec fn fmt2(tpl: &str, a: FmtV, b: FmtV) -> Seq<char>;
pub mod fmt_shim {
    use super::*;
    #[verifier::external_body]
    pub fn format1(tpl: &'static str, a: FmtHandle) -> (r: String) ensures r@ == fmt1(tpl, a.v@) { unimplemented!() }
    #[verifier::external_body]
    pub fn format2(tpl: &'static str, a: FmtHandle, b: FmtHandle) -> (r: String) ensures r@ == fmt2(tpl, a.v@, b.v@) { unimplemented!() }
    #[verifier::external_body]
    pub fn panic_shim() -> ! requires false { unimplemented!() }
}

} // verus!

macro_rules! quote {
    ($($tt:tt)*) => {{ let mut _s = $crate::tokens::shim::new(); quote_each!(_s $($tt)*); _s }};
}
macro_rules! quote_each {
    ($s:ident) => {};
    // repetition with separator / without
    ($s:ident # ( $($inner:tt)* ) * $($rest:tt)*) => { quote_rep!($s [] [$($inner)*] []); quote_each!($s $($rest)*); };
    ($s:ident # ( $($inner:tt)* ) $sep:tt * $($rest:tt)*) => { quote_rep!($s [] [$($inner)*] [$sep]); quote_each!($s $($rest)*); };
    ($s:ident # $v:ident $($rest:tt)*) => { $crate::tokens::Interp::interp(&$v, &mut $s); quote_each!($s $($rest)*); };
    ($s:ident __LP__ $($rest:tt)*) => { $crate::tokens::shim::t(&mut $s, "("); quote_each!($s $($rest)*); };
    ($s:ident __RP__ $($rest:tt)*) => { $crate::tokens::shim::t(&mut $s, ")"); quote_each!($s $($rest)*); };
    ($s:ident __LB__ $($rest:tt)*) => { $crate::tokens::shim::t(&mut $s, "["); quote_each!($s $($rest)*); };
    ($s:ident __RB__ $($rest:tt)*) => { $crate::tokens::shim::t(&mut $s, "]"); quote_each!($s $($rest)*); };
    ($s:ident __LC__ $($rest:tt)*) => { $crate::tokens::shim::t(&mut $s, "{"); quote_each!($s $($rest)*); };
    ($s:ident __RC__ $($rest:tt)*) => { $crate::tokens::shim::t(&mut $s, "}"); quote_each!($s $($rest)*); };
    ($s:ident ( $($inner:tt)* ) $($rest:tt)*) => { $crate::tokens::shim::t(&mut $s, "("); quote_each!($s $($inner)*); $crate::tokens::shim::t(&mut $s, ")"); quote_each!($s $($rest)*); };
    ($s:ident [ $($inner:tt)* ] $($rest:tt)*) => { $crate::tokens::shim::t(&mut $s, "["); quote_each!($s $($inner)*); $crate::tokens::shim::t(&mut $s, "]"); quote_each!($s $($rest)*); };
    ($s:ident { $($inner:tt)* } $($rest:tt)*) => { $crate::tokens::shim::t(&mut $s, "{"); quote_each!($s $($inner)*); $crate::tokens::shim::t(&mut $s, "}"); quote_each!($s $($rest)*); };
    ($s:ident $t:tt $($rest:tt)*) => { $crate::tokens::shim::t(&mut $s, stringify!($t)); quote_each!($s $($rest)*); };
}
// split the inner template around the single interpolated variable: pre tokens, var, post tokens
macro_rules! quote_rep {
    ($s:ident [$($pre:tt)*] [# $v:ident $($post:tt)*] [$($sep:tt)*]) => {{
        let mut _pre = $crate::tokens::shim::new(); quote_each!(_pre $($pre)*);
        let mut _post = $crate::tokens::shim::new(); quote_each!(_post $($post)*);
        let mut _sep = $crate::tokens::shim::new(); quote_each!(_sep $($sep)*);
        $crate::tokens::shim::rep_slice(&mut $s, $crate::tokens::RepSrc::as_rep_slice(&$v), &_pre, &_post, &_sep);
    }};
    ($s:ident [$($pre:tt)*] [( $($g:tt)* ) $($more:tt)*] [$($sep:tt)*]) => { quote_rep!($s [$($pre)*] [__LP__ $($g)* __RP__ $($more)*] [$($sep)*]) };
    ($s:ident [$($pre:tt)*] [[ $($g:tt)* ] $($more:tt)*] [$($sep:tt)*]) => { quote_rep!($s [$($pre)*] [__LB__ $($g)* __RB__ $($more)*] [$($sep)*]) };
    ($s:ident [$($pre:tt)*] [{ $($g:tt)* } $($more:tt)*] [$($sep:tt)*]) => { quote_rep!($s [$($pre)*] [__LC__ $($g)* __RC__ $($more)*] [$($sep)*]) };
    ($s:ident [$($pre:tt)*] [$t:tt $($more:tt)*] [$($sep:tt)*]) => { quote_rep!($s [$($pre)* $t] [$($more)*] [$($sep)*]) };
}
// specification side: same muncher, Seq<Tok> built by the same chain of push/add
macro_rules! ts {
    ($($tt:tt)*) => { ts_each!([vstd::seq::Seq::<$crate::tokens::Tok>::empty()] $($tt)*) };
}
macro_rules! ts_each {
    ([$acc:expr]) => { $acc };
    ([$acc:expr] # $v:ident $($rest:tt)*) => { ts_each!([$acc.add($v)] $($rest)*) };
    ([$acc:expr] ( $($inner:tt)* ) $($rest:tt)*) => { ts_each!([ts_each!([$acc.push($crate::tokens::Tok::T("("))] $($inner)*).push($crate::tokens::Tok::T(")"))] $($rest)*) };
    ([$acc:expr] [ $($inner:tt)* ] $($rest:tt)*) => { ts_each!([ts_each!([$acc.push($crate::tokens::Tok::T("["))] $($inner)*).push($crate::tokens::Tok::T("]"))] $($rest)*) };
    ([$acc:expr] { $($inner:tt)* } $($rest:tt)*) => { ts_each!([ts_each!([$acc.push($crate::tokens::Tok::T("{"))] $($inner)*).push($crate::tokens::Tok::T("}"))] $($rest)*) };
    ([$acc:expr] $t:tt $($rest:tt)*) => { ts_each!([$acc.push($crate::tokens::Tok::T(stringify!($t)))] $($rest)*) };
}
macro_rules! format {
    ($fmt:literal, $a:expr $(,)?) => { $crate::tokens::fmt_shim::format1($fmt, $crate::tokens::FmtArg::view_of(&$a)) };
    ($fmt:literal, $a:expr, $b:expr $(,)?) => { $crate::tokens::fmt_shim::format2($fmt, $crate::tokens::FmtArg::view_of(&$a), $crate::tokens::FmtArg::view_of(&$b)) };
}
macro_rules! panic {
    ($($t:tt)*) => { $crate::tokens::fmt_shim::panic_shim() };
}
macro_rules! todo {
    ($($t:tt)*) => { $crate::tokens::fmt_shim::panic_shim() };
}
// diagnostics printed to stderr/stdout do not influence any result: dropped
macro_rules! eprintln { ($($t:tt)*) => { () }; }
macro_rules! eprint { ($($t:tt)*) => { () }; }
macro_rules! println { ($($t:tt)*) => { () }; }
