// C19: the canonical token text behind lib::is_same_program, as a DEFINED function of the token TREE of a stream,
// so that the real body of lib::token_text is verified against it (unit `canon`) instead of being a trusted stub.
//
// proc_macro2's token types are opaque to Verus; what is assumed here is their public API (a dependency, not /repo):
//   * a stream is a finite sequence of token trees (`tt_seq`); a tree is a Group / Ident / Punct / Literal (the REAL enum);
//     a group has a delimiter and an inner stream that is strictly lower in the nesting order (`ts_height`: trees are finite);
//   * `into_iter()` yields exactly that sequence, `peekable()`/`peek()` have std's meaning, `Group::delimiter/stream`,
//     `Punct::as_char` return the viewed parts, `TokenTree::to_string()` is a function of the tree (`tree_text`);
//   * `axiom_canon_flat`: the tree of a stream is determined by its flat token view `ts_view` (balanced delimiters determine
//     the tree), stated as: the canonical text of the tree is `canon_text` of the flat view.  This DEFINES the so far
//     uninterpreted `canon_text` on the views of real streams;
//   * `axiom_canon_relex` (TRUSTED meaning, a fact about proc_macro2's printer and lexer, used only by lemma_same_program_tokens):
//     lexing the canonical text gives back the tokens without their trailing commas.
#![allow(unused_imports)]
use vstd::prelude::*;
use proc_macro2::{TokenStream, TokenTree, Group, Punct, Delimiter};
use core::iter::Peekable;
use crate::tokens::*;

verus! {

#[verifier::external_type_specification] #[verifier::external_body] pub struct ExGroup(Group);
#[verifier::external_type_specification] #[verifier::external_body] pub struct ExPunct(Punct);
#[verifier::external_type_specification] pub struct ExDelimiter(Delimiter);
#[verifier::external_type_specification] pub struct ExTokenTree(TokenTree);
#[verifier::external_type_specification] #[verifier::external_body] pub struct ExIntoIter(proc_macro2::token_stream::IntoIter);
#[verifier::external_type_specification] #[verifier::external_body] #[verifier::reject_recursive_types(I)] pub struct ExPeekable<I: Iterator>(Peekable<I>);

// vstd's IteratorSpec has a spec method `peek(int)` that shadows the inherent `Peekable::peek(&mut self)` under method
// resolution, so units that call the real `peek` cannot import the trait; these wrappers name what they need of it
pub mod itv {
    use vstd::prelude::*;
    use vstd::std_specs::iter::IteratorSpec;
    #[verifier::prophetic] pub open spec fn laws<I: Iterator>(i: &I) -> bool { i.obeys_prophetic_iter_laws() }
    #[verifier::prophetic] pub open spec fn rem<I: Iterator>(i: &I) -> Seq<I::Item> { i.remaining() }
    pub open spec fn dec<I: Iterator>(i: &I) -> bool { i.decrease() is Some }
    pub open spec fn decn<I: Iterator>(i: &I) -> nat { match i.decrease() { Some(n) => n, None => 0 } }
}
pub use itv::*;

// ---- tree view ----
pub uninterp spec fn tt_seq(s: &TokenStream) -> Seq<TokenTree>;
pub uninterp spec fn ts_height(s: &TokenStream) -> nat;
pub uninterp spec fn group_delim(g: &Group) -> Delimiter;
pub uninterp spec fn group_inner(g: &Group) -> TokenStream;
pub uninterp spec fn punct_char(p: &Punct) -> char;
pub uninterp spec fn tree_text(t: &TokenTree) -> Seq<char>;

// token trees are finite: the stream inside a group is lower than the stream that holds the group
pub broadcast axiom fn axiom_group_height(s: &TokenStream, i: int)
    requires 0 <= i < tt_seq(s).len(),
    ensures (match #[trigger] tt_seq(s)[i] { TokenTree::Group(g) => ts_height(&group_inner(&g)) < ts_height(s), _ => true });

// ---- the canonical text, written from what it is for: "the tokens separated by spaces, without trailing commas" ----
pub open spec fn open_text(d: Delimiter) -> Seq<char> {
    match d { Delimiter::Parenthesis => seq!['('], Delimiter::Brace => seq!['{'], Delimiter::Bracket => seq!['['], Delimiter::None => Seq::empty() }
}
pub open spec fn close_text(d: Delimiter) -> Seq<char> {
    match d { Delimiter::Parenthesis => seq![')'], Delimiter::Brace => seq!['}'], Delimiter::Bracket => seq![']'], Delimiter::None => Seq::empty() }
}
pub open spec fn is_comma(t: &TokenTree) -> bool {
    match t { TokenTree::Punct(p) => punct_char(p) == ',', _ => false }
}
// the text of the first n trees of s: every tree is followed by one space; a group is its delimiters around the text of its
// stream; a comma that is the LAST tree of its stream (a trailing comma) contributes nothing - and nothing else is dropped
pub open spec fn canon_upto(s: &TokenStream, n: int) -> Seq<char>
    decreases ts_height(s), n when n <= tt_seq(s).len()
{
    if n <= 0 { Seq::empty() } else {
        let t = tt_seq(s)[n - 1];
        let pre = canon_upto(s, n - 1);
        match t {
            TokenTree::Group(g) => {
                let inner = group_inner(&g);
                let it = if ts_height(&inner) < ts_height(s) { canon_upto(&inner, tt_seq(&inner).len() as int) } else { Seq::empty() };
                (pre + open_text(group_delim(&g)) + it + close_text(group_delim(&g))).push(' ')
            },
            _ => if is_comma(&t) && n == tt_seq(s).len() { pre } else { (pre + tree_text(&t)).push(' ') },
        }
    }
}
pub open spec fn canon_tree(s: &TokenStream) -> Seq<char> { canon_upto(s, tt_seq(s).len() as int) }

// the flat view determines the tree
pub broadcast axiom fn axiom_canon_flat(s: &TokenStream)
    ensures #[trigger] canon_tree(s) == canon_text(ts_view(s));

// ---- assumed contracts of the proc_macro2 / std API the body uses ----
pub assume_specification[ <TokenStream as IntoIterator>::into_iter ](s: TokenStream) -> (r: proc_macro2::token_stream::IntoIter)
    ensures laws(&r), dec(&r), rem(&r) == tt_seq(&s);
pub trait ShimPeekable: Iterator + Sized { fn shim_peekable(self) -> (r: Peekable<Self>); }
impl<I: Iterator> ShimPeekable for I {
    // std: Peekable yields what the underlying iterator yields
    #[verifier::external_body]
    fn shim_peekable(self) -> (r: Peekable<Self>)
        ensures laws(&self) ==> laws(&r) && rem(&r) == rem(&self) && dec(&r) == dec(&self)
    { self.peekable() }
}
// std: peek() does not advance; None exactly when nothing remains
pub assume_specification<I: Iterator>[ Peekable::<I>::peek ](p: &mut Peekable<I>) -> (r: Option<&I::Item>)
    ensures *final(p) == *old(p), laws(old(p)) ==> ((r is None) == (rem(old(p)).len() == 0));
pub assume_specification[ TokenStream::new ]() -> (r: TokenStream) ensures tt_seq(&r).len() == 0, ts_view(&r).len() == 0;
pub assume_specification[ Group::delimiter ](g: &Group) -> (r: Delimiter) ensures r == group_delim(g);
pub assume_specification[ Group::stream ](g: &Group) -> (r: TokenStream) ensures r == group_inner(g);
pub assume_specification[ Punct::as_char ](p: &Punct) -> (r: char) ensures r == punct_char(p);
pub trait ShimTreeToString { fn shim_to_string(&self) -> (r: String); }
impl ShimTreeToString for TokenTree {
    #[verifier::external_body] fn shim_to_string(&self) -> (r: String) ensures r@ == tree_text(self) { self.to_string() }
}
// `to_string` of the four kinds of tree: the text of the tree that holds them (so that code which looks INTO a token and then
// prints something else for it can be judged against canon_upto, which prints `tree_text` for every tree that is not a group)
impl ShimTreeToString for proc_macro2::Literal {
    #[verifier::external_body] fn shim_to_string(&self) -> (r: String) ensures r@ == tree_text(&TokenTree::Literal(*self)) { self.to_string() }
}
impl ShimTreeToString for proc_macro2::Ident {
    #[verifier::external_body] fn shim_to_string(&self) -> (r: String) ensures r@ == tree_text(&TokenTree::Ident(*self)) { self.to_string() }
}
impl ShimTreeToString for Punct {
    #[verifier::external_body] fn shim_to_string(&self) -> (r: String) ensures r@ == tree_text(&TokenTree::Punct(*self)) { self.to_string() }
}
// str::starts_with / ends_with are generic over the unstable Pattern trait: stand-ins with an uninterpreted meaning
pub uninterp spec fn text_has(s: Seq<char>, pat: Seq<char>, end: int) -> bool;
pub trait CanonPat { spec fn cpat(&self) -> Seq<char>; }
impl CanonPat for char { open spec fn cpat(&self) -> Seq<char> { seq![*self] } }
impl<'a> CanonPat for &'a str { open spec fn cpat(&self) -> Seq<char> { self@ } }
pub trait ShimCanonStr {
    fn shim_starts_with<P: CanonPat>(&self, p: P) -> (r: bool);
    fn shim_ends_with<P: CanonPat>(&self, p: P) -> (r: bool);
}
impl ShimCanonStr for str {
    #[verifier::external_body] fn shim_starts_with<P: CanonPat>(&self, p: P) -> (r: bool) ensures r == text_has(self@, p.cpat(), 0) { unimplemented!() }
    #[verifier::external_body] fn shim_ends_with<P: CanonPat>(&self, p: P) -> (r: bool) ensures r == text_has(self@, p.cpat(), 1) { unimplemented!() }
}

} // verus!
