// Model of the stage analysis (C03, C13): what "an entry point statically reaches a global" means, written from the statement
// over the REAL naga types, and the contract vocabulary of wgsl::global_shader_stages / entry_stages.  Pure specifications
// (the lemmas that the proofs of the walkers need stay in unit `stages`), shared by unit `stages` (which proves the
// contracts) and unit `libmain` (whose stubs of these two functions carry the same contracts, proved-in=stages).
#![allow(unused_imports)]
use vstd::prelude::*;
use crate::prelude::*;
use crate::wgpu;

verus! {

pub open spec fn stmt_call(s: &naga::Statement, c: int) -> bool {
    match s { naga::Statement::Call { function, .. } => handle_index(*function) == c, _ => false }
}
pub open spec fn stmt_at(b: &naga::Block, i: int) -> naga::Statement { block_stmts(b)[i] }
pub open spec fn nsub(b: &naga::Block, i: int) -> int { sub_blocks(&block_stmts(b)[i]).len() as int }
pub open spec fn subblk(b: &naga::Block, i: int, k: int) -> naga::Block { sub_blocks(&block_stmts(b)[i])[k] }

pub open spec fn block_calls(b: &naga::Block, c: int) -> bool
    decreases block_height(b)
{
    ||| exists|i: int| 0 <= i < block_stmts(b).len() && stmt_call(&#[trigger] stmt_at(b, i), c)
    ||| exists|i: int, k: int| 0 <= i < block_stmts(b).len() && 0 <= k < nsub(b, i)
            && block_height(&#[trigger] subblk(b, i, k)) < block_height(b) && block_calls(&subblk(b, i, k), c)
}
pub open spec fn calls_sub(b: &naga::Block, i: int, k: int, c: int) -> bool {
    0 <= i < block_stmts(b).len() && 0 <= k < nsub(b, i) && block_calls(&subblk(b, i, k), c)
}
pub open spec fn calls_at(b: &naga::Block, i: int, c: int) -> bool {
    0 <= i < block_stmts(b).len() && (stmt_call(&stmt_at(b, i), c) || exists|k: int| #[trigger] calls_sub(b, i, k, c))
}
// unfolding lemmas for block_calls (used by the proofs of units `stages` and `cost`)
pub proof fn lemma_block_calls(b: &naga::Block, c: int)
    ensures block_calls(b, c) <==> exists|i: int| #[trigger] calls_at(b, i, c),
{
    if block_calls(b, c) {
        if exists|i: int| 0 <= i < block_stmts(b).len() && stmt_call(&#[trigger] stmt_at(b, i), c) {
            let i = choose|i: int| 0 <= i < block_stmts(b).len() && stmt_call(&#[trigger] stmt_at(b, i), c);
            assert(calls_at(b, i, c));
        } else {
            let (i, k) = choose|i: int, k: int| 0 <= i < block_stmts(b).len() && 0 <= k < nsub(b, i)
                && block_height(&#[trigger] subblk(b, i, k)) < block_height(b) && block_calls(&subblk(b, i, k), c);
            assert(calls_sub(b, i, k, c));
            assert(calls_at(b, i, c));
        }
    }
    if exists|i: int| #[trigger] calls_at(b, i, c) {
        let i = choose|i: int| #[trigger] calls_at(b, i, c);
        if stmt_call(&stmt_at(b, i), c) {
        } else {
            let k = choose|k: int| #[trigger] calls_sub(b, i, k, c);
            axiom_block_height(b, i, k);
            assert(block_height(&subblk(b, i, k)) < block_height(b));
        }
    }
}

pub proof fn lemma_sub_calls(m: &naga::Module, b: &naga::Block, i: int, k: int, c: int)
    requires 0 <= i < block_stmts(b).len(), 0 <= k < sub_blocks(&block_stmts(b)[i]).len(),
        block_calls(&sub_blocks(&block_stmts(b)[i])[k], c),
    ensures calls_sub(b, i, k, c), calls_at(b, i, c), block_calls(b, c),
{
    assert(calls_sub(b, i, k, c));
    assert(calls_at(b, i, c));
    lemma_block_calls(b, c);
}
// ---------------- functions ----------------
pub open spec fn nfun(m: &naga::Module) -> int { arena_seq(&m.functions).len() as int }
pub open spec fn fun(m: &naga::Module, i: int) -> naga::Function { arena_seq(&m.functions)[i] }
pub open spec fn nglob(m: &naga::Module) -> int { arena_seq(&m.global_variables).len() as int }
pub open spec fn gname(m: &naga::Module, g: int) -> Option<String> { arena_seq(&m.global_variables)[g].name }
pub open spec fn exprs(f: &naga::Function) -> Seq<naga::Expression> { arena_seq(&f.expressions) }

pub open spec fn expr_call(e: &naga::Expression, c: int) -> bool {
    match e { naga::Expression::CallResult(f) => handle_index(*f) == c, _ => false }
}
pub open spec fn expr_global(e: &naga::Expression, g: int) -> bool {
    match e { naga::Expression::GlobalVariable(h) => handle_index(*h) == g, _ => false }
}
pub open spec fn fn_calls(f: &naga::Function, c: int) -> bool {
    block_calls(&f.body, c) || exists|i: int| 0 <= i < exprs(f).len() && #[trigger] expr_call(&exprs(f)[i], c)
}
pub open spec fn fn_uses(f: &naga::Function, g: int) -> bool {
    exists|i: int| 0 <= i < exprs(f).len() && #[trigger] expr_global(&exprs(f)[i], g)
}
pub open spec fn reach_idx(m: &naga::Module, i: int, g: int) -> bool
    decreases i
{
    0 <= i < nfun(m) && (fn_uses(&fun(m, i), g)
        || exists|c: int| 0 <= c < i && #[trigger] fn_calls(&fun(m, i), c) && reach_idx(m, c, g))
}
pub open spec fn reach_top(m: &naga::Module, f: &naga::Function, g: int) -> bool {
    fn_uses(f, g) || exists|c: int| 0 <= c < nfun(m) && #[trigger] fn_calls(f, c) && reach_idx(m, c, g)
}
pub open spec fn desc_idx(m: &naga::Module, i: int, d: int) -> bool
    decreases i
{
    0 <= i < nfun(m) && exists|c: int| 0 <= c < i && #[trigger] fn_calls(&fun(m, i), c) && (c == d || desc_idx(m, c, d))
}

pub open spec fn fn_ok(m: &naga::Module, f: &naga::Function, bound: int) -> bool {
    &&& forall|c: int| #[trigger] fn_calls(f, c) ==> 0 <= c < bound
    &&& forall|g: int| #[trigger] fn_uses(f, g) ==> 0 <= g < nglob(m)
}
pub open spec fn wf(m: &naga::Module) -> bool {
    &&& forall|i: int| 0 <= i < nfun(m) ==> #[trigger] fn_ok(m, &fun(m, i), i)
}

// ---------------- entry points ----------------
pub open spec fn stage_bit(s: naga::ShaderStage) -> u32 {
    match s { naga::ShaderStage::Vertex => 1u32, naga::ShaderStage::Fragment => 2u32, naga::ShaderStage::Compute => 4u32 }
}
pub open spec fn stage_of(s: naga::ShaderStage) -> wgpu::ShaderStages { wgpu::ShaderStages { bits: stage_bit(s) } }
// entry point functions live outside the functions arena; they may call any arena function
pub open spec fn wf_entries(m: &naga::Module) -> bool {
    forall|j: int| 0 <= j < m.entry_points@.len() ==> fn_ok(m, &(#[trigger] m.entry_points@[j]).function, nfun(m))
}
// completeness of the stage map after the first n entry points
pub open spec fn gss_complete(m: &naga::Module, gs: Map<String, wgpu::ShaderStages>, n: int) -> bool {
    forall|j: int, g: int| 0 <= j < n && #[trigger] reach_top(m, &m.entry_points@[j].function, g) && gname(m, g) is Some
        ==> has(gs, gname(m, g)->0, stage_of(m.entry_points@[j].stage))
}

// exactness of the stage map after the first k entry points: every stage bit of every key is owed to an entry point
// of that stage that reaches a global of that name; and no key is empty
pub open spec fn is_stage_bit(b: u32) -> bool { b == 1 || b == 2 || b == 4 }
pub open spec fn has_bit(gs: Map<String, wgpu::ShaderStages>, n: String, b: u32) -> bool { gs.contains_key(n) && is_stage_bit(b) && gs[n].bits & b == b }
pub open spec fn touched_by_entry(m: &naga::Module, j: int, n: String) -> bool { touched_fn(m, m.entry_points@[j].function)(n) }
pub open spec fn gss_exact(m: &naga::Module, gs: Map<String, wgpu::ShaderStages>, k: int) -> bool {
    &&& forall|n: String, b: u32| #[trigger] has_bit(gs, n, b) ==> exists|j: int| 0 <= j < k && stage_bit(m.entry_points@[j].stage) == b && #[trigger] touched_by_entry(m, j, n)
    &&& forall|n: String| #[trigger] gs.contains_key(n) ==> gs[n].bits != 0
}
pub open spec fn bounded(gs: Map<String, wgpu::ShaderStages>) -> bool { forall|n: String| #[trigger] gs.contains_key(n) ==> gs[n].bits < 8 }
pub open spec fn bits_sub(a: u32, b: u32) -> bool { a & b == a }
pub open spec fn has(gs: Map<String, wgpu::ShaderStages>, name: String, stage: wgpu::ShaderStages) -> bool {
    gs.contains_key(name) && bits_sub(stage.bits, gs[name].bits)
}

// ---------------- exactness: no unused stage is ever added ----------------
pub open spec fn old_bits(gs: Map<String, wgpu::ShaderStages>, n: String) -> u32 { if gs.contains_key(n) { gs[n].bits } else { 0 } }
// every key of `b` is either unchanged from `a`, or is TOUCHED (names a global the walked code reaches) and got exactly `stage` added
pub open spec fn sound(a: Map<String, wgpu::ShaderStages>, b: Map<String, wgpu::ShaderStages>, stage: wgpu::ShaderStages, t: spec_fn(String) -> bool) -> bool {
    forall|n: String| #[trigger] b.contains_key(n) ==>
        (a.contains_key(n) && b[n].bits == a[n].bits) || (t(n) && b[n].bits == old_bits(a, n) | stage.bits)
}
pub open spec fn touched_fn(m: &naga::Module, f: naga::Function) -> spec_fn(String) -> bool {
    |n: String| exists|g: int| #[trigger] reach_top(m, &f, g) && gname(m, g) == Some(n)
}
pub open spec fn touched_block(m: &naga::Module, b: naga::Block) -> spec_fn(String) -> bool {
    |n: String| exists|c: int, g: int| #[trigger] block_calls(&b, c) && #[trigger] reach_idx(m, c, g) && gname(m, g) == Some(n)
}
pub open spec fn entry_bits(es: Seq<naga::EntryPoint>) -> u32 decreases es.len() { if es.len() == 0 { 0 } else { entry_bits(es.drop_last()) | stage_bit(es.last().stage) } }

// ---------------- the stage map as a function of the module ----------------
// bounded + exact + complete determine the map: there is exactly one map with these three properties (lemma_stages_unique),
// so "the stage map of the module" is a mathematical function of the module and the output specification may name it.
pub open spec fn stages_ok(m: &naga::Module, gs: Map<String, wgpu::ShaderStages>) -> bool {
    bounded(gs) && gss_exact(m, gs, m.entry_points@.len() as int) && gss_complete(m, gs, m.entry_points@.len() as int)
}
pub open spec fn stage_map_of(m: &naga::Module) -> Map<String, wgpu::ShaderStages> {
    choose|gs: Map<String, wgpu::ShaderStages>| stages_ok(m, gs)
}
proof fn lemma_bits_agree(x: u32, y: u32)
    requires x < 8, y < 8, (x & 1 == 1) == (y & 1 == 1), (x & 2 == 2) == (y & 2 == 2), (x & 4 == 4) == (y & 4 == 4),
    ensures x == y,
{
    assert(x < 8 && y < 8 && ((x & 1 == 1) == (y & 1 == 1)) && ((x & 2 == 2) == (y & 2 == 2)) && ((x & 4 == 4) == (y & 4 == 4)) ==> x == y) by(bit_vector);
}
proof fn lemma_some_bit(x: u32)
    requires x < 8, x != 0,
    ensures x & 1 == 1 || x & 2 == 2 || x & 4 == 4,
{
    assert(x < 8 && x != 0 ==> (x & 1 == 1 || x & 2 == 2 || x & 4 == 4)) by(bit_vector);
}
// one direction: every key of `a` is a key of `b`, and every stage bit of a[n] is a bit of b[n]
proof fn lemma_stages_sub(m: &naga::Module, a: Map<String, wgpu::ShaderStages>, b: Map<String, wgpu::ShaderStages>, n: String, bit: u32)
    requires stages_ok(m, a), stages_ok(m, b), has_bit(a, n, bit),
    ensures has_bit(b, n, bit),
{
    let k = m.entry_points@.len() as int;
    let j = choose|j: int| 0 <= j < k && stage_bit(m.entry_points@[j].stage) == bit && #[trigger] touched_by_entry(m, j, n);
    let f = m.entry_points@[j].function;
    let g = choose|g: int| #[trigger] reach_top(m, &f, g) && gname(m, g) == Some(n);
    assert(reach_top(m, &m.entry_points@[j].function, g) && gname(m, g) is Some);
    assert(has(b, gname(m, g)->0, stage_of(m.entry_points@[j].stage)));
    let y = b[n].bits;
    assert(bits_sub(bit, y));
    assert(bit & y == bit ==> y & bit == bit) by(bit_vector);
}
pub proof fn lemma_stages_unique(m: &naga::Module, a: Map<String, wgpu::ShaderStages>, b: Map<String, wgpu::ShaderStages>)
    requires stages_ok(m, a), stages_ok(m, b),
    ensures a =~= b,
{
    assert forall|n: String| a.contains_key(n) implies b.contains_key(n) && #[trigger] a[n] == b[n] by {
        lemma_stages_key(m, a, b, n);
    }
    assert forall|n: String| b.contains_key(n) implies a.contains_key(n) by {
        lemma_stages_key(m, b, a, n);
    }
}
proof fn lemma_stages_key(m: &naga::Module, a: Map<String, wgpu::ShaderStages>, b: Map<String, wgpu::ShaderStages>, n: String)
    requires stages_ok(m, a), stages_ok(m, b), a.contains_key(n),
    ensures b.contains_key(n), a[n] == b[n],
{
    let x = a[n].bits;
    lemma_some_bit(x);
    if x & 1 == 1 { assert(has_bit(a, n, 1)); lemma_stages_sub(m, a, b, n, 1); }
    if x & 2 == 2 { assert(has_bit(a, n, 2)); lemma_stages_sub(m, a, b, n, 2); }
    if x & 4 == 4 { assert(has_bit(a, n, 4)); lemma_stages_sub(m, a, b, n, 4); }
    assert(b.contains_key(n));
    let y = b[n].bits;
    if y & 1 == 1 { assert(has_bit(b, n, 1)); lemma_stages_sub(m, b, a, n, 1); }
    if y & 2 == 2 { assert(has_bit(b, n, 2)); lemma_stages_sub(m, b, a, n, 2); }
    if y & 4 == 4 { assert(has_bit(b, n, 4)); lemma_stages_sub(m, b, a, n, 4); }
    lemma_bits_agree(x, y);
}
// what the assembly needs: the analysed map IS the stage map of the module
pub proof fn lemma_stage_map_is(m: &naga::Module, gs: Map<String, wgpu::ShaderStages>)
    requires stages_ok(m, gs),
    ensures gs == stage_map_of(m), stages_ok(m, stage_map_of(m)),
{
    lemma_stages_unique(m, gs, stage_map_of(m));
}

} // verus!
