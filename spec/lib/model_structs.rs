// Token-level model of structs.rs (C05 layout assertions, C06 fields, C08 which structs, C09 derives / repr).
// Pure specifications written from the property statements, plus proved lemmas; nothing assumed here.
#![allow(unused_imports)]
use vstd::prelude::*;
use proc_macro2::TokenStream;
use crate::prelude::*;
use crate::iter_shims::*;
use crate::tokens::*;
use crate::model_common::*;
use crate::model_types::*;
use crate::model_reach::*;
use crate::{WriteOptions, MatrixVectorTypes};

verus! {

// ---------------- C06: fields ----------------
pub open spec fn is_builtin(mem: &naga::StructMember) -> bool { match mem.binding { Some(naga::Binding::BuiltIn(_)) => true, _ => false } }
// the non-builtin members in declaration order
pub open spec fn user_members(ms: Seq<naga::StructMember>) -> Seq<naga::StructMember>
    decreases ms.len()
{
    if ms.len() == 0 { Seq::empty() } else {
        let r = user_members(ms.drop_last());
        if is_builtin(&ms.last()) { r } else { r.push(ms.last()) }
    }
}
pub proof fn lemma_keep_user(ms: Seq<naga::StructMember>, bs: Seq<bool>)
    requires bs.len() == ms.len(), forall|i: int| 0 <= i < ms.len() ==> #[trigger] bs[i] == !is_builtin(&ms[i]),
    ensures keep(ms, bs) == user_members(ms),
    decreases ms.len(),
{
    if ms.len() > 0 { lemma_keep_user(ms.drop_last(), bs.drop_last()); }
}
pub open spec fn member_ty(m: &naga::Module, mem: &naga::StructMember) -> naga::Type { tys(m)[handle_index(mem.ty)] }
pub open spec fn rts_base(m: &naga::Module, mem: &naga::StructMember) -> Option<int> {
    match member_ty(m, mem).inner { naga::TypeInner::Array { base, size: naga::ArraySize::Dynamic, .. } => Some(handle_index(base)), _ => None }
}
pub open spec fn is_rts(m: &naga::Module, mem: &naga::StructMember) -> bool { rts_base(m, mem) is Some }
pub open spec fn has_rts(m: &naga::Module, ms: Seq<naga::StructMember>) -> bool { exists|i: int| 0 <= i < ms.len() && is_rts(m, &#[trigger] ms[i]) }
pub open spec fn member_toks(m: &naga::Module, mem: &naga::StructMember, f: MatrixVectorTypes) -> Seq<Tok> {
    let name = seq![Tok::Id(mem.name->0@)];                                            // same name
    match rts_base(m, mem) {
        Some(b) => { let e = rty_toks(m, &tys(m)[b], f); ts!(#[size(runtime)] pub #name: Vec<#e>) },   // trailing runtime-sized array: growable vector marked runtime-sized
        None => { let t = rty_toks(m, &member_ty(m, mem), f); ts!(pub #name: #t) },
    }
}
pub open spec fn member_ok(m: &naga::Module, ms: Seq<naga::StructMember>, i: int) -> bool {
    &&& ms[i].name is Some
    &&& 0 <= handle_index(ms[i].ty) < tys(m).len()
    &&& match rts_base(m, &ms[i]) {
            Some(b) => i == ms.len() - 1 && 0 <= b < tys(m).len() && ty_supported(m, &tys(m)[b]),   // only the last field may be runtime-sized
            None => ty_supported(m, &member_ty(m, &ms[i])),
        }
}
pub open spec fn members_ok(m: &naga::Module, ms: Seq<naga::StructMember>) -> bool { forall|i: int| 0 <= i < ms.len() ==> #[trigger] member_ok(m, ms, i) }
pub open spec fn fields_toks(m: &naga::Module, ms: Seq<naga::StructMember>, f: MatrixVectorTypes) -> Seq<Seq<Tok>> {
    Seq::new(ms.len(), |i: int| member_toks(m, &ms[i], f))
}

// ---------------- C05: layout assertions ----------------
pub open spec fn offset_assert_toks(sname: Seq<char>, mem: &naga::StructMember) -> Seq<Tok> {
    let struct_name = seq![Tok::Id(sname)];
    let name = seq![Tok::Id(mem.name->0@)];
    let rust_offset = ts!(std::mem::offset_of!(#struct_name, #name));
    let wgsl_offset = seq![Tok::LitU(mem.offset as int)];                              // the WGSL byte offset of the field (naga's)
    let text = seq![Tok::LitS(fmt2("offset of {}.{} does not match WGSL", FmtV::S(sname), FmtV::S(mem.name->0@)))];
    ts!(const _: () = assert!(#rust_offset == #wgsl_offset, #text);)
}
pub open spec fn size_assert_toks(sname: Seq<char>, size: u32) -> Seq<Tok> {
    let struct_name = seq![Tok::Id(sname)];
    let struct_size = seq![Tok::LitU(size as int)];                                    // the WGSL byte size of the struct (naga's Layouter)
    let text = seq![Tok::LitS(fmt1("size of {} does not match WGSL", FmtV::S(sname)))];
    ts!(const _: () = assert!(std::mem::size_of::<#struct_name>() == #struct_size, #text);)
}

// ---------------- C09: derives and repr ----------------
pub open spec fn derive_list(o: WriteOptions, host: bool, rts: bool) -> Seq<Seq<Tok>> {
    let d0 = seq![ts!(Debug)];
    let d1 = if !rts { d0.push(ts!(Copy)) } else { d0 };                               // Copy unless it ends in a runtime-sized array
    let d2 = d1.push(ts!(Clone)).push(ts!(PartialEq));
    let d3 = if o.derive_bytemuck_vertex && !host { d2.push(ts!(bytemuck::Pod)).push(ts!(bytemuck::Zeroable)) } else { d2 };      // the remaining structs with the vertex switch
    let d4 = if o.derive_bytemuck_host_shareable && host { d3.push(ts!(bytemuck::Pod)).push(ts!(bytemuck::Zeroable)) } else { d3 }; // host-shareable structs with the host-shareable switch
    let d5 = if o.derive_encase_host_shareable && host { d4.push(ts!(encase::ShaderType)) } else { d4 };
    if o.derive_serde { d5.push(ts!(serde::Serialize)).push(ts!(serde::Deserialize)) } else { d5 }
}
// the option combinations the generator documents as unsupported (its three panics)
pub open spec fn combo_ok(o: WriteOptions, host: bool, rts: bool) -> bool {
    &&& !(rts && !o.derive_encase_host_shareable)
    &&& !(rts && o.derive_bytemuck_vertex && !host)
    &&& !(rts && o.derive_bytemuck_host_shareable && host)
}
pub open spec fn rust_struct_toks(m: &naga::Module, sname: Seq<char>, all: Seq<naga::StructMember>, size: u32, o: WriteOptions, host: bool) -> Seq<Tok> {
    let ms = user_members(all);
    let rts = has_rts(m, ms);
    let struct_name = seq![Tok::Id(sname)];
    let repr_c = if !rts { ts!(#[repr(C)]) } else { Seq::empty() };                      // C representation unless runtime-sized
    let derives = flat(derive_list(o, host, rts), Seq::empty(), Seq::empty(), ts!(,));
    let fields = flat(fields_toks(m, ms, o.matrix_vector_types), Seq::empty(), Seq::empty(), ts!(,));
    let assert_layout = if o.derive_bytemuck_host_shareable && host {                    // layout assertions exactly with bytemuck host-shareable
        let a = size_assert_toks(sname, size);
        let b = flat(Seq::new(ms.len(), |i: int| offset_assert_toks(sname, &ms[i])), Seq::empty(), Seq::empty(), Seq::empty());
        ts!(#a #b)
    } else { Seq::empty() };
    ts!(
        #repr_c
        #[derive(#derives)]
        pub struct #struct_name {
            #fields
        }
        #assert_layout
    )
}


pub open spec fn rust_struct_pre(t: &naga::Type, all: Seq<naga::StructMember>, layouter: &naga::proc::Layouter, h: naga::Handle<naga::Type>,
                                 m: &naga::Module, o: WriteOptions, gvt: Set<naga::Handle<naga::Type>>) -> bool {
    let ms = user_members(all);
    &&& t.name is Some
    &&& members_ok(m, ms)
    &&& layouter_module(layouter) == Some(m) && 0 <= handle_index(h) < tys(m).len()
    &&& combo_ok(o, gvt.contains(h), has_rts(m, ms))
}
// filter by reference then clone == the non-builtin members by value
pub proof fn lemma_user_members_refs(all: Seq<naga::StructMember>, kept: Seq<&naga::StructMember>, vals: Seq<naga::StructMember>)
    requires
        exists|bs: Seq<bool>, refs: Seq<&naga::StructMember>| #![trigger keep(refs, bs)] refs.len() == all.len() && bs.len() == all.len()
            && (forall|i: int| 0 <= i < all.len() ==> *(#[trigger] refs[i]) == all[i] && bs[i] == !is_builtin(&all[i])) && kept == keep(refs, bs),
        vals.len() == kept.len(), forall|i: int| 0 <= i < kept.len() ==> #[trigger] vals[i] == *kept[i],
    ensures vals == user_members(all),
{
    let (bs, refs) = choose|bs: Seq<bool>, refs: Seq<&naga::StructMember>| #![trigger keep(refs, bs)] refs.len() == all.len() && bs.len() == all.len()
            && (forall|i: int| 0 <= i < all.len() ==> *(#[trigger] refs[i]) == all[i] && bs[i] == !is_builtin(&all[i])) && kept == keep(refs, bs);
    lemma_keep_refs(all, refs, bs);
    assert(vals =~= user_members(all));
}
pub proof fn lemma_keep_refs(all: Seq<naga::StructMember>, refs: Seq<&naga::StructMember>, bs: Seq<bool>)
    requires refs.len() == all.len(), bs.len() == all.len(), forall|i: int| 0 <= i < all.len() ==> *(#[trigger] refs[i]) == all[i] && bs[i] == !is_builtin(&all[i]),
    ensures keep(refs, bs).len() == user_members(all).len(), forall|i: int| 0 <= i < keep(refs, bs).len() ==> *(#[trigger] keep(refs, bs)[i]) == user_members(all)[i],
    decreases all.len(),
{
    if all.len() > 0 { lemma_keep_refs(all.drop_last(), refs.drop_last(), bs.drop_last()); }
}


// ---------------- C08: which structs are emitted ----------------
pub open spec fn gvars(m: &naga::Module) -> Seq<naga::GlobalVariable> { arena_seq(&m.global_variables) }
pub open spec fn result_is(e: &naga::EntryPoint, i: int) -> bool { match e.function.result { Some(r) => handle_index(r.ty) == i, None => false } }
pub open spec fn arg_is(e: &naga::EntryPoint, i: int) -> bool {
    exists|a: int| 0 <= a < e.function.arguments@.len() && handle_index(#[trigger] e.function.arguments@[a].ty) == i
}
// the struct is some entry point's return type (stage outputs, inter-stage values)
pub open spec fn is_entry_result(m: &naga::Module, i: int) -> bool { exists|k: int| 0 <= k < m.entry_points@.len() && result_is(&#[trigger] m.entry_points@[k], i) }
// the struct is taken as a parameter by some entry point
pub open spec fn is_entry_arg(m: &naga::Module, i: int) -> bool { exists|k: int| 0 <= k < m.entry_points@.len() && arg_is(&#[trigger] m.entry_points@[k], i) }
// reachable from the type of a module-scope variable (through members, arrays, runtime arrays)
pub open spec fn host_visible(m: &naga::Module, i: int) -> bool { exists|g: int| 0 <= g < gvars(m).len() && #[trigger] reach(m, handle_index(gvars(m)[g].ty), i) }
pub open spec fn host_upto(m: &naga::Module, k: int, i: int) -> bool { exists|g: int| 0 <= g < k && #[trigger] reach(m, handle_index(gvars(m)[g].ty), i) }
pub open spec fn emitted(m: &naga::Module, i: int) -> bool { (!is_entry_result(m, i) && is_entry_arg(m, i)) || host_visible(m, i) }
pub open spec fn struct_item(m: &naga::Module, i: int, o: WriteOptions) -> Option<Seq<Tok>> {
    match tys(m)[i].inner {
        naga::TypeInner::Struct { members, .. } => Some(rust_struct_toks(m, tys(m)[i].name->0@, members@, wgsl_size(m, i), o, host_visible(m, i))),
        _ => None,
    }
}
pub open spec fn struct_items(m: &naga::Module, o: WriteOptions) -> Seq<Option<Seq<Tok>>> {
    Seq::new(tys(m).len(), |i: int| if emitted(m, i) { struct_item(m, i, o) } else { None })
}
// exactly the host-visible structs, in arena order, once each (a UniqueArena holds each struct once)
pub open spec fn structs_toks(m: &naga::Module, o: WriteOptions) -> Seq<Tok> { flat(somes(struct_items(m, o)), Seq::empty(), Seq::empty(), Seq::empty()) }
pub open spec fn structs_pre(m: &naga::Module, o: WriteOptions) -> bool {
    &&& layout_ok(m) && types_wf(m)
    &&& forall|g: int| 0 <= g < gvars(m).len() ==> 0 <= handle_index(#[trigger] gvars(m)[g].ty) < tys(m).len()
    &&& forall|i: int| 0 <= i < tys(m).len() && #[trigger] emitted(m, i) ==> (match tys(m)[i].inner {
            naga::TypeInner::Struct { members, .. } => tys(m)[i].name is Some && members_ok(m, user_members(members@))
                && combo_ok(o, host_visible(m, i), has_rts(m, user_members(members@))),
            _ => true })
}
// somes over a filtered sequence == somes over the full sequence with the rejected positions blanked


// ---------------- C09: the struct section depends on the options only through the five struct switches ----------------
pub open spec fn same_struct_switches(a: WriteOptions, b: WriteOptions) -> bool {
    a.derive_bytemuck_vertex == b.derive_bytemuck_vertex && a.derive_bytemuck_host_shareable == b.derive_bytemuck_host_shareable
        && a.derive_encase_host_shareable == b.derive_encase_host_shareable && a.derive_serde == b.derive_serde
        && a.matrix_vector_types == b.matrix_vector_types
}
pub proof fn lemma_structs_noninterference(m: &naga::Module, a: WriteOptions, b: WriteOptions)
    requires same_struct_switches(a, b),
    ensures structs_toks(m, a) == structs_toks(m, b), structs_pre(m, a) == structs_pre(m, b),
{
    assert forall|i: int| 0 <= i < tys(m).len() implies #[trigger] struct_items(m, a)[i] == struct_items(m, b)[i] by {
        match tys(m)[i].inner {
            naga::TypeInner::Struct { members, .. } => {
                let ms = user_members(members@);
                let host = host_visible(m, i);
                assert(derive_list(a, host, has_rts(m, ms)) == derive_list(b, host, has_rts(m, ms)));
            },
            _ => {},
        }
    }
    assert(struct_items(m, a) =~= struct_items(m, b));
}

} // verus!
