// Stand-in for the part of `wgpu_types` that Verus cannot take: associated constants of a foreign
// bitflags type (`wgpu::ShaderStages::VERTEX`) are "not supported" and cannot be given a specification.
// The bit values are those of wgpu-types 24.0.0 (conformance-tested against the real crate by
// vtool/replay `shim-conformance`).  `wgpu::VertexFormat` etc. stay the real types.
#![allow(unused_imports)]
use vstd::prelude::*;
pub use wgpu_types::VertexFormat; // the real type (its spec is declared in tokens.rs)

verus! {

#[derive(Clone, Copy, Debug)]
pub struct ShaderStages { pub bits: u32 }

impl ShaderStages {
    pub const NONE: ShaderStages = ShaderStages { bits: 0 };
    pub const VERTEX: ShaderStages = ShaderStages { bits: 1 };
    pub const FRAGMENT: ShaderStages = ShaderStages { bits: 2 };
    pub const COMPUTE: ShaderStages = ShaderStages { bits: 4 };
    pub const VERTEX_FRAGMENT: ShaderStages = ShaderStages { bits: 3 };
    pub fn all() -> (r: ShaderStages) ensures r.bits == 7 { ShaderStages { bits: 7 } }
    pub fn contains(&self, other: ShaderStages) -> (r: bool) ensures r == (self.bits & other.bits == other.bits) { self.bits & other.bits == other.bits }
    pub fn union(self, other: ShaderStages) -> (r: ShaderStages) ensures r.bits == self.bits | other.bits { ShaderStages { bits: self.bits | other.bits } }
    // the rest of the bitflags surface a change may reach for (conformance-tested with the others against wgpu-types)
    pub fn empty() -> (r: ShaderStages) ensures r.bits == 0 { ShaderStages { bits: 0 } }
    pub fn bits(&self) -> (r: u32) ensures r == self.bits { self.bits }
    pub fn is_empty(&self) -> (r: bool) ensures r == (self.bits == 0) { self.bits == 0 }
    pub fn intersection(self, other: ShaderStages) -> (r: ShaderStages) ensures r.bits == self.bits & other.bits { ShaderStages { bits: self.bits & other.bits } }
    pub fn difference(self, other: ShaderStages) -> (r: ShaderStages) ensures r.bits == self.bits & !other.bits { ShaderStages { bits: self.bits & !other.bits } }
    pub fn intersects(&self, other: ShaderStages) -> (r: bool) ensures r == (self.bits & other.bits != 0) { self.bits & other.bits != 0 }
}
impl vstd::std_specs::cmp::PartialEqSpecImpl for ShaderStages {
    open spec fn obeys_eq_spec() -> bool { true }
    open spec fn eq_spec(&self, other: &ShaderStages) -> bool { self.bits == other.bits }
}
impl PartialEq for ShaderStages {
    fn eq(&self, other: &ShaderStages) -> (r: bool) ensures r == (self.bits == other.bits) { self.bits == other.bits }
}

// `iter.collect::<ShaderStages>()`: bitflags' FromIterator is the union of all items
pub open spec fn or_all(s: Seq<ShaderStages>) -> u32 decreases s.len() { if s.len() == 0 { 0 } else { or_all(s.drop_last()) | s.last().bits } }
impl FromIterator<ShaderStages> for ShaderStages {
    #[verifier::external_body]
    fn from_iter<I: IntoIterator<Item = ShaderStages>>(iter: I) -> (r: ShaderStages)
    { let mut b = 0; for s in iter { b |= s.bits; } ShaderStages { bits: b } }
}
impl vstd::std_specs::iter::FromIteratorSpecImpl<ShaderStages> for ShaderStages {
    open spec fn from_iter_ensures(remaining: Seq<ShaderStages>, s: ShaderStages) -> bool { s.bits == or_all(remaining) }
}

} // verus!
