// Token-level model of consts.rs (C15 module constants, C12 override constants).  Pure specifications written from
// the property statements; nothing assumed here.
#![allow(unused_imports)]
use vstd::prelude::*;
use proc_macro2::TokenStream;
use crate::prelude::*;
use crate::iter_shims::*;
use crate::tokens::*;
use crate::model_common::*;
use crate::model_types::*;

verus! {

// wgsl::rust_type is used through its PROVED contract (unit wgsl_types: model_types::{ty_supported, rty_toks}); this file states
// what that means for an override, whose WGSL type is a scalar: the field has the Rust scalar type of the same kind and width.

// ---------------- C15 ----------------
pub open spec fn constants(m: &naga::Module) -> Seq<naga::Constant> { arena_seq(&m.constants) }
// the constant-evaluated value of a constant of scalar type (naga folds scalars to a literal or a zero value)
pub open spec fn const_value(m: &naga::Module, c: &naga::Constant) -> Option<naga::Literal> {
    match arena_seq(&m.global_expressions)[handle_index(c.init)] {
        naga::Expression::Literal(l) => Some(l),
        naga::Expression::ZeroValue(ty) => match uarena_seq(&m.types)[handle_index(ty)].inner {
            naga::TypeInner::Scalar(s) => lit_zero(s),
            _ => None,
        },
        _ => None,
    }
}
// `TYPE = VALUE`: the Rust type that corresponds to the WGSL type, and a literal carrying exactly the value
pub open spec fn lit_ty_val(l: naga::Literal) -> Seq<Tok> {
    match l {
        naga::Literal::F64(v) => { let x = seq![Tok::LitF64(v)]; ts!(f64 = #x) },
        naga::Literal::F32(v) => { let x = seq![Tok::LitF32(v)]; ts!(f32 = #x) },
        naga::Literal::U32(v) => { let x = seq![Tok::LitU32(v)]; ts!(u32 = #x) },
        naga::Literal::I32(v) => { let x = seq![Tok::LitI32(v)]; ts!(i32 = #x) },
        naga::Literal::U64(v) => { let x = seq![Tok::LitU64(v)]; ts!(u64 = #x) },
        naga::Literal::Bool(v) => { let x = seq![Tok::LitBool(v)]; ts!(bool = #x) },
        naga::Literal::I64(v) => { let x = seq![Tok::LitI64(v)]; ts!(i64 = #x) },
        naga::Literal::AbstractInt(v) => { let x = seq![Tok::LitI64(v)]; ts!(i64 = #x) },
        naga::Literal::AbstractFloat(v) => { let x = seq![Tok::LitF64(v)]; ts!(f64 = #x) },
    }
}
// a named scalar constant is exported under its own name; anything else contributes no tokens
pub open spec fn const_item(m: &naga::Module, c: &naga::Constant) -> Option<Seq<Tok>> {
    if c.name is Some && const_value(m, c) is Some {
        let n = seq![Tok::Id(c.name->0@)];
        let tv = lit_ty_val(const_value(m, c)->0);
        Some(ts!(pub const #n: #tv;))
    } else { None }
}
pub open spec fn consts_items(m: &naga::Module) -> Seq<Seq<Tok>> {
    somes(Seq::new(constants(m).len(), |i: int| const_item(m, &constants(m)[i])))
}
// naga invariants: handles in range
pub open spec fn consts_wf(m: &naga::Module) -> bool {
    &&& forall|i: int| 0 <= i < constants(m).len() ==> 0 <= handle_index(#[trigger] constants(m)[i].init) < arena_seq(&m.global_expressions).len()
    &&& forall|i: int| 0 <= i < arena_seq(&m.global_expressions).len() ==> (match #[trigger] arena_seq(&m.global_expressions)[i] {
            naga::Expression::ZeroValue(ty) => 0 <= handle_index(ty) < uarena_seq(&m.types).len(), _ => true })
}
pub proof fn lemma_somes_toks(ys: Seq<Option<TokenStream>>, zs: Seq<Option<Seq<Tok>>>)
    requires ys.len() == zs.len(), forall|i: int| 0 <= i < ys.len() ==> #[trigger] zs[i] == (match ys[i] { Some(t) => Some(ts_view(&t)), None => None }),
    ensures toks_of(somes(ys)) =~= somes(zs),
    decreases ys.len(),
{
    if ys.len() > 0 {
        lemma_somes_toks(ys.drop_last(), zs.drop_last());
        assert(zs.last() == (match ys.last() { Some(t) => Some(ts_view(&t)), None => None }));
    }
}


// ---------------- C12 ----------------
pub open spec fn overrides(m: &naga::Module) -> Seq<naga::Override> { arena_seq(&m.overrides) }
// keyed by the decimal @id when one is given and by the name otherwise
pub open spec fn override_key_spec(o: &naga::Override) -> Seq<char> {
    match o.id { Some(i) => crate::print_model::dec_string(i as int), None => o.name->0@ }
}
pub open spec fn is_bool_override(m: &naga::Module, o: &naga::Override) -> bool {
    match uarena_seq(&m.types)[handle_index(o.ty)].inner { naga::TypeInner::Scalar(s) => s.kind == naga::ScalarKind::Bool, _ => false }
}
pub open spec fn rust_mvt() -> crate::MatrixVectorTypes { crate::MatrixVectorTypes::Rust }
pub open spec fn override_field(m: &naga::Module, o: &naga::Override) -> Seq<Tok> {
    let name = seq![Tok::Id(o.name->0@)];
    // [C12] of the matching scalar type: the Rust scalar of the same kind and width as the override's WGSL type
    let ty = match override_scalar(m, o) { Some(s) => scalar_toks(s.kind, s.width)->0, None => Seq::empty() };
    if o.init is Some { ts!(pub #name: Option<#ty>) } else { ts!(pub #name: #ty) }   // optional exactly when the WGSL declaration has a default
}
pub open spec fn override_required(m: &naga::Module, o: &naga::Override) -> Option<Seq<Tok>> {
    if o.init is Some { None } else {
        let key = seq![Tok::LitS(override_key_spec(o))];
        let name = seq![Tok::Id(o.name->0@)];
        let value = if is_bool_override(m, o) { ts!(if self.#name { 1.0 } else { 0.0}) } else { ts!(self.#name as f64) };
        Some(ts!((#key.to_owned(), #value)))
    }
}
pub open spec fn override_optional(m: &naga::Module, o: &naga::Override) -> Option<Seq<Tok>> {
    if o.init is Some {
        let key = seq![Tok::LitS(override_key_spec(o))];
        let name = seq![Tok::Id(o.name->0@)];
        let value = if is_bool_override(m, o) { ts!(if value { 1.0 } else { 0.0}) } else { ts!(value as f64) };
        Some(ts!(
            if let Some(value) = self.#name {
                entries.insert(#key.to_owned(), #value);
            }
        ))
    } else { None }
}
pub open spec fn overrides_toks(m: &naga::Module) -> Seq<Tok> {
    let ovs = overrides(m);
    if ovs.len() == 0 { Seq::empty() } else {
        let fields = flat(Seq::new(ovs.len(), |i: int| override_field(m, &ovs[i])), Seq::empty(), Seq::empty(), ts!(,));
        let req = somes(Seq::new(ovs.len(), |i: int| override_required(m, &ovs[i])));
        let opt = somes(Seq::new(ovs.len(), |i: int| override_optional(m, &ovs[i])));
        let reqs = flat(req, Seq::empty(), Seq::empty(), ts!(,));
        let init = if opt.len() == 0 { ts!(let entries = std::collections::HashMap::from([#reqs]);) }
                   else { ts!(let mut entries = std::collections::HashMap::from([#reqs]);) };
        let opts = flat(opt, Seq::empty(), Seq::empty(), ts!(;));
        ts!(
            pub struct OverrideConstants {
                #fields
            }

            impl OverrideConstants {
                pub fn constants(&self) -> std::collections::HashMap<String, f64> {
                    #init
                    #opts
                    entries
                }
            }
        )
    }
}
// the scalar type of an override, if it is one the generator supports
pub open spec fn override_scalar(m: &naga::Module, o: &naga::Override) -> Option<naga::Scalar> {
    match uarena_seq(&m.types)[handle_index(o.ty)].inner {
        naga::TypeInner::Scalar(s) => if scalar_toks(s.kind, s.width) is Some { Some(s) } else { None },
        _ => None,
    }
}
// [C12] "of the matching scalar type": the field type of a supported override is exactly the Rust scalar of the same kind and width
pub proof fn lemma_override_field_type(m: &naga::Module, o: &naga::Override)
    requires 0 <= handle_index(o.ty) < uarena_seq(&m.types).len(), override_scalar(m, o) is Some,
    ensures
        ty_supported(m, &uarena_seq(&m.types)[handle_index(o.ty)]),
        rty_toks(m, &uarena_seq(&m.types)[handle_index(o.ty)], rust_mvt()) == scalar_toks(override_scalar(m, o)->0.kind, override_scalar(m, o)->0.width)->0,
{
    let i = handle_index(o.ty);
    let t = uarena_seq(&m.types)[i];
    assert(tys(m)[i] == t && ty_supported_idx(m, i));
    lemma_ty_idx(m, &t, i);
}
pub open spec fn overrides_supported(m: &naga::Module) -> bool {
    forall|i: int| 0 <= i < overrides(m).len() ==> {
        &&& (#[trigger] overrides(m)[i]).name is Some     // the WGSL front end always names overrides
        &&& 0 <= handle_index(overrides(m)[i].ty) < uarena_seq(&m.types).len()
        &&& override_scalar(m, &overrides(m)[i]) is Some     // WGSL: an override has a scalar type (bool, i32, u32, f32; f16 is outside the feature set)
    }
}

} // verus!
