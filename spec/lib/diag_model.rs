// Diagnostics rendering (C17): ASSUMED contracts of naga's own renderers and of the std path helpers, and the model of
// CreateModuleError::emit_to_string*.  naga's diagnostic text is an uninterpreted function of (error, source, file name).
#![allow(unused_imports)]
use vstd::prelude::*;
use std::path::Path;
use naga::WithSpan;

// This file is self-contained (it does not use prelude.rs / tokens.rs): Verus' trait-conflict checker rejects a crate
// that mentions both `AsRef<Path>` and `Clone` bounds ("the trait bound `Path: T15_Clone` is not satisfied"), and the
// shared prelude mentions Clone.  The format!/eprintln! stand-ins below are the ones of tokens.rs, reduced to strings.
verus! {

#[verifier::external_type_specification] #[verifier::external_body] pub struct ExPath(Path);
#[verifier::external_type_specification] #[verifier::external_body] pub struct ExParseError(naga::front::wgsl::ParseError);
#[verifier::external_type_specification] #[verifier::external_body] pub struct ExValidationError(naga::valid::ValidationError);
#[verifier::external_type_specification] #[verifier::external_body] #[verifier::accept_recursive_types(E)] pub struct ExWithSpan<E>(naga::WithSpan<E>);

// ---- format! stand-in: an uninterpreted function of the template and the argument texts ----
pub enum FmtV { S(Seq<char>) }
pub struct FmtHandle { pub v: Ghost<FmtV> }
pub trait FmtArg { spec fn fview(&self) -> FmtV; fn view_of(&self) -> (r: FmtHandle) ensures r.v@ == self.fview(); }
impl FmtArg for String { open spec fn fview(&self) -> FmtV { FmtV::S(self@) } fn view_of(&self) -> (r: FmtHandle) { FmtHandle { v: Ghost(self.fview()) } } }
impl<'a, T: FmtArg + ?Sized> FmtArg for &'a T { open spec fn fview(&self) -> FmtV { (**self).fview() } fn view_of(&self) -> (r: FmtHandle) { FmtHandle { v: Ghost(self.fview()) } } }
pub uninterp spec fn fmt1(tpl: &str, a: FmtV) -> Seq<char>;
pub uninterp spec fn fmt2(tpl: &str, a: FmtV, b: FmtV) -> Seq<char>;
pub mod fmt_shim {
    use super::*;
    #[verifier::external_body]
    pub fn format1(tpl: &'static str, a: FmtHandle) -> (r: String) ensures r@ == fmt1(tpl, a.v@) { unimplemented!() }
    #[verifier::external_body]
    pub fn format2(tpl: &'static str, a: FmtHandle, b: FmtHandle) -> (r: String) ensures r@ == fmt2(tpl, a.v@, b.v@) { unimplemented!() }
}

pub uninterp spec fn path_text(p: &Path) -> Seq<char>;                 // the (lossy) text of a path
pub uninterp spec fn pview<P>(p: P) -> Seq<char>;                      // the text of whatever `impl AsRef<Path>` was passed
pub uninterp spec fn parse_diag(e: naga::front::wgsl::ParseError, src: Seq<char>, path: Seq<char>) -> Seq<char>;
pub uninterp spec fn valid_diag<E>(e: WithSpan<E>, src: Seq<char>, path: Seq<char>) -> Seq<char>;
pub broadcast axiom fn axiom_pview_path(p: &Path) ensures #[trigger] pview::<&Path>(p) == path_text(p);

// `path.as_ref()` for `path: impl AsRef<Path>` (the extracted code calls as_path(&path): unit-wide mechanical rewrite)
#[verifier::external_body]
pub fn as_path<P: AsRef<Path>>(p: &P) -> (r: &Path) ensures path_text(r) == pview(*p) { p.as_ref() }

// `path.to_string_lossy()` (a Cow<str>, for which Verus accepts no trait impls): the extracted code calls path_lossy(path),
// which returns the same text as an owned String (unit-wide mechanical rewrite)
#[verifier::external_body]
pub fn path_lossy(p: &Path) -> (r: String) ensures r@ == path_text(p) { p.to_string_lossy().into_owned() }

// naga 24: ParseError::emit_to_string(src) = emit_to_string_with_path(src, "wgsl"); likewise WithSpan<E>
pub assume_specification[ naga::front::wgsl::ParseError::emit_to_string ](e: &naga::front::wgsl::ParseError, source: &str) -> (r: String)
    ensures r@ == parse_diag(*e, source@, "wgsl"@);
pub assume_specification<P: AsRef<Path>>[ naga::front::wgsl::ParseError::emit_to_string_with_path::<P> ](e: &naga::front::wgsl::ParseError, source: &str, path: P) -> (r: String)
    ensures r@ == parse_diag(*e, source@, pview(path));
pub assume_specification<E: std::error::Error>[ WithSpan::<E>::emit_to_string ](e: &WithSpan<E>, source: &str) -> (r: String)
    ensures r@ == valid_diag(*e, source@, "wgsl"@);
pub assume_specification<E: std::error::Error>[ WithSpan::<E>::emit_to_string_with_path ](e: &WithSpan<E>, source: &str, path: &str) -> (r: String)
    ensures r@ == valid_diag(*e, source@, path@);
// the stderr variants print the same diagnostic; nothing is returned, so only their panic freedom is visible to a contract
pub assume_specification[ naga::front::wgsl::ParseError::emit_to_stderr ](e: &naga::front::wgsl::ParseError, source: &str);
pub assume_specification<P: AsRef<Path>>[ naga::front::wgsl::ParseError::emit_to_stderr_with_path::<P> ](e: &naga::front::wgsl::ParseError, source: &str, path: P);
pub assume_specification<E: std::error::Error>[ WithSpan::<E>::emit_to_stderr ](e: &WithSpan<E>, source: &str);
pub assume_specification<E: std::error::Error>[ WithSpan::<E>::emit_to_stderr_with_path ](e: &WithSpan<E>, source: &str, path: &str);


} // verus!
macro_rules! format {
    ($fmt:literal, $a:expr $(,)?) => { $crate::diag_model::fmt_shim::format1($fmt, $crate::diag_model::FmtArg::view_of(&$a)) };
    ($fmt:literal, $a:expr, $b:expr $(,)?) => { $crate::diag_model::fmt_shim::format2($fmt, $crate::diag_model::FmtArg::view_of(&$a), $crate::diag_model::FmtArg::view_of(&$b)) };
}
// diagnostics printed to stderr do not influence any result: dropped
macro_rules! eprintln { ($($t:tt)*) => { () }; }
