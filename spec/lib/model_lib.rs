// Token-level model of the generators in lib.rs that stand alone: compute module (C14), push constant range (C13).
// Pure specifications written from the property statements; nothing assumed here.
#![allow(unused_imports)]
use vstd::prelude::*;
use proc_macro2::TokenStream;
use crate::prelude::*;
use crate::iter_shims::*;
use crate::tokens::*;
use crate::model_common::*;
use crate::wgpu;

verus! {



// ---------------- C14: compute entry points ----------------
pub open spec fn workgroup_toks(e: &naga::EntryPoint) -> Seq<Tok> {
    let name = seq![Tok::Id(fmt1("{}_WORKGROUP_SIZE", FmtV::S(upper(e.name@))))];
    let x = seq![Tok::LitU(e.workgroup_size@[0] as int)];
    let y = seq![Tok::LitU(e.workgroup_size@[1] as int)];
    let z = seq![Tok::LitU(e.workgroup_size@[2] as int)];
    ts!(pub const #name: [u32; 3] = [#x, #y, #z];)
}
pub open spec fn pipeline_toks(e: &naga::EntryPoint) -> Seq<Tok> {
    let pipeline_name = seq![Tok::Id(fmt1("create_{}_pipeline", FmtV::S(e.name@)))];
    let entry_point = seq![Tok::LitS(e.name@)];
    let label = seq![Tok::LitS(fmt1("Compute Pipeline {}", FmtV::S(e.name@)))];
    ts!(
        pub fn #pipeline_name(device: &wgpu::Device) -> wgpu::ComputePipeline {
            let module = super::create_shader_module(device);
            let layout = super::create_pipeline_layout(device);
            device.create_compute_pipeline(&wgpu::ComputePipelineDescriptor {
                label: Some(#label),
                layout: Some(&layout),
                module: &module,
                entry_point: Some(#entry_point),
                compilation_options: Default::default(),
                cache: Default::default(),
            })
        }
    )
}
pub open spec fn compute_item(e: &naga::EntryPoint) -> Option<Seq<Tok>> {
    if e.stage == naga::ShaderStage::Compute { let w = workgroup_toks(e); let p = pipeline_toks(e); Some(ts!(#w #p)) } else { None }
}
pub open spec fn compute_module_toks(es: Seq<naga::EntryPoint>) -> Seq<Tok> {
    let items = somes(Seq::new(es.len(), |i: int| compute_item(&es[i])));
    if items.len() == 0 { Seq::empty() } else {
        let body = flat(items, Seq::empty(), Seq::empty(), Seq::empty());
        ts!(pub mod compute { #body })
    }
}
pub proof fn lemma_somes_toks(ys: Seq<Option<TokenStream>>, zs: Seq<Option<Seq<Tok>>>)
    requires ys.len() == zs.len(), forall|i: int| 0 <= i < ys.len() ==> #[trigger] zs[i] == (match ys[i] { Some(t) => Some(ts_view(&t)), None => None }),
    ensures toks_of(somes(ys)) =~= somes(zs),
    decreases ys.len(),
{
    if ys.len() > 0 {
        lemma_somes_toks(ys.drop_last(), zs.drop_last());
        assert(zs.last() == (match ys.last() { Some(t) => Some(ts_view(&t)), None => None }));
    }
}

// ---------------- C13: the push constant range ----------------
pub open spec fn is_pc(g: &naga::GlobalVariable) -> bool { g.space == naga::AddressSpace::PushConstant }
pub open spec fn globals(m: &naga::Module) -> Seq<naga::GlobalVariable> { arena_seq(&m.global_variables) }
// index of the first push constant variable, if any
pub open spec fn first_pc(m: &naga::Module, k: int) -> bool {
    0 <= k < globals(m).len() && is_pc(&globals(m)[k]) && forall|i: int| 0 <= i < k ==> !is_pc(&#[trigger] globals(m)[i])
}
pub open spec fn pc_bits(g: &naga::GlobalVariable, gs: Map<String, wgpu::ShaderStages>, entry_bits: u32) -> u32 {
    if g.name is Some && gs.contains_key(g.name->0) { gs[g.name->0].bits } else { entry_bits }
}
pub open spec fn pc_range_toks(m: &naga::Module, g: &naga::GlobalVariable) -> Seq<Tok> {
    let size = seq![Tok::LitU(type_size(m, uarena_seq(&m.types)[handle_index(g.ty)].inner) as int)];
    ts!(
        wgpu::PushConstantRange {
            stages: PUSH_CONSTANT_STAGES,
            range: 0..#size
        }
    )
}
pub open spec fn globals_wf(m: &naga::Module) -> bool {
    forall|i: int| 0 <= i < globals(m).len() ==> 0 <= handle_index(#[trigger] globals(m)[i].ty) < uarena_seq(&m.types).len()
}
pub open spec fn pc_post(m: &naga::Module, gs: Map<String, wgpu::ShaderStages>, entry_bits: u32, r: Option<(TokenStream, TokenStream)>) -> bool {
    match r {
        None => forall|i: int| 0 <= i < globals(m).len() ==> !is_pc(&#[trigger] globals(m)[i]),
        Some(p) => exists|k: int| #[trigger] first_pc(m, k) && ts_view(&p.0) == pc_range_toks(m, &globals(m)[k])
            && ts_view(&p.1) == stages_toks(pc_bits(&globals(m)[k], gs, entry_bits)),
    }
}








} // verus!
