// Model of the vertex input struct discovery of wgsl.rs (C07): which structs get a vertex buffer layout, with which
// fields.  Pure specifications and proved lemmas; nothing is assumed here.
#![allow(unused_imports)]
use vstd::prelude::*;
use crate::prelude::*;
use crate::iter_shims::*;
use crate::vec_shims::*;
use crate::tokens::*;
use crate::model_types::*;
use crate::model_common::*;
use crate::model_entry::*;
use proc_macro2::TokenStream;

verus! {

// what the generator records about one vertex input struct: its WGSL name and its @location members in declaration order
pub type VIView = (String, Seq<(u32, naga::StructMember)>);

// a member contributes an attribute iff it carries @location; builtins (and unbound members) contribute none
pub open spec fn member_loc(m: naga::StructMember) -> Option<(u32, naga::StructMember)> {
    match m.binding { Some(naga::Binding::Location { location, .. }) => Some((location, m)), _ => None }
}
pub open spec fn located(ms: Seq<naga::StructMember>) -> Seq<(u32, naga::StructMember)> {
    somes(Seq::new(ms.len(), |i: int| member_loc(ms[i])))
}
pub open spec fn vtys(m: &naga::Module) -> Seq<naga::Type> { uarena_seq(&m.types) }

// an argument is a vertex input struct iff it has no binding of its own and its type is a struct
pub open spec fn arg_struct(m: &naga::Module, a: naga::FunctionArgument) -> Option<VIView> {
    if a.binding is Some { None } else {
        match vtys(m)[handle_index(a.ty)].inner {
            naga::TypeInner::Struct { members, .. } => Some((vtys(m)[handle_index(a.ty)].name->0, located(members@))),
            _ => None,
        }
    }
}
// the struct parameters of one entry point, in parameter order
pub open spec fn entry_structs(m: &naga::Module, e: &naga::EntryPoint) -> Seq<VIView> {
    somes(Seq::new(e.function.arguments@.len(), |i: int| arg_struct(m, e.function.arguments@[i])))
}
// naga invariants the unwraps rely on: argument types in range; struct types are named; members of an input struct are bound
pub open spec fn arg_wf(m: &naga::Module, a: naga::FunctionArgument) -> bool {
    &&& 0 <= handle_index(a.ty) < vtys(m).len()
    &&& a.binding is None ==> (match vtys(m)[handle_index(a.ty)].inner {
            naga::TypeInner::Struct { members, .. } => vtys(m)[handle_index(a.ty)].name is Some
                && forall|k: int| 0 <= k < members@.len() ==> (#[trigger] members@[k]).binding is Some,
            _ => true })
}
pub open spec fn entry_args_wf(m: &naga::Module, e: &naga::EntryPoint) -> bool {
    forall|i: int| 0 <= i < e.function.arguments@.len() ==> arg_wf(m, #[trigger] e.function.arguments@[i])
}
pub open spec fn vertex_args_wf(m: &naga::Module) -> bool {
    forall|i: int| 0 <= i < m.entry_points@.len() && (#[trigger] m.entry_points@[i]).stage == naga::ShaderStage::Vertex ==> entry_args_wf(m, &m.entry_points@[i])
}

// ---- the module-wide list: every struct parameter of every vertex entry, exactly once per name ----
pub open spec fn is_vertex_struct(m: &naga::Module, v: VIView) -> bool {
    exists|e: int, k: int| 0 <= e < m.entry_points@.len() && (#[trigger] m.entry_points@[e]).stage == naga::ShaderStage::Vertex
        && 0 <= k < entry_structs(m, &m.entry_points@[e]).len() && #[trigger] entry_structs(m, &m.entry_points@[e])[k] == v
}
pub open spec fn discovery_ok(m: &naga::Module, vs: Seq<VIView>) -> bool {
    // every listed struct is a struct parameter of a vertex entry, with exactly its @location members
    &&& forall|j: int| 0 <= j < vs.len() ==> is_vertex_struct(m, #[trigger] vs[j])
    // every struct parameter of a vertex entry is listed (by name)
    &&& forall|v: VIView| is_vertex_struct(m, v) ==> exists|j: int| 0 <= j < vs.len() && (#[trigger] vs[j]).0 == v.0
    // no name twice (each name gets one `impl` block)
    &&& forall|i: int, j: int| 0 <= i < j < vs.len() ==> (#[trigger] vs[i]).0 != (#[trigger] vs[j]).0
}

// ---------------- C07: the attribute table and the buffer layout of one vertex input struct ----------------
// vf_shape is injective on the formats it names, so "a format with the same scalar kind, width and component count" is ONE format
pub proof fn lemma_vf_injective(f: wgpu_types::VertexFormat, g: wgpu_types::VertexFormat)
    requires vf_shape(f) is Some, vf_shape(f) == vf_shape(g),
    ensures f == g,
{}
pub open spec fn vf_of(t: naga::TypeInner) -> wgpu_types::VertexFormat { choose|f: wgpu_types::VertexFormat| vf_shape(f) == attr_shape(t) }
pub proof fn lemma_vf_of(f: wgpu_types::VertexFormat, t: naga::TypeInner)
    requires attr_shape(t) is Some, vf_shape(f) == attr_shape(t),
    ensures f == vf_of(t),
{
    lemma_vf_injective(f, vf_of(t));
}
// one attribute: the member's own location, the format of the member's own type, the offset of the Rust field of the same name in the Rust struct of the same name
pub open spec fn attr_toks(m: &naga::Module, sname: Seq<char>, fld: (u32, naga::StructMember)) -> Seq<Tok> {
    let format = seq![Tok::Id(fmt1("{:?}", FmtV::VF(vf_of(vtys(m)[handle_index(fld.1.ty)].inner))))];
    let name = seq![Tok::Id(sname)];
    let field_name = parse_toks(fld.1.name->0@);
    let location = seq![Tok::LitU(fld.0 as int)];
    ts!(
        wgpu::VertexAttribute {
            format: wgpu::VertexFormat::#format,
            offset: std::mem::offset_of!(#name, #field_name) as u64,
            shader_location: #location,
        }
    )
}
pub open spec fn vertex_impl_toks(m: &naga::Module, v: VIView) -> Seq<Tok> {
    let name = seq![Tok::Id(v.0@)];
    let count = seq![Tok::LitU(v.1.len() as int)];
    let attributes = flat(Seq::new(v.1.len(), |i: int| attr_toks(m, v.0@, v.1[i])), Seq::empty(), Seq::empty(), ts!(,));
    ts!(
        impl #name {
            pub const VERTEX_ATTRIBUTES: [wgpu::VertexAttribute; #count] = [#attributes];

            pub const fn vertex_buffer_layout(step_mode: wgpu::VertexStepMode) -> wgpu::VertexBufferLayout<'static> {
                wgpu::VertexBufferLayout {
                    array_stride: std::mem::size_of::<#name>() as u64,
                    step_mode,
                    attributes: &#name::VERTEX_ATTRIBUTES
                }
            }
        }
    )
}
// documented feature set + naga invariants for the fields of a vertex input struct
pub open spec fn field_ok(m: &naga::Module, f: naga::StructMember) -> bool {
    f.name is Some && lexes(f.name->0@) && 0 <= handle_index(f.ty) < vtys(m).len() && attr_supported(vtys(m)[handle_index(f.ty)].inner)
}
pub open spec fn fields_ok(m: &naga::Module, v: VIView) -> bool { forall|i: int| 0 <= i < v.1.len() ==> field_ok(m, (#[trigger] v.1[i]).1) }
pub open spec fn vertex_fields_wf(m: &naga::Module) -> bool { forall|v: VIView| #[trigger] is_vertex_struct(m, v) ==> fields_ok(m, v) }
// the list of impl blocks: one per vertex input struct (discovery_ok), each with its own attribute table
pub open spec fn vertex_impls_post(m: &naga::Module, items: Seq<Seq<Tok>>) -> bool {
    exists|vs: Seq<VIView>| #![trigger discovery_ok(m, vs)] discovery_ok(m, vs) && items == Seq::new(vs.len(), |i: int| vertex_impl_toks(m, vs[i]))
}
pub open spec fn vertex_methods_post(m: &naga::Module, toks: Seq<Tok>) -> bool {
    exists|items: Seq<Seq<Tok>>| #![trigger vertex_impls_post(m, items)] vertex_impls_post(m, items) && toks == flat(items, Seq::empty(), Seq::empty(), Seq::empty())
}

// ---------------- C07 / C12 / C14: vertex entry helpers ----------------
// the step-mode parameter and the buffer layout expression of one struct parameter
pub open spec fn step_param_toks(sname: Seq<char>) -> Seq<Tok> {
    let step_mode = seq![Tok::Id(snake(sname))];
    ts!(#step_mode: wgpu::VertexStepMode)
}
pub open spec fn layout_expr_toks(sname: Seq<char>) -> Seq<Tok> {
    let name = seq![Tok::Id(sname)];
    let step_mode = seq![Tok::Id(snake(sname))];
    ts!(#name::vertex_buffer_layout(#step_mode))
}
pub open spec fn vert_entry_toks(m: &naga::Module, e: &naga::EntryPoint) -> Option<Seq<Tok>> {
    if e.stage == naga::ShaderStage::Vertex {
        let fn_name = seq![Tok::Id(fmt1("{}_entry", FmtV::S(e.name@)))];
        let const_name = entry_const_name(e);                  // the SAME constant that entry_point_constants exports
        let inputs = entry_structs(m, e);                      // the struct parameters, in parameter order
        let step_params = flat(Seq::new(inputs.len(), |i: int| step_param_toks(inputs[i].0@)), Seq::empty(), Seq::empty(), ts!(,));
        let layouts = flat(Seq::new(inputs.len(), |i: int| layout_expr_toks(inputs[i].0@)), Seq::empty(), Seq::empty(), ts!(,));
        let n = seq![Tok::LitU(inputs.len() as int)];          // buffer count == number of struct parameters
        let overrides = overrides_param(m);
        let constants = constants_expr(m);
        let params = if inputs.len() == 0 { overrides } else { ts!(#step_params, #overrides) };
        Some(ts!(
            pub fn #fn_name(#params) -> VertexEntry<#n> {
                VertexEntry {
                    entry_point: #const_name,
                    buffers: [
                        #layouts
                    ],
                    constants: #constants
                }
            }
        ))
    } else { None }
}
pub open spec fn vertex_states_toks(m: &naga::Module) -> Seq<Tok> {
    let es = m.entry_points@;
    let items = somes(Seq::new(es.len(), |i: int| vert_entry_toks(m, &es[i])));
    if items.len() == 0 { Seq::empty() } else {
        let entries = flat(items, Seq::empty(), Seq::empty(), Seq::empty());
        ts!(
            #[derive(Debug)]
            pub struct VertexEntry<const N: usize> {
                pub entry_point: &'static str,
                pub buffers: [wgpu::VertexBufferLayout<'static>; N],
                pub constants: std::collections::HashMap<String, f64>,
            }

            pub fn vertex_state<'a, const N: usize>(
                module: &'a wgpu::ShaderModule,
                entry: &'a VertexEntry<N>,
            ) -> wgpu::VertexState<'a> {
                wgpu::VertexState {
                    module,
                    entry_point: Some(entry.entry_point),
                    buffers: &entry.buffers,
                    compilation_options: wgpu::PipelineCompilationOptions {
                        constants: &entry.constants,
                        ..Default::default()
                    },
                }
            }

            #entries
        )
    }
}

} // verus!
