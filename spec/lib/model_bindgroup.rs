// Token-level model of the bind group generators (C02, C03 visibility lookup, C04): pure specifications written
// from the property statements and from wgpu-core 24's validation rules (DESIGN.md Appendix B).  Nothing assumed here.
#![allow(unused_imports)]
use vstd::prelude::*;
use crate::prelude::*;
use crate::tokens::*;
use crate::model_common::*;
use crate::seq_lemmas::*;
use crate::wgpu;
use crate::{GroupData, GroupBinding};

verus! {



// ---------------- spec for bind_group (C04) ----------------
pub enum Kind { Buffer, Texture, Sampler, Unsupported }
pub open spec fn kind_of(t: &naga::Type) -> Kind {
    match t.inner {
        naga::TypeInner::Struct { .. } | naga::TypeInner::Array { .. } | naga::TypeInner::Scalar { .. }
        | naga::TypeInner::Vector { .. } | naga::TypeInner::Matrix { .. } => Kind::Buffer,
        naga::TypeInner::Image { .. } => Kind::Texture,
        naga::TypeInner::Sampler { .. } => Kind::Sampler,
        _ => Kind::Unsupported,
    }
}
pub open spec fn binding_ok(b: &GroupBinding) -> bool { b.name is Some && kind_of(b.binding_type) != Kind::Unsupported }
pub open spec fn resource_toks(b: &GroupBinding) -> Seq<Tok> {
    let n = seq![Tok::Id(b.name->0@)];
    match kind_of(b.binding_type) {
        Kind::Buffer => ts!(wgpu::BindingResource::Buffer(bindings.#n)),
        Kind::Texture => ts!(wgpu::BindingResource::TextureView(bindings.#n)),
        _ => ts!(wgpu::BindingResource::Sampler(bindings.#n)),
    }
}
pub open spec fn entry_toks(b: &GroupBinding) -> Seq<Tok> {
    let i = seq![Tok::LitU(b.binding_index as int)];
    let r = resource_toks(b);
    ts!(wgpu::BindGroupEntry { binding: #i, resource: #r, })
}
pub open spec fn bind_group_toks(group_no: u32, bs: Seq<GroupBinding>) -> Seq<Tok> {
    let bg = name_id("BindGroup", group_no);
    let bgl = name_id("BindGroupLayout", group_no);
    let ld = name_id("LAYOUT_DESCRIPTOR", group_no);
    let label = seq![Tok::LitS(fmt1("BindGroup{}", FmtV::U(group_no as int)))];
    let no = seq![Tok::LitU(group_no as int)];
    let entries = flat(Seq::new(bs.len(), |i: int| entry_toks(&bs[i])), Seq::empty(), Seq::empty(), ts!(,));
    ts!(
        impl #bg {
            pub fn get_bind_group_layout(device: &wgpu::Device) -> wgpu::BindGroupLayout {
                device.create_bind_group_layout(&#ld)
            }

            pub fn from_bindings(device: &wgpu::Device, bindings: #bgl) -> Self {
                let bind_group_layout = device.create_bind_group_layout(&#ld);
                let bind_group = device.create_bind_group(&wgpu::BindGroupDescriptor {
                    layout: &bind_group_layout,
                    entries: &[
                        #entries
                    ],
                    label: Some(#label),
                });
                Self(bind_group)
            }

            pub fn set<P: SetBindGroup>(&self, pass: &mut P) {
                pass.set_bind_group(#no, &self.0, &[]);
            }
        }
    )
}




// ---------------- C02: the layout type wgpu's validation expects for a shader resource ----------------
// Transcribed from wgpu-core 24.0.5 (DESIGN.md Appendix B): validation.rs Resource::check_binding_use (class equality,
// view dimension table, sampler comparison-ness) and device/resource.rs create_bind_group_layout (no filterable float
// with multisampled).  `expected_bt` is THE binding type those rules accept for the WGSL declaration, under the
// property's assumption that float textures are filterable (where wgpu allows it) and samplers filtering.
pub enum BufTy { Uniform, Storage { read_only: bool } }
pub enum Sample { Float { filterable: bool }, Sint, Uint, Depth }
pub enum ViewDim { D1, D2, D2Array, D3, Cube, CubeArray }
pub enum StAccess { ReadOnly, WriteOnly, ReadWrite, Atomic }
pub enum BT {
    Buffer(BufTy),
    Texture { sample: Sample, dim: ViewDim, multisampled: bool },
    StorageTexture { access: StAccess, format: naga::StorageFormat, dim: ViewDim },
    Sampler { comparison: bool },
}
pub open spec fn sa_has(a: naga::StorageAccess, bit: u32) -> bool { sa_bits(a) & bit == bit }
pub open spec fn expected_buf(space: naga::AddressSpace) -> Option<BufTy> {
    match space {
        naga::AddressSpace::Uniform => Some(BufTy::Uniform),
        // wgpu-core rebuilds LOAD | (STORE unless read_only) and demands equality with the shader's access
        naga::AddressSpace::Storage { access } => if sa_has(access, 1) { Some(BufTy::Storage { read_only: !sa_has(access, 2) }) } else { None },
        _ => None,
    }
}
pub open spec fn expected_dim(dim: naga::ImageDimension, arrayed: bool) -> Option<ViewDim> {
    match (dim, arrayed) {
        (naga::ImageDimension::D1, false) => Some(ViewDim::D1),
        (naga::ImageDimension::D2, false) => Some(ViewDim::D2),
        (naga::ImageDimension::D2, true) => Some(ViewDim::D2Array),
        (naga::ImageDimension::D3, false) => Some(ViewDim::D3),
        (naga::ImageDimension::Cube, false) => Some(ViewDim::Cube),
        (naga::ImageDimension::Cube, true) => Some(ViewDim::CubeArray),
        _ => None,
    }
}
pub open spec fn expected_access(a: naga::StorageAccess) -> Option<StAccess> {
    if sa_has(a, 4) { Some(StAccess::Atomic) }            // Atomic <-> LOAD|STORE|ATOMIC
    else if sa_has(a, 1) && sa_has(a, 2) { Some(StAccess::ReadWrite) }
    else if sa_has(a, 1) { Some(StAccess::ReadOnly) }
    else if sa_has(a, 2) { Some(StAccess::WriteOnly) }
    else { None }
}
pub open spec fn expected_bt(b: &GroupBinding) -> Option<BT> {
    match b.binding_type.inner {
        naga::TypeInner::Struct { .. } | naga::TypeInner::Array { .. } | naga::TypeInner::Scalar { .. }
        | naga::TypeInner::Vector { .. } | naga::TypeInner::Matrix { .. } =>
            match expected_buf(b.address_space) { Some(t) => Some(BT::Buffer(t)), None => None },
        naga::TypeInner::Image { dim, arrayed, class } => match expected_dim(dim, arrayed) {
            None => None,
            Some(vd) => match class {
                naga::ImageClass::Sampled { kind, multi } => match kind {
                    // create_bind_group_layout rejects Float{filterable: true} together with multisampled
                    naga::ScalarKind::Float => Some(BT::Texture { sample: Sample::Float { filterable: !multi }, dim: vd, multisampled: multi }),
                    naga::ScalarKind::Sint => Some(BT::Texture { sample: Sample::Sint, dim: vd, multisampled: multi }),
                    naga::ScalarKind::Uint => Some(BT::Texture { sample: Sample::Uint, dim: vd, multisampled: multi }),
                    _ => None,
                },
                naga::ImageClass::Depth { multi } => Some(BT::Texture { sample: Sample::Depth, dim: vd, multisampled: multi }),
                naga::ImageClass::Storage { format, access } => match expected_access(access) {
                    Some(a) => Some(BT::StorageTexture { access: a, format, dim: vd }),
                    None => None,
                },
            },
        },
        naga::TypeInner::Sampler { comparison } => Some(BT::Sampler { comparison }),
        _ => None,
    }
}
// the one class where the pinned tree is known to disagree with wgpu (known finding C02.msaa-float)
pub open spec fn msaa_float(b: &GroupBinding) -> bool {
    match b.binding_type.inner {
        naga::TypeInner::Image { class: naga::ImageClass::Sampled { kind: naga::ScalarKind::Float, multi: true }, .. } => true,
        _ => false,
    }
}
// canonical printing of a binding type (the wgpu 24 API names)
pub open spec fn buf_toks(t: BufTy) -> Seq<Tok> {
    match t {
        BufTy::Uniform => ts!(wgpu::BufferBindingType::Uniform),
        BufTy::Storage { read_only: false } => ts!(wgpu::BufferBindingType::Storage { read_only: false }),
        BufTy::Storage { read_only: true } => ts!(wgpu::BufferBindingType::Storage { read_only: true }),
    }
}
pub open spec fn dim_toks(d: ViewDim) -> Seq<Tok> {
    match d {
        ViewDim::D1 => ts!(wgpu::TextureViewDimension::D1),
        ViewDim::D2 => ts!(wgpu::TextureViewDimension::D2),
        ViewDim::D2Array => ts!(wgpu::TextureViewDimension::D2Array),
        ViewDim::D3 => ts!(wgpu::TextureViewDimension::D3),
        ViewDim::Cube => ts!(wgpu::TextureViewDimension::Cube),
        ViewDim::CubeArray => ts!(wgpu::TextureViewDimension::CubeArray),
    }
}
pub open spec fn sample_toks(s: Sample) -> Seq<Tok> {
    match s {
        Sample::Float { filterable: true } => ts!(wgpu::TextureSampleType::Float { filterable: true }),
        Sample::Float { filterable: false } => ts!(wgpu::TextureSampleType::Float { filterable: false }),
        Sample::Sint => ts!(wgpu::TextureSampleType::Sint),
        Sample::Uint => ts!(wgpu::TextureSampleType::Uint),
        Sample::Depth => ts!(wgpu::TextureSampleType::Depth),
    }
}
pub open spec fn access_toks(a: StAccess) -> Seq<Tok> {
    match a {
        StAccess::ReadOnly => ts!(wgpu::StorageTextureAccess::ReadOnly),
        StAccess::WriteOnly => ts!(wgpu::StorageTextureAccess::WriteOnly),
        StAccess::ReadWrite => ts!(wgpu::StorageTextureAccess::ReadWrite),
        StAccess::Atomic => ts!(wgpu::StorageTextureAccess::Atomic),
    }
}
pub open spec fn bt_toks(t: BT) -> Seq<Tok> {
    match t {
        BT::Buffer(b) => { let ty = buf_toks(b); ts!(wgpu::BindingType::Buffer { ty: #ty, has_dynamic_offset: false, min_binding_size: None, }) },
        BT::Texture { sample, dim, multisampled } => {
            let st = sample_toks(sample); let vd = dim_toks(dim); let ms = seq![Tok::LitBool(multisampled)];
            ts!(wgpu::BindingType::Texture { sample_type: #st, view_dimension: #vd, multisampled: #ms, })
        },
        BT::StorageTexture { access, format, dim } => {
            let a = access_toks(access); let f = seq![Tok::Id(fmt1("{:?}", FmtV::SF(format)))]; let vd = dim_toks(dim);
            ts!(wgpu::BindingType::StorageTexture { access: #a, format: wgpu::TextureFormat::#f, view_dimension: #vd, })
        },
        BT::Sampler { comparison: true } => ts!(wgpu::BindingType::Sampler(wgpu::SamplerBindingType::Comparison)),
        BT::Sampler { comparison: false } => ts!(wgpu::BindingType::Sampler(wgpu::SamplerBindingType::Filtering)),
    }
}
// visibility of a binding: the stage set recorded under its name, empty if none (a binding no entry point reaches)
pub open spec fn vis_bits(b: &GroupBinding, gs: Map<String, wgpu::ShaderStages>) -> u32 {
    if b.name is Some && gs.contains_key(b.name->0) { gs[b.name->0].bits } else { 0 }
}
pub open spec fn layout_entry_toks(b: &GroupBinding, bits: u32, t: BT) -> Seq<Tok> {
    let i = seq![Tok::LitU(b.binding_index as int)];
    let v = stages_toks(bits);
    let ty = bt_toks(t);
    ts!(wgpu::BindGroupLayoutEntry { binding: #i, visibility: #v, ty: #ty, count: None, })
}

pub open spec fn layout_descriptor_toks(group_no: u32, bs: Seq<GroupBinding>, gs: Map<String, wgpu::ShaderStages>) -> Seq<Tok> {
    let name = name_id("LAYOUT_DESCRIPTOR", group_no);
    let label = seq![Tok::LitS(fmt1("LayoutDescriptor{}", FmtV::U(group_no as int)))];
    let entries = flat(Seq::new(bs.len(), |i: int| layout_entry_toks(&bs[i], vis_bits(&bs[i], gs), expected_bt(&bs[i])->0)), Seq::empty(), Seq::empty(), ts!(,));
    ts!(
        const #name: wgpu::BindGroupLayoutDescriptor = wgpu::BindGroupLayoutDescriptor {
            label: Some(#label),
            entries: &[
                #entries
            ],
        };
    )
}






pub open spec fn field_ty_toks(b: &GroupBinding) -> Seq<Tok> {
    match kind_of(b.binding_type) {
        Kind::Buffer => ts!(wgpu::BufferBinding<'a>),
        Kind::Texture => ts!(&'a wgpu::TextureView),
        _ => ts!(&'a wgpu::Sampler),
    }
}
pub open spec fn field_toks(b: &GroupBinding) -> Seq<Tok> {
    let n = seq![Tok::Id(b.name->0@)];
    let t = field_ty_toks(b);
    ts!(pub #n: #t)
}
pub open spec fn bind_group_layout_toks(group_no: u32, bs: Seq<GroupBinding>) -> Seq<Tok> {
    let name = name_id("BindGroupLayout", group_no);
    let fields = flat(Seq::new(bs.len(), |i: int| field_toks(&bs[i])), Seq::empty(), Seq::empty(), ts!(,));
    ts!(
        #[derive(Debug)]
        pub struct #name<'a> {
            #fields
        }
    )
}



// ---------------- C04: the bind_groups module ----------------
pub open spec fn group_supported(d: &GroupData) -> bool {
    forall|i: int| 0 <= i < d.bindings@.len() ==> binding_ok(&#[trigger] d.bindings@[i]) && expected_bt(&d.bindings@[i]) is Some && !msaa_float(&d.bindings@[i])
}
pub open spec fn groups_supported(m: Map<u32, GroupData>) -> bool {
    forall|g: u32| #[trigger] m.contains_key(g) ==> group_supported(&m[g])
}
pub open spec fn group_item_toks(g: u32, bs: Seq<GroupBinding>, gs: Map<String, wgpu::ShaderStages>) -> Seq<Tok> {
    let name = name_id("BindGroup", g);
    let layout = bind_group_layout_toks(g, bs);
    let desc = layout_descriptor_toks(g, bs, gs);
    let imp = bind_group_toks(g, bs);
    ts!(
        #[derive(Debug)]
        pub struct #name(wgpu::BindGroup);
        #layout
        #desc
        #imp
    )
}
pub open spec fn field_decl_toks(g: u32) -> Seq<Tok> { let f = name_id("bind_group", g); let n = name_id("BindGroup", g); ts!(pub #f: &'a #n) }
pub open spec fn param_toks(g: u32) -> Seq<Tok> { let f = name_id("bind_group", g); let n = name_id("BindGroup", g); ts!(#f: &bind_groups::#n) }
pub open spec fn set_toks(g: u32) -> Seq<Tok> { let f = name_id("bind_group", g); ts!(#f.set(pass);) }
pub open spec fn set_bind_groups_toks(ks: Seq<u32>) -> Seq<Tok> {
    let params = flat(Seq::new(ks.len(), |i: int| param_toks(ks[i])), Seq::empty(), Seq::empty(), ts!(,));
    let sets = flat(Seq::new(ks.len(), |i: int| set_toks(ks[i])), Seq::empty(), Seq::empty(), Seq::empty());
    ts!(
        pub fn set_bind_groups<P: bind_groups::SetBindGroup>(
            pass: &mut P,
            #params
        ) {
            #sets
        }
    )
}
pub open spec fn bind_groups_module_toks(ks: Seq<u32>, m: Map<u32, GroupData>, gs: Map<String, wgpu::ShaderStages>) -> Seq<Tok> {
    if ks.len() == 0 { Seq::empty() } else {
        let items = flat(Seq::new(ks.len(), |i: int| group_item_toks(ks[i], m[ks[i]].bindings@, gs)), Seq::empty(), Seq::empty(), Seq::empty());
        let fields = flat(Seq::new(ks.len(), |i: int| field_decl_toks(ks[i])), Seq::empty(), Seq::empty(), ts!(,));
        let self_sets = flat(Seq::new(ks.len(), |i: int| set_toks(ks[i])), ts!(self.), Seq::empty(), Seq::empty());
        let sbg = set_bind_groups_toks(ks);
        ts!(
            pub mod bind_groups {
                #items

                #[derive(Debug, Copy, Clone)]
                pub struct BindGroups<'a> {
                    #fields
                }

                impl BindGroups<'_> {
                    pub fn set<P: SetBindGroup>(&self, pass: &mut P) {
                        #self_sets
                    }
                }

                // Support both compute and render passes.
                pub trait SetBindGroup {
                    fn set_bind_group(
                        &mut self,
                        index: u32,
                        bind_group: &wgpu::BindGroup,
                        offsets: &[wgpu::DynamicOffset],
                    );
                }
                impl SetBindGroup for wgpu::ComputePass<'_> {
                    fn set_bind_group(
                        &mut self,
                        index: u32,
                        bind_group: &wgpu::BindGroup,
                        offsets: &[wgpu::DynamicOffset],
                    ) {
                        self.set_bind_group(index, bind_group, offsets);
                    }
                }
                impl SetBindGroup for wgpu::RenderPass<'_> {
                    fn set_bind_group(
                        &mut self,
                        index: u32,
                        bind_group: &wgpu::BindGroup,
                        offsets: &[wgpu::DynamicOffset],
                    ) {
                        self.set_bind_group(index, bind_group, offsets);
                    }
                }
                impl SetBindGroup for wgpu::RenderBundleEncoder<'_> {
                    fn set_bind_group(
                        &mut self,
                        index: u32,
                        bind_group: &wgpu::BindGroup,
                        offsets: &[wgpu::DynamicOffset],
                    ) {
                        self.set_bind_group(index, bind_group, offsets);
                    }
                }
            }
            #sbg
                )
    }
}

// the keys() iterator of a BTreeMap<u32, _> enumerates the domain in ascending order
pub proof fn lemma_keys_iter<V>(m: Map<u32, V>, kr: Seq<&u32>)
    requires kr.unref().to_set() == m.dom(), vstd::std_specs::btree::increasing_seq(kr),
    ensures is_keys(kr.unref(), m.dom()), kr.unref().len() == kr.len(), forall|i: int| 0 <= i < kr.len() ==> kr.unref()[i] == *#[trigger] kr[i],
{
    broadcast use vstd::laws_cmp::group_laws_cmp, vstd::std_specs::btree::group_btree_axioms;
    let us = kr.unref();
    assert(vstd::laws_cmp::obeys_cmp::<u32>());
    assert(vstd::laws_cmp::obeys_cmp::<&u32>());
    vstd::std_specs::btree::axiom_increasing_seq_meaning::<&u32>(kr);
    assert forall|a: int, b: int| 0 <= a < b < us.len() implies us[a] < us[b] by {
        assert(<&u32 as vstd::std_specs::cmp::OrdSpec>::cmp_spec(&kr[a], &kr[b]) is Less);
    }
    assert forall|x: u32| us.contains(x) <==> m.dom().contains(x) by {
        if us.contains(x) { assert(us.to_set().contains(x)); }
        if m.dom().contains(x) { assert(us.to_set().contains(x)); }
    }
}




} // verus!
