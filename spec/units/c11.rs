//@props C11 C02 C04
//@rewrite `.eq(` => `.shim_eq(` :: rename of the provided trait method Iterator::eq, which Verus can neither call nor specify; the assumed contract is on ShimIterEq::shim_eq (spec/lib/iter_shims.rs)
//@strip-attrs derive|non_exhaustive|error :: thiserror's derive output and its helper attributes are outside Verus; the enum's variants and fields are kept
// Unit c11: bindgroup::get_bind_group_data against the complete C11 contract.
#![feature(allocator_api)]
#![recursion_limit = "4096"]
#![allow(unused_imports, unused_variables, unused_mut, dead_code, unused_braces, unused_parens)]
use vstd::prelude::*;
use vstd::std_specs::iter::IteratorSpec;
use vstd::seq_lib::*;
use vstd::std_specs::cmp::OrdSpec;
use std::collections::BTreeMap;
extern crate naga;
extern crate indexmap;
extern crate rustc_hash;
use naga::WithSpan;
#[path = "../../spec/lib/prelude.rs"] pub mod prelude;
#[path = "../../spec/lib/iter_shims.rs"] pub mod iter_shims;
use prelude::*;
use iter_shims::*;
#[path = "../../spec/lib/model_c11.rs"] pub mod model_c11;
use model_c11::*;

verus! {

//@item lib.rs::enum CreateModuleError
pub enum CreateModuleError {
    /// Bind group sets must be consecutive and start from 0.
    /// See `bind_group_layouts` for
    /// [PipelineLayoutDescriptor](https://docs.rs/wgpu/latest/wgpu/struct.PipelineLayoutDescriptor.html#).
    NonConsecutiveBindGroups,

    /// Each binding resource must be associated with exactly one binding index.
    DuplicateBinding { binding: u32 },

    /// The shader source could not be parsed.
    ParseError {
        error: naga::front::wgsl::ParseError,
    },

    /// The shader source could not be validated.
    ValidationError {
        error: WithSpan<naga::valid::ValidationError>,
    },
}
//@end

//@item bindgroup.rs::struct GroupData
pub struct GroupData<'a> {
    pub bindings: Vec<GroupBinding<'a>>,
}
//@end

//@item bindgroup.rs::struct GroupBinding
pub struct GroupBinding<'a> {
    pub name: Option<String>,
    pub binding_index: u32,
    pub binding_type: &'a naga::Type,
    pub address_space: naga::AddressSpace,
}
//@end

pub proof fn lemma_members(m: &naga::Module, g: u32, k: int)
    requires 0 <= k <= gv(m).len(),
    ensures
        forall|t: int| 0 <= t < members(m, g, k).len() ==> 0 <= #[trigger] members(m, g, k)[t] < k && bound(m, members(m, g, k)[t]) && grp(m, members(m, g, k)[t]) == g,
        forall|j: int| 0 <= j < k && bound(m, j) && grp(m, j) == g ==> exists|t: int| 0 <= t < members(m, g, k).len() && #[trigger] members(m, g, k)[t] == j,
    decreases k
{
    if k > 0 {
        lemma_members(m, g, k - 1);
        let r = members(m, g, k - 1);
        assert forall|j: int| 0 <= j < k && bound(m, j) && grp(m, j) == g implies exists|t: int| 0 <= t < members(m, g, k).len() && #[trigger] members(m, g, k)[t] == j by {
            if j < k - 1 {
                let t = choose|t: int| 0 <= t < r.len() && #[trigger] r[t] == j;
                assert(members(m, g, k)[t] == j);
            } else {
                assert(members(m, g, k)[r.len() as int] == j);
            }
        }
    }
}

// a strictly increasing sequence of n naturals below n is 0,1,..,n-1
pub proof fn lemma_incr_lower(s: Seq<int>, i: int)
    requires forall|a: int, b: int| 0 <= a < b < s.len() ==> s[a] < s[b], forall|a: int| 0 <= a < s.len() ==> 0 <= #[trigger] s[a], 0 <= i < s.len(),
    ensures s[i] >= i,
    decreases i
{
    if i > 0 { lemma_incr_lower(s, i - 1); }
}
pub proof fn lemma_incr_upper(s: Seq<int>, i: int)
    requires forall|a: int, b: int| 0 <= a < b < s.len() ==> s[a] < s[b], forall|a: int| 0 <= a < s.len() ==> #[trigger] s[a] < s.len(), 0 <= i < s.len(),
    ensures s[i] <= i,
    decreases s.len() - i
{
    if i < s.len() - 1 { lemma_incr_upper(s, i + 1); }
}

pub open spec fn keys_ok(gs: Map<u32, GroupData>, ks: Seq<&u32>) -> bool {
    &&& ks.len() == gs.dom().len()
    &&& forall|a: int, b: int| 0 <= a < b < ks.len() ==> *ks[a] < *ks[b]
    &&& forall|a: int| 0 <= a < ks.len() ==> gs.contains_key(*#[trigger] ks[a])
    &&& forall|g: u32| #[trigger] gs.contains_key(g) ==> exists|a: int| 0 <= a < ks.len() && *#[trigger] ks[a] == g
}
// if the sorted keys are 0,1,..,len-1 then the groups are dense
pub proof fn lemma_keys_dense(m: &naga::Module, gs: Map<u32, GroupData>, ks: Seq<&u32>, n: int)
    requires groups_ok(m, gs, n), n == gv(m).len(), keys_ok(gs, ks),
    ensures (forall|i: int| 0 <= i < ks.len() ==> *(#[trigger] ks[i]) == i) ==> dense(m, gs.len() as int),
{
    if forall|i: int| 0 <= i < ks.len() ==> *(#[trigger] ks[i]) == i {
        assert forall|g: u32| #[trigger] members(m, g, n).len() > 0 <==> (g as int) < gs.len() by {
            if (g as int) < gs.len() { assert(gs.contains_key(*ks[g as int])); }
            if gs.contains_key(g) { let a = choose|a: int| 0 <= a < ks.len() && *#[trigger] ks[a] == g; }
        }
    }
}
// if the groups are dense then the sorted keys are 0,1,..,len-1 (no cardinality argument needed)
pub proof fn lemma_dense_key_at(m: &naga::Module, gs: Map<u32, GroupData>, ks: Seq<&u32>, n: int, cnt: int, i: int)
    requires groups_ok(m, gs, n), n == gv(m).len(), keys_ok(gs, ks), dense(m, cnt), 0 <= i < ks.len(),
    ensures *ks[i] == i,
    decreases i
{
    if i > 0 { lemma_dense_key_at(m, gs, ks, n, cnt, i - 1); }
    assert(*ks[i] >= i);
    assert(gs.contains_key(*ks[i]));
    assert(members(m, *ks[i], n).len() > 0);
    assert((*ks[i] as int) < cnt);
    let g = i as u32;
    assert(members(m, g, n).len() > 0);
    assert(gs.contains_key(g));
    let a = choose|a: int| 0 <= a < ks.len() && *#[trigger] ks[a] == g;
    if a < i { lemma_dense_key_at(m, gs, ks, n, cnt, a); }
    if a > i { assert(*ks[i] < *ks[a]); }
}
pub proof fn lemma_dense_keys(m: &naga::Module, gs: Map<u32, GroupData>, ks: Seq<&u32>, n: int, cnt: int)
    requires groups_ok(m, gs, n), n == gv(m).len(), keys_ok(gs, ks), dense(m, cnt),
    ensures forall|i: int| 0 <= i < ks.len() ==> *(#[trigger] ks[i]) == i,
{
    assert forall|i: int| 0 <= i < ks.len() implies *(#[trigger] ks[i]) == i by {
        lemma_dense_key_at(m, gs, ks, n, cnt, i);
    }
}

//@fn bindgroup.rs::get_bind_group_data
pub fn get_bind_group_data(
    module: &naga::Module,
) -> «(r:» Result<BTreeMap<u32, GroupData>, CreateModuleError>«)
    requires
        module_wf(module), // [C11.pre] every type handle of a global is in range (naga's own invariant)
    ensures
        bgd_post(module, r), // [C11.post] [C04.group-data] [C02.group-data] (what the bind group generators are handed: C04's `exactly one field per WGSL variable of that group` and C02's `each resource exists at its @group/@binding` start here) duplicate -> DuplicateBinding(first repeated index); not dense -> NonConsecutiveBindGroups; else Ok(map) with every bound global once, in its own group, with its own index»
{
    «broadcast use axiom_arena_index_req, axiom_uarena_index_req;»
    // Use a BTree to sort type and field names by group index.
    // This isn't strictly necessary but makes the generated code cleaner.
    let mut groups = BTreeMap::new();
    «let ghost n = gv(module).len() as int;»

    for global_handle in «it:» module.global_variables.iter()
        «invariant it.iter.obeys_prophetic_iter_laws(), module_wf(module),
            n == gv(module).len(),
            it.seq().len() == arena_seq(&module.global_variables).len(),
            forall|i: int| 0 <= i < it.seq().len() ==> handle_index((#[trigger] it.seq()[i]).0) == i,
            no_dup_upto(module, it.index@),
            groups_ok(module, groups@, it.index@),»
    {
        «broadcast use axiom_arena_index_req, axiom_uarena_index_req;
        let ghost k = it.index@;
        let ghost gs0 = groups@;
        assert(global_handle == it.seq()[k]);»
        let global = &module.global_variables[global_handle.0];
        if let Some(binding) = &global.binding {
            «let ghost g = binding.group;
            proof { lemma_members(module, g, k); }»
            let group = groups.entry(binding.group).or_insert(GroupData {
                bindings: Vec::new(),
            });
            let binding_type = &module.types[module.global_variables[global_handle.0].ty];

            let group_binding = GroupBinding {
                name: global.name.clone(),
                binding_index: binding.binding,
                binding_type,
                address_space: global.space,
            };
            «assert(group_ok(module, group, g, k));»
            // Repeated bindings will probably cause a compile error.
            // We'll still check for it here just in case.
            if group
                .bindings
                .iter()
                .any(|g| «-> (o: bool) ensures o == (g.binding_index == binding.binding) {» g.binding_index == binding.binding «}»)
            {
                «proof {
                    // some earlier record of this group has the same binding index
                    let ms = members(module, g, k);
                    let t = choose|t: int| 0 <= t < group.bindings@.len() && group.bindings@[t].binding_index == binding.binding;
                    assert(rec_ok(module, &group.bindings@[t], ms[t]));
                    assert(same_slot(module, ms[t], k));
                    assert(dup_at(module, k));
                }»
                return Err(CreateModuleError::DuplicateBinding {
                    binding: binding.binding,
                });
            }
            «proof {
                // no earlier record has this slot
                assert(!dup_at(module, k)) by {
                    if dup_at(module, k) {
                        let j = choose|j: int| 0 <= j < k && #[trigger] same_slot(module, j, k);
                        let t = choose|t: int| 0 <= t < members(module, g, k).len() && #[trigger] members(module, g, k)[t] == j;
                        assert(rec_ok(module, &group.bindings@[t], j));
                        assert(group.bindings@[t].binding_index == binding.binding);
                        let rr = group.bindings@.as_ref()[t];
                        assert(rr.binding_index == binding.binding);
                    }
                }
            }
            let ghost old_b = group.bindings@;»
            group.bindings.push(group_binding);
            «proof {
                assert(gv(module)[k] == *global);
                assert(bound(module, k) && grp(module, k) == g && bnd(module, k) == binding.binding);
                assert(members(module, g, k + 1) == members(module, g, k).push(k));
                assert(rec_ok(module, &group_binding, k));
                assert forall|g2: u32| g2 != g implies #[trigger] members(module, g2, k + 1) == members(module, g2, k) by {}
            }
            assert(groups_ok(module, groups@, k + 1)) by {
                let gs1 = groups@;
                assert forall|g2: u32| #[trigger] gs1.contains_key(g2) <==> members(module, g2, k + 1).len() > 0 by {
                    if g2 != g { assert(members(module, g2, k + 1) == members(module, g2, k)); assert(gs0.contains_key(g2) == gs1.contains_key(g2)); }
                }
                assert forall|g2: u32| #[trigger] gs1.contains_key(g2) implies group_ok(module, &gs1[g2], g2, k + 1) by {
                    if g2 != g {
                        assert(members(module, g2, k + 1) == members(module, g2, k));
                        assert(gs0.contains_key(g2));
                        assert(gs1[g2] == gs0[g2]);
                    } else {
                        assert(gs1[g].bindings@ == old_b.push(group_binding));
                    }
                }
            }
        } else {
            proof {
                assert(gv(module)[k] == *global);
                assert(!bound(module, k));
                assert(!dup_at(module, k));
                assert forall|g2: u32| #[trigger] members(module, g2, k + 1) == members(module, g2, k) by {}
            }
            assert(groups_ok(module, groups@, k + 1));»
        }
    }
    «assert(it_done(module, groups@, n)) by { assert(groups_ok(module, groups@, n)); assert(no_dup_upto(module, n)); }
    let ghost mut gk;
    let ghost mut gf;
    let ghost mut gm;
    let ghost len = groups@.len() as int;
    let ghost gs = groups@;»
    if «{ let __m = { let __k =» groups.keys()«; proof { gk = __k; } __k }».map(«{ let __f =» |i«: &u32»| «-> (o: usize) ensures o == *i as usize {» *i as usize «}; proof { gf = __f; } __f }»)«; proof { gm = __m;
        let ks = gk.remaining();
        let ms = gm.remaining();
        broadcast use vstd::std_specs::btree::group_btree_axioms;
        vstd::std_specs::iter::map_postcondition(gk, gf, gm);
        assert(ks.len() == len);
        assert(ms.len() <= ks.len());
        assert(forall|i: int| 0 <= i < ms.len() ==> #[trigger] ms[i] == *ks[i] as usize);
        assert(keys_ok(gs, ks)) by {
            broadcast use vstd::laws_cmp::group_laws_cmp, vstd::std_specs::btree::group_btree_axioms;
            assert(vstd::laws_cmp::obeys_cmp::<u32>());
            assert(vstd::laws_cmp::obeys_cmp::<&u32>());
            vstd::std_specs::btree::axiom_increasing_seq_meaning::<&u32>(ks);
            assert(vstd::std_specs::btree::increasing_seq(ks));
            assert forall|a: int, b: int| 0 <= a < b < ks.len() implies *ks[a] < *ks[b] by {
                assert(<&u32 as OrdSpec>::cmp_spec(&ks[a], &ks[b]) is Less);
            }
            let us = ks.unref();
            assert(us.to_set() == gs.dom());
            assert forall|a: int| 0 <= a < ks.len() implies gs.contains_key(*#[trigger] ks[a]) by {
                assert(us[a] == *ks[a]);
                assert(us.to_set().contains(us[a]));
            }
            assert forall|g: u32| #[trigger] gs.contains_key(g) implies exists|a: int| 0 <= a < ks.len() && *#[trigger] ks[a] == g by {
                assert(us.to_set().contains(g));
                let a = choose|a: int| 0 <= a < us.len() && us[a] == g;
                assert(*ks[a] == g);
            }
        }
        lemma_keys_dense(module, gs, ks, n);
    } __m }».shim_eq(0..groups.len()) {
        «proof {
            let ks = gk.remaining();
            let ms = gm.remaining();
            assert(ms.len() == ks.len());
            assert forall|i: int| 0 <= i < ks.len() implies *(#[trigger] ks[i]) == i by {
                assert(ms[i] == *ks[i] as usize);
                assert(ms[i] == 0 + i);
            }
        }»
        Ok(groups)
    } else {
        «proof {
            if exists|cnt: int| dense(module, cnt) {
                let cnt = choose|cnt: int| dense(module, cnt);
                lemma_dense_keys(module, gs, gk.remaining(), n, cnt);
            }
        }»
        Err(CreateModuleError::NonConsecutiveBindGroups)
    }
}
//@end

} // verus!
fn main() {}
