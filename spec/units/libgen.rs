//@props C13 C14 C03
//@hoist-closure-patterns :: closure parameter patterns hoisted into a let (Verus accepts only variables as closure parameters)
//@rewrite `let [x, y, z] =` => `let __wg =` :: slice patterns are not supported by Verus: the array is bound to __wg and destructured by prelude::take3 in an inserted `let (x, y, z) = take3(__wg);`
//@rewrite `.filter_map(` => `.shim_filter_map(` :: provided trait method Iterator::filter_map: stand-in with the std meaning (spec/lib/iter_shims.rs)
//@rewrite `.find(` => `.shim_find(` :: provided trait method Iterator::find: stand-in with the std meaning (spec/lib/iter_shims.rs)
//@hoist-format-captures :: format! inline captures hoisted to positional arguments
#![feature(allocator_api)]
#![recursion_limit = "4096"]
#![allow(unused_imports, unused_variables, unused_mut, dead_code, unused_braces, unused_parens, unused_macros)]
use vstd::prelude::*;
use vstd::std_specs::iter::IteratorSpec;
use std::collections::{BTreeMap, HashSet};
extern crate naga;
extern crate case;
use case::CaseExt;
extern crate proc_macro2;
extern crate syn;
extern crate wgpu_types;
extern crate indexmap;
extern crate rustc_hash;
use proc_macro2::{TokenStream, Literal, Span};
use syn::Ident;
#[path = "../../spec/lib/prelude.rs"] pub mod prelude;
#[path = "../../spec/lib/iter_shims.rs"] pub mod iter_shims;
#[macro_use] #[path = "../../spec/lib/tokens.rs"] pub mod tokens;
#[path = "../../spec/lib/wgpu_shim.rs"] pub mod wgpu;
#[path = "../../spec/lib/seq_lemmas.rs"] pub mod seq_lemmas;
#[path = "../../spec/lib/model_common.rs"] pub mod model_common;
use prelude::*;
use iter_shims::*;
use tokens::*;
use seq_lemmas::*;
use model_common::*;
#[path = "../../spec/lib/model_lib.rs"] pub mod model_lib;
use model_lib::*;

verus! {

//@stub lib.rs::quote_shader_stages props=C13 proved-in=bindgroup_gen
«#[verifier::external_body]»
fn quote_shader_stages(stages: wgpu::ShaderStages) -> «(r:» TokenStream«)
    requires
        stages.bits < 8, // [C03.stages-pre] only VERTEX|FRAGMENT|COMPUTE bits occur in the stage map
    ensures
        ts_view(&r) == stages_toks(stages.bits), // [C03.stages-toks] the emitted expression denotes exactly this stage set: nothing missing, nothing added»
{ unimplemented!() }
//@end

//@fn lib.rs::compute_module props=C14
fn compute_module(module: &naga::Module) -> «(r:» TokenStream«)
    ensures
        ts_view(&r) == compute_module_toks(module.entry_points@), // [C14.compute-module] one workgroup constant + pipeline constructor per compute entry, in order; no module when there is none»
{
    «let ghost es = module.entry_points@;
    let ghost mut gv;»
    let entry_points: Vec<_> «= { let __v» = module
        .entry_points
        .iter()
        .shim_filter_map(|e| «-> (o: Option<TokenStream>) ensures (match o { Some(t) => Some(ts_view(&t)), None => None }) == compute_item(e)» {
            if e.stage == naga::ShaderStage::Compute {
                let workgroup_size_constant = workgroup_size(e);
                let create_pipeline = create_compute_pipeline(e);

                Some(quote! {
                    #workgroup_size_constant
                    #create_pipeline
                })
            } else {
                None
            }
        })«; proof {
            gv = __v;
            let ys = choose|ys: Seq<Option<TokenStream>>| #![trigger somes(ys)] ys.len() == es.len()
                && (forall|i: int| 0 <= i < ys.len() ==> (match #[trigger] ys[i] { Some(t) => Some(ts_view(&t)), None => None }) == compute_item(&es[i]))
                && __v.remaining() == somes(ys);
            let zs = Seq::new(es.len(), |i: int| compute_item(&es[i]));
            lemma_somes_toks(ys, zs);
            assert(toks_of(__v.remaining()) =~= somes(zs));
        } __v }»
        .collect();
    «proof {
        assert(entry_points@ == gv.remaining());
    }»

    if entry_points.is_empty() {
        // Don't include empty modules.
        quote!()
    } else {
        quote! {
            pub mod compute {
                #(#entry_points)*
            }
        }
    }
}
//@end

//@fn lib.rs::create_compute_pipeline props=C14
fn create_compute_pipeline(e: &naga::EntryPoint) -> «(r:» TokenStream«)
    ensures
        ts_view(&r) == pipeline_toks(e), // [C14.pipeline] create_{name}_pipeline targets exactly the WGSL entry name with the module's own shader and pipeline layout»
{
    // Compute pipeline creation has few parameters and can be generated.
    let pipeline_name = Ident::new(&format!("create_{}_pipeline", e.name), Span::call_site());
    let entry_point = &e.name;
    // TODO: Include a user supplied module name in the label?
    let label = format!("Compute Pipeline {}", e.name);
    quote! {
        pub fn #pipeline_name(device: &wgpu::Device) -> wgpu::ComputePipeline {
            let module = super::create_shader_module(device);
            let layout = super::create_pipeline_layout(device);
            device.create_compute_pipeline(&wgpu::ComputePipelineDescriptor {
                label: Some(#label),
                layout: Some(&layout),
                module: &module,
                entry_point: Some(#entry_point),
                compilation_options: Default::default(),
                cache: Default::default(),
            })
        }
    }
}
//@end

//@fn lib.rs::workgroup_size props=C14
fn workgroup_size(e: &naga::EntryPoint) -> «(r:» TokenStream«)
    ensures
        ts_view(&r) == workgroup_toks(e), // [C14.workgroup] {NAME}_WORKGROUP_SIZE: [u32; 3] = the entry's three numbers in x, y, z order»
{
    let name = Ident::new(
        &format!("{}_WORKGROUP_SIZE", e.name.to_uppercase()),
        Span::call_site(),
    );
    let __wg = e
        .workgroup_size
        .map(|s| «-> (o: Literal) ensures lit_view(&o) == Tok::LitU(s as int) {» Literal::usize_unsuffixed(s as usize) «});
    let (x, y, z) = take3(__wg»);
    quote!(pub const #name: [u32; 3] = [#x, #y, #z];)
}
//@end

//@fn lib.rs::push_constant_range_stages props=C13,C03
fn push_constant_range_stages(
    module: &naga::Module,
    global_stages: &BTreeMap<String, wgpu::ShaderStages>,
    entry_stages: wgpu::ShaderStages,
) -> «(r:» Option<(TokenStream, TokenStream)>«)
    requires
        globals_wf(module), // [C13.pre] type handles of globals are in range (naga invariant)
        stage_map_ok(global_stages@), entry_stages.bits < 8,
    ensures
        pc_post(module, global_stages@, entry_stages.bits, r), // [C13.range] [C03.push-constant-stages] None iff no push constant variable; else, for the first one: range 0..(WGSL size of its type) with stages PUSH_CONSTANT_STAGES, and the stage expression = stages using it, or all entry stages when nothing uses it»
{
    «broadcast use axiom_arena_index_req, axiom_uarena_index_req, vstd::laws_cmp::group_laws_cmp, vstd::std_specs::btree::group_btree_axioms, axiom_string_obeys_cmp;
    // Assume only one variable is used with var<push_constant> in WGSL.
    let ghost mut gi;»
    let (_, global) «= { let __f = { let __i» = module
        .global_variables
        .iter()«; proof { gi = __i;
            assert forall|i: int| 0 <= i < __i.remaining().len() implies *(#[trigger] __i.remaining()[i]).1 == globals(module)[i] by {}
        } __i }»
        .shim_find(|__p0| «-> (o: bool) ensures o == is_pc(__p0.1)» { let (_, g) = __p0; g.space == naga::AddressSpace::PushConstant })«; proof {
            if __f is None {
                assert forall|i: int| 0 <= i < globals(module).len() implies !is_pc(&#[trigger] globals(module)[i]) by {
                    assert(*gi.remaining()[i].1 == globals(module)[i]);
                }
            }
        } __f }»?;

    «let ghost k = choose|k: int| 0 <= k < gi.remaining().len() && *global == *(#[trigger] gi.remaining()[k]).1 && is_pc(gi.remaining()[k].1)
        && forall|i: int| 0 <= i < k ==> !is_pc((#[trigger] gi.remaining()[i]).1);
    proof {
        assert(first_pc(module, k)) by {
            assert(*gi.remaining()[k].1 == globals(module)[k]);
            assert forall|i: int| 0 <= i < k implies !is_pc(&#[trigger] globals(module)[i]) by { assert(*gi.remaining()[i].1 == globals(module)[i]); }
        }
        assert(*global == globals(module)[k]);
    }»
    let push_constant_size = module.types[global.ty].inner.size(module.to_ctx());

    // Set visibility to all stages that access this binding.
    // Use all entry points as a safe fallback.
    let shader_stages = global
        .name
        .as_ref()
        .and_then(|n| «-> (o: Option<wgpu::ShaderStages>) ensures o == (if global_stages@.contains_key(*n) { Some(global_stages@[*n]) } else { None }) {» global_stages.get(n).copied() «}»)
        .unwrap_or(entry_stages);

    let stages = quote_shader_stages(shader_stages);

    // Use a single push constant range for all shader stages.
    // This allows easily setting push constants in a single call with offset 0.
    let size = Literal::usize_unsuffixed(push_constant_size as usize);
    Some((
        quote! {
            wgpu::PushConstantRange {
                stages: PUSH_CONSTANT_STAGES,
                range: 0..#size
            }
        },
        stages,
    ))
}
//@end

//@stub lib.rs::indexed_name_to_ident proved-in=bindgroup_gen
«#[verifier::external_body]»
fn indexed_name_to_ident(name: &str, index: u32) -> «(r:» Ident«)
    ensures id_view(&r) == fmt2("{}{}", FmtV::S(name@), FmtV::U(index as int)),»
{ unimplemented!() }
//@end

} // verus!
fn main() {}
