//@props C20
//@cost-counter n :: update_stages_blocks update_stages add_types_recursive
// Unit cost: a ghost step counter on the REAL text of the two recursive walkers
//   wgsl::{update_stages_blocks, update_stages, global_shader_stages}  and  structs::add_types_recursive
// (the same items that units `stages` and `types` verify functionally; here they carry only what the cost argument needs).
// Every loop body and every call of add_types_recursive counts one step.  Contract (amortised, model_cost.rs):
//     steps + potential(visited after) <= potential(visited before) + size(of the block / function / type passed in)
// so expanding a callee must be paid for by its leaving the potential, which happens once per function per entry point.
// Sizes are weighted by 4 = 4 (slack for constant-factor changes; the code as it stands spends 1 per unit).
// global_shader_stages: steps <= entries * (4 + code size) - a polynomial, for every module, every call graph, no bound.
#![feature(allocator_api)]
#![recursion_limit = "4096"]
#![allow(unused_imports, unused_variables, unused_mut, dead_code, unused_braces, unused_parens, unused_must_use)]
use vstd::prelude::*;
use vstd::std_specs::iter::IteratorSpec;
use std::collections::{BTreeMap, HashSet};
extern crate naga;
extern crate indexmap;
extern crate rustc_hash;
use naga::{Handle, Type};
#[path = "../../spec/lib/prelude.rs"] pub mod prelude;
#[path = "../../spec/lib/wgpu_shim.rs"] pub mod wgpu;
use prelude::*;
#[path = "../../spec/lib/model_stages.rs"] pub mod model_stages;
use model_stages::*;
#[path = "../../spec/lib/model_reach.rs"] pub mod model_reach;
use model_reach::*;
#[path = "../../spec/lib/model_cost.rs"] pub mod model_cost;
use model_cost::*;

verus! {

// every function called anywhere in the block / function is an arena function (from model_stages::wf / fn_ok)
pub open spec fn calls_ok(m: &naga::Module, b: &naga::Block) -> bool { forall|c: int| #[trigger] block_calls(b, c) ==> 0 <= c < nfun(m) }

pub proof fn lemma_sub_calls_ok(m: &naga::Module, b: &naga::Block, i: int, k: int)
    requires calls_ok(m, b), 0 <= i < block_stmts(b).len(), 0 <= k < nsub(b, i),
    ensures calls_ok(m, &subblk(b, i, k)),
{
    assert forall|c: int| #[trigger] block_calls(&subblk(b, i, k), c) implies 0 <= c < nfun(m) by { lemma_sub_calls(m, b, i, k, c); }
}

//@stub wgsl.rs::naga_stages proved-in=stages
«#[verifier::external_body]»
fn naga_stages(stage: naga::ShaderStage) -> «(r:» wgpu::ShaderStages«)
    ensures r.bits == stage_bit(stage), // [C03.stage-bit] vertex -> VERTEX, fragment -> FRAGMENT, compute -> COMPUTE»
{ unimplemented!() }
//@end

//@fn wgsl.rs::update_stages_blocks
fn update_stages_blocks(
    module: &naga::Module,
    block: &naga::Block,
    global_stages: &mut BTreeMap<String, wgpu::ShaderStages>,
    stage: wgpu::ShaderStages,
    visited: &mut HashSet<naga::Handle<naga::Function>>,
) «-> (steps: Ghost<nat>)
    requires wf(module), calls_ok(module, block),
    ensures
        vsub(old(visited)@, final(visited)@),
        steps@ + fn_potential(module, final(visited)@) <= fn_potential(module, old(visited)@) + block_size(block), // [C20.blocks-cost] the steps spent in this block and in everything expanded from it are paid by the block's own size and by the potential lost: a function body is walked only while it is still in the potential, i.e. once
    decreases fn_potential(module, old(visited)@), 0nat, block_height(block), // [C20.blocks-measure]»
{
    «let ghost v0 = visited@;
    let ghost b0 = *block;
    let ghost mut n: nat = 0;»
    for statement in «it:» block.iter()
        «invariant
            v0 == old(visited)@, b0 == *block, wf(module), calls_ok(module, &b0),
            it.seq().len() == block_stmts(&b0).len(),
            forall|j: int| 0 <= j < it.seq().len() ==> *(#[trigger] it.seq()[j]) == block_stmts(&b0)[j],
            vsub(v0, visited@),
            n + fn_potential(module, visited@) <= fn_potential(module, v0) + stmts_size(&b0, it.index@ as int),»
    {
        «broadcast use axiom_arena_index_req, axiom_handle_key_model, axiom_mk_handle, vstd::std_specs::btree::group_btree_axioms, vstd::std_specs::hash::group_hash_axioms, vstd::laws_cmp::group_laws_cmp, axiom_string_obeys_cmp;
        let ghost j = it.index@ as int;
        let ghost v1 = visited@;
        assert(*it.seq()[j] == block_stmts(&b0)[j]);
        let ghost st = block_stmts(&b0)[j];
        proof { n = n + 1; lemma_stmts_size_step(&b0, j); lemma_pot_mono(module, v0, v1, nfun(module)); }»
        match statement {
            naga::Statement::Block(block) => {
                «proof { assert(sub_blocks(&st) =~= seq![*block]); lemma_sub_calls_ok(module, &b0, j, 0); axiom_block_height(&b0, j, 0); lemma_subs_size_step(&b0, j, 0); }
                let Ghost(s1) =» update_stages_blocks(module, block, global_stages, stage, visited);
                «proof { n = n + s1; }
                assert(n + fn_potential(module, visited@) <= fn_potential(module, v0) + stmts_size(&b0, j + 1));»
            }
            naga::Statement::If { accept, reject, .. } => {
                «proof { assert(sub_blocks(&st) =~= seq![*accept, *reject]); lemma_sub_calls_ok(module, &b0, j, 0); lemma_sub_calls_ok(module, &b0, j, 1);
                    axiom_block_height(&b0, j, 0); axiom_block_height(&b0, j, 1); lemma_subs_size_step(&b0, j, 0); lemma_subs_size_step(&b0, j, 1); }
                let Ghost(s1) =» update_stages_blocks(module, accept, global_stages, stage, visited);
                «let ghost v2 = visited@;
                proof { lemma_vsub_trans(v0, v1, v2); lemma_pot_mono(module, v0, v2, nfun(module)); }
                let Ghost(s2) =» update_stages_blocks(module, reject, global_stages, stage, visited);
                «proof { n = n + s1 + s2; lemma_vsub_trans(v1, v2, visited@); }
                assert(n + fn_potential(module, visited@) <= fn_potential(module, v0) + stmts_size(&b0, j + 1));»
            }
            naga::Statement::Switch { cases, .. } => {
                «proof { assert(sub_blocks(&st) =~= cases@.map_values(|c: naga::SwitchCase| c.body)); lemma_subs_size_zero(&b0, j); }
                let ghost n1 = n;»
                for c in «it2:» cases
                    «invariant
                        v0 == old(visited)@, b0 == *block, wf(module), calls_ok(module, &b0), vsub(v0, v1), vsub(v1, visited@),
                        it2.seq().len() == cases@.len(),
                        forall|k: int| 0 <= k < it2.seq().len() ==> *(#[trigger] it2.seq()[k]) == cases@[k],
                        sub_blocks(&st) =~= cases@.map_values(|c: naga::SwitchCase| c.body),
                        st == block_stmts(&b0)[j], 0 <= j < block_stmts(&b0).len(),
                        n1 <= n,
                        (n - n1) + fn_potential(module, visited@) <= fn_potential(module, v1) + subs_size(&b0, j, it2.index@ as int),»
                {
                    «let ghost k = it2.index@ as int;
                    let ghost v2 = visited@;
                    assert(*it2.seq()[k] == cases@[k]);
                    proof {
                        assert(sub_blocks(&st)[k] == c.body);
                        lemma_sub_calls_ok(module, &b0, j, k); axiom_block_height(&b0, j, k); lemma_subs_size_step(&b0, j, k);
                        lemma_vsub_trans(v0, v1, v2);
                        lemma_pot_mono(module, v0, v2, nfun(module));
                    }
                    let Ghost(s1) =» update_stages_blocks(module, &c.body, global_stages, stage, visited);
                    «proof { n = n + 1 + s1; lemma_vsub_trans(v1, v2, visited@); }»
                }
                «assert(n + fn_potential(module, visited@) <= fn_potential(module, v0) + stmts_size(&b0, j + 1));»
            }
            naga::Statement::Loop {
                body, continuing, ..
            } => {
                «proof { assert(sub_blocks(&st).len() == 2 && sub_blocks(&st)[0] == *body && sub_blocks(&st)[1] == *continuing); lemma_sub_calls_ok(module, &b0, j, 0); lemma_sub_calls_ok(module, &b0, j, 1);
                    axiom_block_height(&b0, j, 0); axiom_block_height(&b0, j, 1); lemma_subs_size_step(&b0, j, 0); lemma_subs_size_step(&b0, j, 1); }
                let Ghost(s1) =» update_stages_blocks(module, body, global_stages, stage, visited);
                «let ghost v2 = visited@;
                proof { lemma_vsub_trans(v0, v1, v2); lemma_pot_mono(module, v0, v2, nfun(module)); }
                let Ghost(s2) =» update_stages_blocks(module, continuing, global_stages, stage, visited);
                «proof { n = n + s1 + s2; lemma_vsub_trans(v1, v2, visited@); }
                assert(n + fn_potential(module, visited@) <= fn_potential(module, v0) + stmts_size(&b0, j + 1));»
            }
            naga::Statement::Call { function, .. } => {
                «let ghost c = handle_index(*function);
                proof {
                    assert(stmt_call(&st, c));
                    assert(calls_at(&b0, j, c));
                    lemma_block_calls(&b0, c);
                }»
                if visited.insert(*function) {
                    «let ghost v2 = visited@;
                    proof {
                        assert(visited@ =~= v1.insert(mk_handle(c)));
                        lemma_vsub_insert(v1, mk_handle(c));
                        lemma_vsub_trans(v0, v1, v2);
                        lemma_pot_insert(module, v1, c, nfun(module));
                        assert(fn_ok(module, &fun(module, c), c));
                    }
                    let Ghost(s1) =» update_stages(
                        module,
                        &module.functions[*function],
                        global_stages,
                        stage,
                        visited,
                    );
                    «proof { n = n + s1; lemma_vsub_trans(v1, v2, visited@); }»
                }
                «assert(vis_fn(v1, c) ==> visited@ == v1);
                assert(n + fn_potential(module, visited@) <= fn_potential(module, v0) + stmts_size(&b0, j + 1));»
            }
            _ => «{
                // (nothing is walked here; whatever the statement nests only makes the bound larger)
                assert(n + fn_potential(module, visited@) <= fn_potential(module, v0) + stmts_size(&b0, j + 1));»
                ()
            «}»,
        }
        «proof { lemma_vsub_trans(v0, v1, visited@); }»
    }
    «proof { lemma_block_size(&b0); }
    Ghost(n)»
}
//@end

//@fn wgsl.rs::update_stages
fn update_stages(
    module: &naga::Module,
    function: &naga::Function,
    global_stages: &mut BTreeMap<String, wgpu::ShaderStages>,
    stage: wgpu::ShaderStages,
    visited: &mut HashSet<naga::Handle<naga::Function>>,
) «-> (steps: Ghost<nat>)
    requires wf(module), fn_ok(module, function, nfun(module)),
    ensures
        vsub(old(visited)@, final(visited)@),
        steps@ + fn_potential(module, final(visited)@) <= fn_potential(module, old(visited)@) + fn_size(function), // [C20.fn-cost] one expansion costs the function's own size; whatever it expands in turn is paid by the potential those callees leave
    decreases fn_potential(module, old(visited)@), 1nat, 0nat, // [C20.fn-measure]»
{
    «broadcast use axiom_arena_index_req, axiom_handle_key_model, axiom_mk_handle, vstd::std_specs::btree::group_btree_axioms, vstd::std_specs::hash::group_hash_axioms, vstd::laws_cmp::group_laws_cmp, axiom_string_obeys_cmp;
    let ghost v0 = visited@;
    let ghost mut n: nat = 1;
    assert forall|c: int| #[trigger] block_calls(&function.body, c) implies 0 <= c < nfun(module) by { assert(fn_calls(function, c)); }
    // Search the function body to find function call statements
    let Ghost(s0) =» update_stages_blocks(module, &function.body, global_stages, stage, visited);
    «proof { n = n + s0; }»

    // Search the function body to find used globals.
    for (_, e) in «it:» function.expressions.iter()
        «invariant
            v0 == old(visited)@,
            it.iter.obeys_prophetic_iter_laws(),
            it.seq().len() == exprs(function).len(),
            forall|j: int| 0 <= j < it.seq().len() ==> *(#[trigger] it.seq()[j]).1 == exprs(function)[j],
            wf(module), fn_ok(module, function, nfun(module)),
            vsub(v0, visited@),
            n + fn_potential(module, visited@) <= fn_potential(module, v0) + 4 + block_size(&function.body) + 4 * it.index@,»
    {
        «broadcast use axiom_arena_index_req, axiom_handle_key_model, axiom_mk_handle, vstd::std_specs::btree::group_btree_axioms, vstd::std_specs::hash::group_hash_axioms, vstd::laws_cmp::group_laws_cmp, axiom_string_obeys_cmp;
        let ghost j = it.index@ as int;
        let ghost v1 = visited@;
        assert(*it.seq()[j].1 == exprs(function)[j]);
        proof { n = n + 1; lemma_pot_mono(module, v0, v1, nfun(module)); }»
        match e {
            naga::Expression::GlobalVariable(g) => {
                «assert(expr_global(&exprs(function)[j], handle_index(*g)));
                assert(fn_uses(function, handle_index(*g)));»
                let global = &module.global_variables[*g];
                if let Some(name) = &global.name {
                    let stages = global_stages
                        .entry(name.clone())
                        .or_insert(wgpu::ShaderStages::NONE);
                    *stages = stages.union(stage);
                }
                «assert(n + fn_potential(module, visited@) <= fn_potential(module, v0) + 4 + block_size(&function.body) + 4 * (j + 1));»
            }
            naga::Expression::CallResult(f) => {
                // Function call expressions
                «let ghost c = handle_index(*f);
                assert(expr_call(&exprs(function)[j], c));
                assert(fn_calls(function, c));»
                if visited.insert(*f) {
                    «let ghost v2 = visited@;
                    proof {
                        assert(visited@ =~= v1.insert(mk_handle(c)));
                        lemma_vsub_insert(v1, mk_handle(c));
                        lemma_vsub_trans(v0, v1, v2);
                        lemma_pot_insert(module, v1, c, nfun(module));
                        assert(fn_ok(module, &fun(module, c), c));
                    }
                    assert(0 <= c < nfun(module));
                    assert(fn_potential(module, v2) + fn_size(&fun(module, c)) == fn_potential(module, v1));
                    let Ghost(s1) =» update_stages(module, &module.functions[*f], global_stages, stage, visited);
                    «assert(s1 + fn_potential(module, visited@) <= fn_potential(module, v2) + fn_size(&fun(module, c)));
                    proof { n = n + s1; lemma_vsub_trans(v1, v2, visited@); }»
                }
                «assert(vis_fn(v1, c) ==> visited@ == v1);
                assert(n + fn_potential(module, visited@) <= fn_potential(module, v0) + 4 + block_size(&function.body) + 4 * (j + 1));»
            }
            _ => (),
        }
        «assert(n + fn_potential(module, visited@) <= fn_potential(module, v0) + 4 + block_size(&function.body) + 4 * (j + 1));
        proof { lemma_vsub_trans(v0, v1, visited@); }»
    }
    «Ghost(n)»
}
//@end

//@fn wgsl.rs::global_shader_stages
pub fn global_shader_stages(module: &naga::Module) -> «(r: (»BTreeMap<String, wgpu::ShaderStages>«, Ghost<nat>))
    requires wf(module), wf_entries(module),
    ensures
        r.1@ <= run_bound(module, module.entry_points@.len() as int), // [C20.run-cost] per entry point: one step, its own body, and every arena function at most once
        r.1@ <= module.entry_points@.len() * (4 + code_size(module)), // [C20.polynomial] the closed form: (number of entry points) x (4 + weighted size of the code) - independent of call depth and of the number of call sites of a shared helper»
{
    // Collect the shader stages for all entries that access a global variable.
    // This is referred to as being "statically accessed" in the WGSL specification.
    let mut global_stages = BTreeMap::new();
    «let ghost mut n: nat = 0;»

    for entry in «it:» &module.entry_points
        «invariant
            wf(module), wf_entries(module),
            it.seq().len() == module.entry_points@.len(),
            forall|k: int| 0 <= k < it.seq().len() ==> *(#[trigger] it.seq()[k]) == module.entry_points@[k],
            n <= run_bound(module, it.index@ as int),»
    {
        «broadcast use axiom_handle_key_model, vstd::std_specs::btree::group_btree_axioms, vstd::std_specs::hash::group_hash_axioms, vstd::laws_cmp::group_laws_cmp, axiom_string_obeys_cmp;
        let ghost j = it.index@ as int;
        assert(*it.seq()[j] == module.entry_points@[j]);
        assert(*entry == module.entry_points@[j]);»
        let stage = naga_stages(entry.stage);
        // Visit each called function at most once per entry point.
        let mut visited = HashSet::new();
        «proof { assert(fn_ok(module, &entry.function, nfun(module))); assert(visited@ =~= Set::empty()); }
        let Ghost(s1) =» update_stages(
            module,
            &entry.function,
            &mut global_stages,
            stage,
            &mut visited,
        );
        «proof { n = n + 1 + s1; }»
    }
    «proof { lemma_run_bound(module, module.entry_points@.len() as int); }

    (»global_stages«, Ghost(n))»
}
//@end

//@fn structs.rs::add_types_recursive
fn add_types_recursive(
    types: &mut HashSet<naga::Handle<naga::Type>>,
    module: &naga::Module,
    ty: Handle<Type>,
) «-> (steps: Ghost<nat>)
    requires
        types_wf(module),
        0 <= handle_index(ty) < ntypes(module),
    ensures
        smono(old(types)@, final(types)@),
        steps@ + type_potential(module, final(types)@) <= type_potential(module, old(types)@) + 4, // [C20.types-cost] a call costs one step; descending into the members / element type of a type is paid by that type leaving the potential, which happens once per type however many variables, members or arrays share it
    decreases unseen(module, old(types)@), // [C20.types-measure]»
{
    «broadcast use axiom_uarena_index_req, axiom_handle_key_model, axiom_mk_handle, vstd::std_specs::hash::group_hash_axioms;
    let ghost t = handle_index(ty);
    let ghost v0 = types@;
    let ghost mut n: nat = 1;»
    // Types can be shared, so only visit each type once.
    if !types.insert(ty) {
        «proof { assert(types@ == v0); }»
        return «Ghost(n)»;
    }
    «let ghost v1 = types@;
    proof {
        assert(v1 =~= v0.insert(mk_handle(t)));
        assert(!seen(v0, t));
        lemma_unseen_insert(module, v0, t);
        lemma_tpot_insert(module, v0, t, ntypes(module));
    }»

    match &module.types[ty].inner {
        naga::TypeInner::Pointer { base, .. } => «{ proof { assert(edge(module, t, handle_index(*base))); } let Ghost(s1) =» add_types_recursive(types, module, *base)«; proof { n = n + s1; lemma_smono_trans(v0, v1, types@); } }»,
        naga::TypeInner::Array { base, .. } => «{ proof { assert(edge(module, t, handle_index(*base))); } let Ghost(s1) =» add_types_recursive(types, module, *base)«; proof { n = n + s1; lemma_smono_trans(v0, v1, types@); } }»,
        naga::TypeInner::Struct { members, .. } => {
            for member in «it:» members
                «invariant
                    v0 == old(types)@, t == handle_index(ty), types_wf(module), 0 <= t < ntypes(module),
                    it.seq().len() == members@.len(),
                    forall|k: int| 0 <= k < it.seq().len() ==> *(#[trigger] it.seq()[k]) == members@[k],
                    (match ty_at(module, t).inner { naga::TypeInner::Struct { members: ms, .. } => ms@ == members@, _ => false }),
                    smono(v0, types@), smono(v1, types@), unseen(module, types@) < unseen(module, v0),
                    n + type_potential(module, types@) <= type_potential(module, v1) + 4 + 8 * it.index@,»
            {
                «broadcast use axiom_uarena_index_req, axiom_handle_key_model, axiom_mk_handle, vstd::std_specs::hash::group_hash_axioms;
                let ghost k = it.index@ as int;
                let ghost vk = types@;
                assert(*it.seq()[k] == members@[k]);
                let ghost c = handle_index(member.ty);
                proof { assert(edge(module, t, c)); }
                let Ghost(s1) =» add_types_recursive(types, module, member.ty);
                «proof {
                    n = n + 1 + s1;
                    lemma_unseen_mono(module, vk, types@);
                    lemma_smono_trans(v0, vk, types@); lemma_smono_trans(v1, vk, types@);
                }»
            }
        }
        naga::TypeInner::BindingArray { base, .. } => «{ proof { assert(edge(module, t, handle_index(*base))); } let Ghost(s1) =» add_types_recursive(types, module, *base)«; proof { n = n + s1; lemma_smono_trans(v0, v1, types@); } }»,
        _ => (),
    }
    «Ghost(n)»
}
//@end

} // verus!
fn main() {}
