//@props C05 C06 C08 C09 C18
//@strip-attrs derive :: derive output is outside Verus
//@derive-keep Clone|Copy
//@hoist-closure-patterns :: closure parameter patterns hoisted into a let (Verus accepts only variables as closure parameters)
//@hoist-format-captures :: format! inline captures hoisted to positional arguments
//@rewrite `== Some(*h)` => `.shim_opt_eq(Some(*h))` :: vstd declares Option's PartialEq::eq without a postcondition; stand-in stating structural equality (spec/lib/prelude.rs)
//@rewrite `.filter_map(` => `.shim_filter_map(` :: provided trait method Iterator::filter_map: stand-in with the std meaning (spec/lib/iter_shims.rs)
//@rewrite `.filter(` => `.shim_filter(` :: provided trait method Iterator::filter: stand-in with the std meaning (spec/lib/iter_shims.rs)
//@rewrite `.enumerate()` => `.shim_enumerate()` :: provided trait method Iterator::enumerate: stand-in with the std meaning (spec/lib/iter_shims.rs)
//@rewrite `.cloned()` => `.shim_cloned()` :: provided trait method Iterator::cloned: stand-in with the std meaning (spec/lib/iter_shims.rs)
// Unit structs: structs::{structs, rust_struct, struct_members, struct_has_rts_array_member}.
#![feature(allocator_api)]
#![recursion_limit = "4096"]
#![allow(unused_imports, unused_variables, unused_mut, dead_code, unused_braces, unused_parens, unused_macros)]
use vstd::prelude::*;
use vstd::std_specs::iter::IteratorSpec;
use std::collections::HashSet;
extern crate naga;
extern crate proc_macro2;
extern crate syn;
extern crate wgpu_types;
extern crate indexmap;
extern crate rustc_hash;
use naga::{Handle, Type};
use naga::valid::Capabilities as WgslCapabilities;
use proc_macro2::{TokenStream, Literal, Span};
use syn::Ident;
#[path = "../../spec/lib/prelude.rs"] pub mod prelude;
#[path = "../../spec/lib/iter_shims.rs"] pub mod iter_shims;
#[macro_use] #[path = "../../spec/lib/tokens.rs"] pub mod tokens;
#[path = "../../spec/lib/wgpu_shim.rs"] pub mod wgpu;
#[path = "../../spec/lib/model_common.rs"] pub mod model_common;
#[path = "../../spec/lib/model_types.rs"] pub mod model_types;
#[path = "../../spec/lib/model_reach.rs"] pub mod model_reach;
#[path = "../../spec/lib/naga_front.rs"] pub mod naga_front;
#[path = "../../spec/lib/model_structs.rs"] pub mod model_structs;
use prelude::*;
use iter_shims::*;
use tokens::*;
use model_common::*;
use model_types::*;
use model_reach::*;
use model_structs::*;

verus! {

//@item lib.rs::struct WriteOptions
#[derive(Copy, Clone)]
pub struct WriteOptions {
    /// Derive [bytemuck::Pod](https://docs.rs/bytemuck/latest/bytemuck/trait.Pod.html#)
    /// and [bytemuck::Zeroable](https://docs.rs/bytemuck/latest/bytemuck/trait.Zeroable.html#)
    /// for WGSL vertex input structs when `true`.
    pub derive_bytemuck_vertex: bool,

    /// Derive [bytemuck::Pod](https://docs.rs/bytemuck/latest/bytemuck/trait.Pod.html#)
    /// and [bytemuck::Zeroable](https://docs.rs/bytemuck/latest/bytemuck/trait.Zeroable.html#)
    /// for user defined WGSL structs for host-shareable types (uniform and storage buffers) when `true`.
    ///
    /// This will generate compile time assertions to check that the memory layout
    /// of structs and struct fields matches what is expected by WGSL.
    /// This does not account for all layout and alignment rules like storage buffer offset alignment.
    ///
    /// Most applications should instead handle these requirements more reliably at runtime using encase.
    pub derive_bytemuck_host_shareable: bool,

    /// Derive [encase::ShaderType](https://docs.rs/encase/latest/encase/trait.ShaderType.html#)
    /// for user defined WGSL structs for host-shareable types (uniform and storage buffers) when `true`.
    /// Use [MatrixVectorTypes::Glam] for best compatibility.
    pub derive_encase_host_shareable: bool,

    /// Derive [serde::Serialize](https://docs.rs/serde/1.0.159/serde/trait.Serialize.html)
    /// and [serde::Deserialize](https://docs.rs/serde/1.0.159/serde/trait.Deserialize.html)
    /// for user defined WGSL structs when `true`.
    pub derive_serde: bool,

    /// The format to use for matrix and vector types.
    pub matrix_vector_types: MatrixVectorTypes,

    /// Format the generated code with the `rustfmt` formatter used for `cargo fmt`.
    /// This invokes a separate process to run the `rustfmt` executable.
    /// For cases where `rustfmt` is not available
    /// or the generated code is not included in the src directory,
    /// leave this at its default value of `false`.
    pub rustfmt: bool,

    /// Perform semantic validation on the code.
    pub validate: Option<ValidationOptions>,
}
//@end

//@item lib.rs::struct ValidationOptions
#[derive(Copy, Clone)]
pub struct ValidationOptions {
    /// The IR capabilities to support.
    pub capabilities: WgslCapabilities,
}
//@end

//@item lib.rs::enum MatrixVectorTypes
#[derive(Clone, Copy)]
pub enum MatrixVectorTypes {
    /// Rust types like `[f32; 4]` or `[[f32; 4]; 4]`.
    Rust,

    /// `glam` types like `glam::Vec4` or `glam::Mat4`.
    /// Types not representable by `glam` like `mat2x3<f32>` will use the output from [MatrixVectorTypes::Rust].
    Glam,

    /// `nalgebra` types like `nalgebra::SVector<f64, 4>` or `nalgebra::SMatrix<f32, 2, 3>`.
    Nalgebra,
}
//@end

//@stub wgsl.rs::rust_type proved-in=wgsl_types
«#[verifier::external_body]»
pub fn rust_type(module: &naga::Module, ty: &naga::Type, format: MatrixVectorTypes) -> «(r:» TokenStream«)
    requires
        ty_supported(module, ty), // [C06.type-pre] a type of the module inside the documented feature set: every todo!()/panic! arm below is unreachable
    ensures
        ts_view(&r) == rty_toks(module, ty, format), // [C06.type] scalar table; vectors and matrices per representation; atomics -> scalar; fixed arrays keep their length (recursively); structs -> the emitted struct of the same name
    decreases ty_idx(module, ty),»
{ unimplemented!() }
//@end

//@stub structs.rs::add_types_recursive proved-in=types
«#[verifier::external_body]»
fn add_types_recursive(
    types: &mut HashSet<naga::Handle<naga::Type>>,
    module: &naga::Module,
    ty: Handle<Type>,
)
    «requires
        types_wf(module), // [C08.types-pre] naga's UniqueArena is built bottom-up
        type_call_ok(module, old(types)@, handle_index(ty)), // `ty` is a type of the module, and every finished type at or below `ty` already has its contents in the set (in-progress ancestors have larger handles)
    ensures
        smono(old(types)@, final(types)@), // [C08.closure-mono] nothing is removed
        all_reached(module, final(types)@, handle_index(ty)), // [C08.closure-complete] every type reachable from `ty` through members, arrays, runtime arrays, pointers, binding arrays is in the set
        new_reached(module, old(types)@, final(types)@, handle_index(ty)), // [C08.closure-sound] nothing is added that `ty` does not reach
        new_closed(module, old(types)@, final(types)@),
    decreases unseen(module, old(types)@), // [C20.types-measure] a type is expanded only when the seen set strictly grew: at most one expansion per type»
{ unimplemented!() }
//@end

//@fn structs.rs::struct_has_rts_array_member props=C09
fn struct_has_rts_array_member(members: &[naga::StructMember], module: &naga::Module) -> «(r:» bool«)
    requires
        forall|i: int| 0 <= i < members@.len() ==> 0 <= handle_index(#[trigger] members@[i].ty) < tys(module).len(),
    ensures
        r == has_rts(module, members@), // [C09.rts] whether the struct ends in (contains) a runtime-sized array»
{
    «broadcast use axiom_uarena_index_req;
    { let mut __it =» members.iter()«; let ghost it0 = __it; let __r = __it».any(|m| «-> (o: bool) requires 0 <= handle_index(m.ty) < tys(module).len() ensures o == is_rts(module, m)» {
        matches!(
            module.types[m.ty].inner,
            naga::TypeInner::Array {
                size: naga::ArraySize::Dynamic,
                ..
            }
        )
    })«; proof {
        let rem = it0.remaining();
        assert(rem.len() == members@.len());
        assert forall|i: int| 0 <= i < rem.len() implies *(#[trigger] rem[i]) == members@[i] by {}
        if __r {
            let idx = rem.len() - __it.remaining().len() - 1;
            assert(is_rts(module, rem[idx]));
            assert(is_rts(module, &members@[idx]));
        } else {
            assert forall|i: int| 0 <= i < members@.len() implies !is_rts(module, &#[trigger] members@[i]) by { assert(!is_rts(module, rem[i])); }
        }
    } __r» }
«}»
//@end

//@fn structs.rs::struct_members props=C06
fn struct_members(
    members: &[naga::StructMember],
    module: &naga::Module,
    options: WriteOptions,
) -> «(r:» Vec<TokenStream>«)
    requires
        members_ok(module, members@), // [C06.members-pre] named members of supported types; a runtime-sized array only as the last field
    ensures
        toks_of(r@) =~= fields_toks(module, members@, options.matrix_vector_types), // [C06.fields] one field per member in declaration order, same name, the Rust type of the member's WGSL type; a trailing runtime-sized array becomes `#[size(runtime)] pub name: Vec<T>`»
{
    «broadcast use axiom_uarena_index_req;
    let ghost ms = members@;
    let ghost mut ge;
    { let __r: Vec<TokenStream> = { let __e =» members
        .iter()
        .shim_enumerate()«; proof { ge = __e; } __e }»
        .map(|__p0| «-> (o: TokenStream) requires 0 <= __p0.0 < members@.len(), *__p0.1 == members@[__p0.0 as int], members_ok(module, members@) ensures ts_view(&o) == member_toks(module, __p0.1, options.matrix_vector_types)» { let (index, member) = __p0;
            «assert(member_ok(module, members@, index as int));»
            let member_name = Ident::new(member.name.as_ref().unwrap(), Span::call_site());
            let ty = &module.types[member.ty];

            if let naga::TypeInner::Array {
                base,
                size: naga::ArraySize::Dynamic,
                stride: _,
            } = &ty.inner
            {
                if index != members.len() - 1 {
                    panic!("Only the last field of a struct can be a runtime-sized array");
                }
                let element_type =
                    rust_type(module, &module.types[*base], options.matrix_vector_types);
                quote!(
                    #[size(runtime)]
                    pub #member_name: Vec<#element_type>
                )
            } else {
                let member_type = rust_type(module, ty, options.matrix_vector_types);
                quote!(pub #member_name: #member_type)
            }
        })
        .collect()«; proof {
            assert(__r@.len() == ms.len());
            assert forall|i: int| 0 <= i < ms.len() implies ts_view(&#[trigger] __r@[i]) == member_toks(module, &ms[i], options.matrix_vector_types) by {
                assert(*ge.remaining()[i].1 == ms[i]);
            }
        } __r» }
«}»
//@end

//@fn structs.rs::rust_struct props=C05,C06,C09
fn rust_struct(
    t: &naga::Type,
    members: &[naga::StructMember],
    layouter: &naga::proc::Layouter,
    t_handle: naga::Handle<naga::Type>,
    module: &naga::Module,
    options: WriteOptions,
    global_variable_types: &HashSet<Handle<Type>>,
) -> «(r:» TokenStream«)
    requires
        rust_struct_pre(t, members@, layouter, t_handle, module, options, global_variable_types@), // [C09.struct-pre] named struct with supported members, laid out by naga, and none of the three documented unsupported option combinations
    ensures
        ts_view(&r) == rust_struct_toks(module, t.name->0@, members@, wgsl_size(module, handle_index(t_handle)), options, global_variable_types@.contains(t_handle)), // [C06.struct-fields] [C09.derives] [C09.repr] [C05.asserts] non-builtin members in order under their names; Debug, Clone, PartialEq always, Copy and repr(C) unless runtime-sized; Pod/Zeroable, ShaderType, serde exactly as the switches say; with bytemuck host-shareable: a size assertion with the WGSL size and one offset assertion per field with its WGSL offset, otherwise none»
{
    «broadcast use axiom_handle_key_model, axiom_layouter_index_req;
    let ghost all = members@;
    let ghost sname = t.name->0@;
    let ghost host = global_variable_types@.contains(t_handle);»
    let struct_name = Ident::new(t.name.as_ref().unwrap(), Span::call_site());

    // Skip builtins since they don't require user specified data.
    «let ghost mut gf;
    let ghost mut gi;»
    let members: Vec<_> = «{ let __f = { let __i =» members
        .iter()«; proof { gi = __i; } __i }»
        .shim_filter(|m| «-> (o: bool) ensures o == !is_builtin(*m) {» !matches!(m.binding, Some(naga::Binding::BuiltIn(_))) «}»)«; proof { gf = __f; } __f }»
        .shim_cloned()
        .collect();
    «let ghost ms = user_members(all);
    proof {
        let refs = gi.remaining();
        assert(refs.len() == all.len());
        assert forall|i: int| 0 <= i < all.len() implies *(#[trigger] refs[i]) == all[i] by {}
        let bs = choose|bs: Seq<bool>| #![trigger keep(refs, bs)] bs.len() == refs.len()
            && (forall|i: int| 0 <= i < bs.len() ==> #[trigger] bs[i] == !is_builtin(refs[i])) && gf.remaining() == keep(refs, bs);
        lemma_keep_refs(all, refs, bs);
        assert(members@ =~= user_members(all));
        assert forall|i: int| 0 <= i < ms.len() implies (#[trigger] ms[i]).name is Some && 0 <= handle_index(ms[i].ty) < tys(module).len() by { assert(member_ok(module, ms, i)); }
    }
    assert(members@ == ms);»

    let assert_member_offsets: Vec<_> = members
        .iter()
        .map(|m| «-> (o: TokenStream) requires m.name is Some, t.name is Some ensures ts_view(&o) == offset_assert_toks(t.name->0@, m)» {
            let name = Ident::new(m.name.as_ref().unwrap(), Span::call_site());
            let rust_offset = quote!(std::mem::offset_of!(#struct_name, #name));

            let wgsl_offset = Literal::usize_unsuffixed(m.offset as usize);

            let assert_text = format!(
                "offset of {}.{} does not match WGSL",
                t.name.as_ref().unwrap(),
                m.name.as_ref().unwrap()
            );
            quote! {
                const _: () = assert!(#rust_offset == #wgsl_offset, #assert_text);
            }
        })
        .collect();

    «proof { assert(toks_of(assert_member_offsets@) =~= Seq::new(ms.len(), |i: int| offset_assert_toks(sname, &ms[i]))); }»
    let layout = layouter[t_handle];

    // TODO: Does the Rust alignment matter if it's copied to a buffer anyway?
    let struct_size = Literal::usize_unsuffixed(layout.size as usize);
    let assert_size_text = format!("size of {} does not match WGSL", t.name.as_ref().unwrap());
    let assert_size = quote! {
        const _: () = assert!(std::mem::size_of::<#struct_name>() == #struct_size, #assert_size_text);
    };

    let has_rts_array = struct_has_rts_array_member(&members, module);
    let members = struct_members(&members, module, options);
    «let ghost rts = has_rts(module, ms);»
    let mut derives = Vec::new();

    derives.push(quote!(Debug));
    if !has_rts_array {
        derives.push(quote!(Copy));
    }
    derives.push(quote!(Clone));
    derives.push(quote!(PartialEq));

    // Assume types used in global variables are host shareable and require validation.
    // This includes storage, uniform, and workgroup variables.
    // This also means types that are never used will not be validated.
    // Structs used only for vertex inputs do not require validation on desktop platforms.
    // Vertex input layout is handled already by setting the attribute offsets and types.
    // This allows vertex input field types without padding like vec3 for positions.
    let is_host_shareable = global_variable_types.contains(&t_handle);

    if has_rts_array && !options.derive_encase_host_shareable {
        panic!("Runtime-sized array fields are only supported with encase");
    }

    if options.derive_bytemuck_vertex && !is_host_shareable {
        if has_rts_array {
            panic!("Runtime-sized array fields are not supported with bytemuck");
        }
        derives.push(quote!(bytemuck::Pod));
        derives.push(quote!(bytemuck::Zeroable));
    }

    if options.derive_bytemuck_host_shareable && is_host_shareable {
        if has_rts_array {
            panic!("Runtime-sized array fields are not supported with bytemuck");
        }
        derives.push(quote!(bytemuck::Pod));
        derives.push(quote!(bytemuck::Zeroable));
    }

    if options.derive_encase_host_shareable && is_host_shareable {
        derives.push(quote!(encase::ShaderType));
    }

    if options.derive_serde {
        derives.push(quote!(serde::Serialize));
        derives.push(quote!(serde::Deserialize));
    }

    let assert_layout = if options.derive_bytemuck_host_shareable && is_host_shareable {
        // Assert that the Rust layout matches the WGSL layout.
        // Enable for bytemuck since it uses the Rust struct's memory layout.
        // Vertex structs have their layout manually specified and don't need validation.
        quote! {
            #assert_size
            #(#assert_member_offsets)*
        }
    } else {
        quote!()
    };

    «proof { assert(toks_of(derives@) =~= derive_list(options, host, rts)); }»
    let repr_c = if !has_rts_array {
        quote!(#[repr(C)])
    } else {
        quote!()
    };
    quote! {
        #repr_c
        #[derive(#(#derives),*)]
        pub struct #struct_name {
            #(#members),*
        }
        #assert_layout
    }
}
//@end


// the filter's decision in terms of the handle and the set actually built
pub open spec fn result_is_h(e: &naga::EntryPoint, h: naga::Handle<naga::Type>) -> bool { match e.function.result { Some(r) => r.ty == h, None => false } }
pub open spec fn arg_is_h(e: &naga::EntryPoint, h: naga::Handle<naga::Type>) -> bool { exists|a: int| 0 <= a < e.function.arguments@.len() && (#[trigger] e.function.arguments@[a]).ty == h }
pub open spec fn emitted_h(m: &naga::Module, gvt: Set<naga::Handle<naga::Type>>, h: naga::Handle<naga::Type>) -> bool {
    (!(exists|k: int| 0 <= k < m.entry_points@.len() && result_is_h(&#[trigger] m.entry_points@[k], h))
        && (exists|k: int| 0 <= k < m.entry_points@.len() && arg_is_h(&#[trigger] m.entry_points@[k], h)))
    || gvt.contains(h)
}
pub open spec fn emitted_in(m: &naga::Module, gvt: Set<naga::Handle<naga::Type>>, h: naga::Handle<naga::Type>, t: &naga::Type) -> bool {
    0 <= handle_index(h) < tys(m).len() && *t == tys(m)[handle_index(h)] && emitted_h(m, gvt, h)
}
pub open spec fn opt_ts(o: Option<TokenStream>) -> Option<Seq<Tok>> { match o { Some(t) => Some(ts_view(&t)), None => None } }
pub proof fn lemma_somes_toks(ys: Seq<Option<TokenStream>>, zs: Seq<Option<Seq<Tok>>>)
    requires ys.len() == zs.len(), forall|i: int| 0 <= i < ys.len() ==> #[trigger] zs[i] == opt_ts(ys[i]),
    ensures toks_of(somes(ys)) =~= somes(zs),
    decreases ys.len(),
{
    if ys.len() > 0 { lemma_somes_toks(ys.drop_last(), zs.drop_last()); assert(zs.last() == opt_ts(ys.last())); }
}
// handles are determined by their index, so the handle-level decision is the index-level one of the model
pub proof fn lemma_emitted_h(m: &naga::Module, gvt: Set<naga::Handle<naga::Type>>, h: naga::Handle<naga::Type>)
    requires forall|x: naga::Handle<naga::Type>| gvt.contains(x) == host_visible(m, handle_index(x)),
    ensures emitted_h(m, gvt, h) == emitted(m, handle_index(h)),
{
    broadcast use axiom_mk_handle;
    let i = handle_index(h);
    assert forall|e: naga::EntryPoint| result_is_h(&e, h) == result_is(&e, i) by {
        match e.function.result { Some(r) => { axiom_mk_handle(r.ty); axiom_mk_handle(h); }, None => {} }
    }
    assert forall|e: naga::EntryPoint| arg_is_h(&e, h) == arg_is(&e, i) by {
        if arg_is_h(&e, h) { let a = choose|a: int| 0 <= a < e.function.arguments@.len() && (#[trigger] e.function.arguments@[a]).ty == h; assert(handle_index(e.function.arguments@[a].ty) == i); }
        if arg_is(&e, i) { let a = choose|a: int| 0 <= a < e.function.arguments@.len() && handle_index(#[trigger] e.function.arguments@[a].ty) == i; axiom_mk_handle(e.function.arguments@[a].ty); axiom_mk_handle(h); }
    }
    assert((exists|k: int| 0 <= k < m.entry_points@.len() && result_is_h(&#[trigger] m.entry_points@[k], h)) == is_entry_result(m, i)) by {
        if is_entry_result(m, i) { let k = choose|k: int| 0 <= k < m.entry_points@.len() && result_is(&#[trigger] m.entry_points@[k], i); assert(result_is_h(&m.entry_points@[k], h)); }
        if exists|k: int| 0 <= k < m.entry_points@.len() && result_is_h(&#[trigger] m.entry_points@[k], h) { let k = choose|k: int| 0 <= k < m.entry_points@.len() && result_is_h(&#[trigger] m.entry_points@[k], h); assert(result_is(&m.entry_points@[k], i)); }
    }
    assert((exists|k: int| 0 <= k < m.entry_points@.len() && arg_is_h(&#[trigger] m.entry_points@[k], h)) == is_entry_arg(m, i)) by {
        if is_entry_arg(m, i) { let k = choose|k: int| 0 <= k < m.entry_points@.len() && arg_is(&#[trigger] m.entry_points@[k], i); assert(arg_is_h(&m.entry_points@[k], h)); }
        if exists|k: int| 0 <= k < m.entry_points@.len() && arg_is_h(&#[trigger] m.entry_points@[k], h) { let k = choose|k: int| 0 <= k < m.entry_points@.len() && arg_is_h(&#[trigger] m.entry_points@[k], h); assert(arg_is(&m.entry_points@[k], i)); }
    }
}
// what `slice.iter().any(p)` says, in terms of the slice: `before`/`after` are the iterator's remaining elements before and after the call
pub proof fn lemma_any_slice<T>(before: Seq<&T>, after: Seq<&T>, s: Seq<T>, r: bool, p: spec_fn(T) -> bool)
    requires before.len() == s.len(), forall|i: int| 0 <= i < s.len() ==> *(#[trigger] before[i]) == s[i],
        !r ==> forall|i: int| 0 <= i < s.len() ==> !p(*#[trigger] before[i]),
        r ==> after.len() < before.len() && p(*before[before.len() - after.len() - 1]),
    ensures r == (exists|i: int| 0 <= i < s.len() && p(#[trigger] s[i])),
{
    if r { let i = before.len() - after.len() - 1; assert(p(s[i])); }
    else { assert forall|i: int| 0 <= i < s.len() implies !p(#[trigger] s[i]) by { assert(!p(*before[i])); } }
}

//@fn structs.rs::structs props=C08,C05,C09,C18
pub fn structs(module: &naga::Module, options: WriteOptions) -> «(r:» TokenStream«)
    requires
        structs_pre(module, options), // [C08.pre] naga can lay out the module; type handles in range; every emitted struct is inside the documented feature set
    ensures
        ts_view(&r) == structs_toks(module, options), // [C08.emitted] [C18.arena-order] a struct is emitted iff it is reachable from the type of a module-scope variable, or is an entry parameter that is not an entry result; in arena order, once each; host-shareable = reachable from a module-scope variable»
{
    «broadcast use axiom_arena_index_req, axiom_uarena_index_req, axiom_handle_key_model, axiom_mk_handle;
    let ghost gs = gvars(module);
    let ghost n = tys(module).len() as int;»
    // Initialize the layout calculator provided by naga.
    let mut layouter = naga::proc::Layouter::default();
    layouter.update(module.to_ctx()).unwrap();

    let mut global_variable_types = HashSet::new();
    for g in «it:» module.global_variables.iter()
        «invariant
            it.iter.obeys_prophetic_iter_laws(), structs_pre(module, options), gs == gvars(module),
            it.seq().len() == gs.len(),
            forall|j: int| 0 <= j < it.seq().len() ==> *(#[trigger] it.seq()[j]).1 == gs[j],
            closed(module, global_variable_types@),
            forall|d: int| #[trigger] seen(global_variable_types@, d) <==> host_upto(module, it.index@ as int, d),»
    {
        «broadcast use axiom_arena_index_req, axiom_uarena_index_req, axiom_handle_key_model, axiom_mk_handle;
        let ghost k = it.index@ as int;
        let ghost v0 = global_variable_types@;
        assert(*it.seq()[k].1 == gs[k]);
        let ghost t = handle_index(g.1.ty);
        proof { lemma_call_ok_from_closed(module, v0, t); }»
        add_types_recursive(&mut global_variable_types, module, g.1.ty);
        «proof {
            let v1 = global_variable_types@;
            assert forall|a: int, b: int| seen(v1, a) && #[trigger] edge(module, a, b) implies seen(v1, b) by {
                if seen(v0, a) { assert(seen(v0, b)); }
            }
            assert forall|d: int| #[trigger] seen(v1, d) <==> host_upto(module, k + 1, d) by {
                if seen(v1, d) {
                    if seen(v0, d) { let g0 = choose|g0: int| 0 <= g0 < k && #[trigger] reach(module, handle_index(gs[g0].ty), d); assert(host_upto(module, k + 1, d)); }
                    else { assert(reach(module, handle_index(gs[k].ty), d)); }
                }
                if host_upto(module, k + 1, d) {
                    let g0 = choose|g0: int| 0 <= g0 < k + 1 && #[trigger] reach(module, handle_index(gs[g0].ty), d);
                    if g0 < k { assert(host_upto(module, k, d)); assert(seen(v0, d)); }
                }
            }
        }»
    }
    «let ghost gvt = global_variable_types@;
    proof {
        assert forall|h: naga::Handle<naga::Type>| gvt.contains(h) == host_visible(module, handle_index(h)) by {
            assert(seen(gvt, handle_index(h)) == gvt.contains(h));
            assert(host_upto(module, gs.len() as int, handle_index(h)) == host_visible(module, handle_index(h)));
        }
    }

    // Create matching Rust structs for WGSL structs.
    // This is a UniqueArena, so each struct will only be generated once.
    let ghost mut gi;
    let ghost mut gf;»
    let structs «= { let __m = { let __f = { let __i» = module
        .types
        .iter()«; proof { gi = __i; } __i }»
        .shim_filter(|__p0| «-> (o: bool) ensures o == emitted_h(module, global_variable_types@, __p0.0) /* [C08.filter] emitted iff reachable from a module-scope variable, or an entry parameter that is not an entry result */» { let (h, _) = __p0;
            // Check if the struct will need to be used by the user from Rust.
            // This includes function inputs like vertex attributes and global variables.
            // Shader stage function outputs will not be accessible from Rust.
            // Skipping internal structs helps avoid issues deriving encase or bytemuck.
            !«{ let mut __a =» module
                .entry_points
                .iter()«; let ghost a0 = __a; let __r = __a»
                .any(|e| «-> (o2: bool) ensures o2 == result_is_h(e, *h) {» e.function.result.as_ref().map(|r| «-> (o3: naga::Handle<naga::Type>) ensures o3 == r.ty {» r.ty «}»).shim_opt_eq(Some(*h)) «}»)«; proof {
                    lemma_any_slice(a0.remaining(), __a.remaining(), module.entry_points@, __r, |e: naga::EntryPoint| result_is_h(&e, *h));
                } __r }»
                && «{ let mut __b =» module
                    .entry_points
                    .iter()«; let ghost b0 = __b; let __r = __b»
                    .any(|e| «-> (o2: bool) ensures o2 == arg_is_h(e, *h) { { let mut __c =» e.function.arguments.iter()«; let ghost c0 = __c; let __r2 = __c».any(|a| «-> (o3: bool) ensures o3 == (a.ty == *h) {» a.ty == *h «}»)«; proof {
                        lemma_any_slice(c0.remaining(), __c.remaining(), e.function.arguments@, __r2, |a: naga::FunctionArgument| a.ty == *h);
                    } __r2 } }»)«; proof {
                        lemma_any_slice(b0.remaining(), __b.remaining(), module.entry_points@, __r, |e: naga::EntryPoint| arg_is_h(&e, *h));
                    } __r }»
                || global_variable_types.contains(h)
        })«; proof { gf = __f;
            let rem = gi.remaining();
            assert forall|i: int| 0 <= i < rem.len() implies handle_index((#[trigger] rem[i]).0) == i && *rem[i].1 == tys(module)[i] by {}
            let bs = choose|bs: Seq<bool>| #![trigger keep(rem, bs)] bs.len() == rem.len()
                && (forall|i: int| 0 <= i < bs.len() ==> #[trigger] bs[i] == emitted_h(module, gvt, rem[i].0)) && __f.remaining() == keep(rem, bs);
            assert forall|j: int| 0 <= j < __f.remaining().len() implies emitted_in(module, gvt, (#[trigger] __f.remaining()[j]).0, __f.remaining()[j].1) by {
                lemma_keep_elems(rem, bs, j);
                let i = choose|i: int| 0 <= i < rem.len() && bs[i] && #[trigger] rem[i] == keep(rem, bs)[j];
                assert(bs[i] == emitted_h(module, gvt, rem[i].0));
            }
        } __f }»
        .shim_filter_map(|__p1| «-> (o: Option<TokenStream>) requires structs_pre(module, options), emitted_in(module, global_variable_types@, __p1.0, __p1.1), layouter_module(&layouter) == Some(module), gvt == global_variable_types@,
                forall|h: naga::Handle<naga::Type>| gvt.contains(h) == host_visible(module, handle_index(h))
            ensures opt_ts(o) == struct_item(module, handle_index(__p1.0), options)» { let (t_handle, t) = __p1;
            «proof { lemma_emitted_h(module, gvt, t_handle); }»
            if let naga::TypeInner::Struct { members, .. } = &t.inner {
                Some(rust_struct(
                    t,
                    members,
                    &layouter,
                    t_handle,
                    module,
                    options,
                    &global_variable_types,
                ))
            } else {
                None
            }
        }); «proof {
            let rem = gi.remaining();
            assert(rem.len() == n);
            assert forall|i: int| 0 <= i < n implies handle_index((#[trigger] rem[i]).0) == i && *rem[i].1 == tys(module)[i] by {}
            let bs = choose|bs: Seq<bool>| #![trigger keep(rem, bs)] bs.len() == rem.len()
                && (forall|i: int| 0 <= i < bs.len() ==> #[trigger] bs[i] == emitted_h(module, gvt, rem[i].0)) && gf.remaining() == keep(rem, bs);
            let kept = keep(rem, bs);
            let ys = choose|ys: Seq<Option<TokenStream>>| #![trigger somes(ys)] ys.len() == kept.len()
                && (forall|j: int| 0 <= j < ys.len() ==> opt_ts(#[trigger] ys[j]) == struct_item(module, handle_index(kept[j].0), options))
                && elems(&__m) == somes(ys);
            let f = |p: (naga::Handle<naga::Type>, &naga::Type)| struct_item(module, handle_index(p.0), options);
            let ysv = Seq::new(ys.len(), |j: int| opt_ts(ys[j]));
            let zs = struct_items(module, options);
            assert forall|i: int| 0 <= i < n implies #[trigger] zs[i] == (if bs[i] { f(rem[i]) } else { None }) by {
                lemma_emitted_h(module, gvt, rem[i].0);
            }
            lemma_somes_keep(rem, bs, ysv, zs, f);
            lemma_somes_toks(ys, ysv);
            assert(toks_of(elems(&__m)) =~= somes(zs));
        } __m };»

    quote!(#(#structs)*)
}
//@end

} // verus!
fn main() {}
