//@props C02 C03 C04 C05 C06 C07 C08 C09 C11 C12 C13 C14 C15 C16 C17 C18 C19
//@strip-attrs derive|non_exhaustive|error :: derive output (thiserror, Debug, Clone, ..) is outside Verus; variants and fields are kept
//@derive-keep Clone|Copy
//@hoist-closure-patterns :: closure parameter patterns hoisted into a let (Verus accepts only variables as closure parameters)
//@hoist-format-captures :: format! inline captures hoisted to positional arguments
//@rewrite `.replace(` => `.shim_replace(` :: str::replace is generic over the unstable Pattern trait; stand-in returning an uninterpreted function of the inputs (spec/lib/print_model.rs)
//@rewrite `.strip_prefix(` => `.shim_strip_prefix(` :: generic over Pattern like replace; uninterpreted result (spec/lib/print_model.rs)
//@rewrite `.strip_suffix(` => `.shim_strip_suffix(` :: as strip_prefix
//@rewrite `.trim_start_matches(` => `.shim_trim_start_matches(` :: as strip_prefix
//@rewrite `.trim_end_matches(` => `.shim_trim_end_matches(` :: as strip_prefix
//@rewrite `.starts_with(` => `.shim_starts_with(` :: as strip_prefix
//@rewrite `.ends_with(` => `.shim_ends_with(` :: as strip_prefix
//@rewrite `.parse::<TokenStream>()` => `.shim_try_parse_tokens()` :: str::parse is generic over FromStr; stand-in: Ok exactly when the text lexes, then the tokens as an uninterpreted function of the text (spec/lib/tokens.rs)
//@rewrite `.to_string()` => `.shim_to_string()` :: ToString::to_string comes from the blanket impl over Display, which Verus cannot specify; stand-in with an uninterpreted function of the receiver (spec/lib/print_model.rs)
// Unit libmain: lib::{create_shader_module, create_shader_module_embedded, create_shader_module_inner, pretty_print, pretty_print_rustfmt}.
#![feature(allocator_api)]
#![recursion_limit = "4096"]
#![allow(unused_imports, unused_variables, unused_mut, dead_code, unused_braces, unused_parens, unused_macros)]
use vstd::prelude::*;
use vstd::std_specs::iter::IteratorSpec;
use std::collections::{BTreeMap, HashSet};
extern crate naga;
extern crate proc_macro2;
extern crate syn;
extern crate prettyplease;
extern crate wgpu_types;
extern crate indexmap;
extern crate rustc_hash;
use proc_macro2::{TokenStream, Literal, Span};
use syn::Ident;
use naga::{valid::ValidationFlags, WithSpan};
use naga::valid::Capabilities as WgslCapabilities;
#[path = "../../spec/lib/prelude.rs"] pub mod prelude;
#[path = "../../spec/lib/iter_shims.rs"] pub mod iter_shims;
#[macro_use] #[path = "../../spec/lib/tokens.rs"] pub mod tokens;
#[path = "../../spec/lib/wgpu_shim.rs"] pub mod wgpu;
#[path = "../../spec/lib/seq_lemmas.rs"] pub mod seq_lemmas;
#[path = "../../spec/lib/model_common.rs"] pub mod model_common;
#[path = "../../spec/lib/model_c11.rs"] pub mod model_c11;
#[path = "../../spec/lib/model_bindgroup.rs"] pub mod model_bindgroup;
#[path = "../../spec/lib/model_lib.rs"] pub mod model_lib;
#[path = "../../spec/lib/model_types.rs"] pub mod model_types;
#[path = "../../spec/lib/model_reach.rs"] pub mod model_reach;
#[path = "../../spec/lib/model_structs.rs"] pub mod model_structs;
#[path = "../../spec/lib/model_consts.rs"] pub mod model_consts;
#[path = "../../spec/lib/model_entry.rs"] pub mod model_entry;
#[path = "../../spec/lib/vec_shims.rs"] pub mod vec_shims;
#[path = "../../spec/lib/model_vertex.rs"] pub mod model_vertex;
#[path = "../../spec/lib/model_stages.rs"] pub mod model_stages;
#[path = "../../spec/lib/model_main.rs"] pub mod model_main;
#[path = "../../spec/lib/print_model.rs"] pub mod print_model;
#[path = "../../spec/lib/naga_front.rs"] pub mod naga_front;
use prelude::*;
use iter_shims::*;
use tokens::*;
use seq_lemmas::*;
use model_common::*;
use model_c11::*;
use model_bindgroup::*;
use model_lib::*;
use model_types::*;
use model_reach::*;
use model_structs::*;
use model_consts::{consts_wf, consts_items, overrides_supported, overrides_toks};
use model_entry::{entries_wf, entry_consts_toks, fragment_states_toks};
use model_vertex::{vertex_args_wf, vertex_states_toks, vertex_fields_wf, vertex_methods_post};
use model_main::*;
use print_model::*;
use naga_front::*;
use print_model::process_model::{Command, Stdio};
use print_model::process_model::Write;

verus! {

//@item lib.rs::enum CreateModuleError


pub enum CreateModuleError {
    /// Bind group sets must be consecutive and start from 0.
    /// See `bind_group_layouts` for
    /// [PipelineLayoutDescriptor](https://docs.rs/wgpu/latest/wgpu/struct.PipelineLayoutDescriptor.html#).
    
    NonConsecutiveBindGroups,

    /// Each binding resource must be associated with exactly one binding index.
    
    DuplicateBinding { binding: u32 },

    /// The shader source could not be parsed.
    
    ParseError {
        error: naga::front::wgsl::ParseError,
    },

    /// The shader source could not be validated.
    
    ValidationError {
        error: WithSpan<naga::valid::ValidationError>,
    },
}
//@end

//@item lib.rs::struct WriteOptions
#[derive(Copy, Clone)]
pub struct WriteOptions {
    /// Derive [bytemuck::Pod](https://docs.rs/bytemuck/latest/bytemuck/trait.Pod.html#)
    /// and [bytemuck::Zeroable](https://docs.rs/bytemuck/latest/bytemuck/trait.Zeroable.html#)
    /// for WGSL vertex input structs when `true`.
    pub derive_bytemuck_vertex: bool,

    /// Derive [bytemuck::Pod](https://docs.rs/bytemuck/latest/bytemuck/trait.Pod.html#)
    /// and [bytemuck::Zeroable](https://docs.rs/bytemuck/latest/bytemuck/trait.Zeroable.html#)
    /// for user defined WGSL structs for host-shareable types (uniform and storage buffers) when `true`.
    ///
    /// This will generate compile time assertions to check that the memory layout
    /// of structs and struct fields matches what is expected by WGSL.
    /// This does not account for all layout and alignment rules like storage buffer offset alignment.
    ///
    /// Most applications should instead handle these requirements more reliably at runtime using encase.
    pub derive_bytemuck_host_shareable: bool,

    /// Derive [encase::ShaderType](https://docs.rs/encase/latest/encase/trait.ShaderType.html#)
    /// for user defined WGSL structs for host-shareable types (uniform and storage buffers) when `true`.
    /// Use [MatrixVectorTypes::Glam] for best compatibility.
    pub derive_encase_host_shareable: bool,

    /// Derive [serde::Serialize](https://docs.rs/serde/1.0.159/serde/trait.Serialize.html)
    /// and [serde::Deserialize](https://docs.rs/serde/1.0.159/serde/trait.Deserialize.html)
    /// for user defined WGSL structs when `true`.
    pub derive_serde: bool,

    /// The format to use for matrix and vector types.
    pub matrix_vector_types: MatrixVectorTypes,

    /// Format the generated code with the `rustfmt` formatter used for `cargo fmt`.
    /// This invokes a separate process to run the `rustfmt` executable.
    /// For cases where `rustfmt` is not available
    /// or the generated code is not included in the src directory,
    /// leave this at its default value of `false`.
    pub rustfmt: bool,

    /// Perform semantic validation on the code.
    pub validate: Option<ValidationOptions>,
}
//@end

//@item lib.rs::struct ValidationOptions
#[derive(Copy, Clone)]
pub struct ValidationOptions {
    /// The IR capabilities to support.
    pub capabilities: WgslCapabilities,
}
//@end

//@item lib.rs::enum MatrixVectorTypes
#[derive(Clone, Copy)]
pub enum MatrixVectorTypes {
    /// Rust types like `[f32; 4]` or `[[f32; 4]; 4]`.
    Rust,

    /// `glam` types like `glam::Vec4` or `glam::Mat4`.
    /// Types not representable by `glam` like `mat2x3<f32>` will use the output from [MatrixVectorTypes::Rust].
    Glam,

    /// `nalgebra` types like `nalgebra::SVector<f64, 4>` or `nalgebra::SMatrix<f32, 2, 3>`.
    Nalgebra,
}
//@end

//@item bindgroup.rs::struct GroupData
pub struct GroupData<'a> {
    pub bindings: Vec<GroupBinding<'a>>,
}
//@end

//@item bindgroup.rs::struct GroupBinding
pub struct GroupBinding<'a> {
    pub name: Option<String>,
    pub binding_index: u32,
    pub binding_type: &'a naga::Type,
    pub address_space: naga::AddressSpace,
}
//@end

// ---- callees: real signatures (extracted), contracts proved in the named unit or, where the callee's unit does not
// ---- exist yet, abstract ("the result is this uninterpreted function of the arguments", precondition abstract too) ----
//@stub bindgroup.rs::get_bind_group_data proved-in=c11
«#[verifier::external_body]»
pub fn get_bind_group_data(
    module: &naga::Module,
) -> «(r:» Result<BTreeMap<u32, GroupData>, CreateModuleError>«)
    requires
        module_wf(module), // [C11.pre] every type handle of a global is in range (naga's own invariant)
    ensures
        bgd_post(module, r), // [C11.post] duplicate -> DuplicateBinding(first repeated index); not dense -> NonConsecutiveBindGroups; else Ok(map) with every bound global once, in its own group, with its own index»
{ unimplemented!() }
//@end

//@stub bindgroup.rs::bind_groups_module proved-in=bindgroup_gen
«#[verifier::external_body]»
pub fn bind_groups_module(
    bind_group_data: &BTreeMap<u32, GroupData>,
    global_stages: &BTreeMap<String, wgpu::ShaderStages>,
) -> «(r:» TokenStream«)
    requires
        groups_supported(bind_group_data@), // [C04.module-pre] documented feature set for every binding of every group
        stage_map_ok(global_stages@),
    ensures
        forall|ks: Seq<u32>| is_keys(ks, bind_group_data@.dom()) ==> ts_view(&r) == #[trigger] bind_groups_module_toks(ks, bind_group_data@, global_stages@), // [C04.module] per group (ascending): its struct, resource struct, layout descriptor and impl; BindGroups has one field per group; set_bind_groups and BindGroups::set call bind_group{k}.set(pass) exactly once per group k; the three SetBindGroup impls forward (index, bind_group, offsets) unchanged»
{ unimplemented!() }
//@end

pub mod wgsl {
    use super::*;
    use crate::model_stages::{wf, wf_entries, bounded, gss_exact, gss_complete, entry_bits};
//@stub wgsl.rs::global_shader_stages proved-in=stages
«#[verifier::external_body]»
pub fn global_shader_stages(module: &naga::Module) -> «(r:» BTreeMap<String, wgpu::ShaderStages>«)
    requires wf(module), wf_entries(module),
    ensures
        bounded(r@), // [C03.bounded] only VERTEX | FRAGMENT | COMPUTE bits occur in any visibility
        gss_exact(module, r@, module.entry_points@.len() as int), // [C03.exact] no unused stage is ever added: every stage bit of a visibility is owed to an entry point of that stage that statically reaches a global of that name, and a binding nothing reaches has no entry (empty visibility)
        gss_complete(module, r@, module.entry_points@.len() as int), // [C03.complete] no using stage is ever missing: a global reachable from an entry point of stage S (through any chain of calls, any nesting) has S in its visibility»
{ unimplemented!() }
//@end

//@stub wgsl.rs::entry_stages proved-in=stages
«#[verifier::external_body]»
pub fn entry_stages(module: &naga::Module) -> «(r:» wgpu::ShaderStages«)
    ensures
        r.bits == entry_bits(module.entry_points@), // [C13.entry-stages] the union of the stages that have an entry point
        r.bits < 8,»
{ unimplemented!() }
//@end

}
pub mod structs {
    use super::*;
//@stub structs.rs::structs proved-in=structs
«#[verifier::external_body]»
pub fn structs(module: &naga::Module, options: WriteOptions) -> «(r:» TokenStream«)
    requires
        structs_pre(module, options), // [C08.pre] naga can lay out the module; type handles in range; every emitted struct is inside the documented feature set
    ensures
        ts_view(&r) == structs_toks(module, options), // [C08.emitted] [C18.arena-order] a struct is emitted iff it is reachable from the type of a module-scope variable, or is an entry parameter that is not an entry result; in arena order, once each; host-shareable = reachable from a module-scope variable»
{ unimplemented!() }
//@end

}
pub mod consts {
    use super::*;
//@stub consts.rs::consts proved-in=consts
«#[verifier::external_body]»
pub fn consts(module: &naga::Module) -> «(r:» Vec<TokenStream>«)
    requires
        consts_wf(module), // [C15.pre] expression and type handles in range (naga invariant)
    ensures
        toks_of(r@) =~= consts_items(module), // [C15.items] every named constant of scalar type: `pub const NAME: TY = VALUE;` with the Rust type of the WGSL type and a literal carrying exactly the constant-evaluated value; every other constant: no tokens; arena order»
{ unimplemented!() }
//@end

}
//@stub consts.rs::pipeline_overridable_constants proved-in=consts
«#[verifier::external_body]»
pub fn pipeline_overridable_constants(module: &naga::Module) -> «(r:» TokenStream«)
    requires
        overrides_supported(module), // [C12.pre] overrides are named, of a supported scalar type, type handles in range
    ensures
        ts_view(&r) == overrides_toks(module), // [C12.struct] one field per override in order (Option<T> exactly when there is a default); the map has every required override and inserts exactly the optional ones that are set, keyed by decimal @id or else by name, value as f64 (bool as 1.0/0.0); nothing is emitted when there are no overrides»
{ unimplemented!() }
//@end

//@stub entry.rs::vertex_struct_methods proved-in=vertex
«#[verifier::external_body]»
pub fn vertex_struct_methods(module: &naga::Module) -> «(r:» TokenStream«)
    requires
        vertex_args_wf(module), vertex_fields_wf(module),
    ensures
        vertex_methods_post(module, ts_view(&r)), // [C07.methods] the vertex section of the output is exactly those impl blocks, one after the other»
{ unimplemented!() }
//@end

//@stub entry.rs::entry_point_constants proved-in=entry
«#[verifier::external_body]»
pub fn entry_point_constants(module: &naga::Module) -> «(r:» TokenStream«)
    ensures
        ts_view(&r) == entry_consts_toks(module.entry_points@), // [C14.entry-consts] one `pub const ENTRY_{UPPER}: &str = "exact WGSL name";` per entry point, in order»
{ unimplemented!() }
//@end

//@stub entry.rs::vertex_states proved-in=vertex
«#[verifier::external_body]»
pub fn vertex_states(module: &naga::Module) -> «(r:» TokenStream«)
    requires
        vertex_args_wf(module), // [C07.states-pre] naga invariants for the arguments of the vertex entry points
    ensures
        ts_view(&r) == vertex_states_toks(module), // [C07.buffers] [C14.vertex-states] [C12.vertex-pass-through] per vertex entry a helper with one step-mode parameter and one `Struct::vertex_buffer_layout(step)` per struct parameter, in parameter order, VertexEntry<n> with n = their number, naming the entry through its ENTRY_ constant and passing overrides.constants() iff the module has overrides; vertex_state forwards module, name, buffers, constants unchanged»
{ unimplemented!() }
//@end

//@stub entry.rs::fragment_states proved-in=entry
«#[verifier::external_body]»
pub fn fragment_states(module: &naga::Module) -> «(r:» TokenStream«)
    requires
        entries_wf(module), // [C14.frag-pre] result type handles in range (naga invariant)
    ensures
        ts_view(&r) == fragment_states_toks(module), // [C14.fragment-states] [C12.fragment-pass-through] per fragment entry a helper asking for exactly the needed number of colour targets, naming the entry through its ENTRY_ constant and passing overrides.constants() iff the module has overrides; fragment_state forwards module, name, targets, constants unchanged»
{ unimplemented!() }
//@end

//@stub lib.rs::compute_module proved-in=libgen
«#[verifier::external_body]»
fn compute_module(module: &naga::Module) -> «(r:» TokenStream«)
    ensures
        ts_view(&r) == compute_module_toks(module.entry_points@), // [C14.compute-module] one workgroup constant + pipeline constructor per compute entry, in order; no module when there is none»
{ unimplemented!() }
//@end

//@stub lib.rs::push_constant_range_stages proved-in=libgen
«#[verifier::external_body]»
fn push_constant_range_stages(
    module: &naga::Module,
    global_stages: &BTreeMap<String, wgpu::ShaderStages>,
    entry_stages: wgpu::ShaderStages,
) -> «(r:» Option<(TokenStream, TokenStream)>«)
    requires
        globals_wf(module), // [C13.pre] type handles of globals are in range (naga invariant)
        stage_map_ok(global_stages@), entry_stages.bits < 8,
    ensures
        pc_post(module, global_stages@, entry_stages.bits, r), // [C13.range] None iff no push constant variable; else, for the first one: range 0..(WGSL size of its type) with stages PUSH_CONSTANT_STAGES, and the stage expression = stages using it, or all entry stages when nothing uses it»
{ unimplemented!() }
//@end

//@stub lib.rs::indexed_name_to_ident proved-in=bindgroup_gen
«#[verifier::external_body]»
fn indexed_name_to_ident(name: &str, index: u32) -> «(r:» Ident«)
    ensures id_view(&r) == fmt2("{}{}", FmtV::S(name@), FmtV::U(index as int)),»
{ unimplemented!() }
//@end

pub open spec fn opt_view(o: Option<&str>) -> Option<Seq<char>> { match o { Some(s) => Some(s@), None => None } }
pub open spec fn opt_ts(o: Option<TokenStream>) -> Option<Seq<Tok>> { match o { Some(t) => Some(ts_view(&t)), None => None } }
pub open spec fn included_path_toks(p: Seq<char>) -> Seq<Tok> { let pl = seq![Tok::LitS(p)]; ts!(include_str!(#pl)) }
//@fn lib.rs::create_shader_module props=C16,C17,C18
pub fn create_shader_module(
    wgsl_source: &str,
    wgsl_include_path: &str,
    options: WriteOptions,
) -> «(r:» Result<String, CreateModuleError>«)
    requires
        gen_pre(wgsl_source@, Some(wgsl_include_path@), options),
    ensures
        gen_post(wgsl_source@, Some(wgsl_include_path@), options, r), // [C16.include-path] [C17.api] [C18.api] the include variant: SOURCE is include_str! of exactly the given path, nothing else differs»
{
    create_shader_module_inner(wgsl_source, Some(wgsl_include_path), options)
}
//@end

//@fn lib.rs::create_shader_module_embedded props=C16,C17,C18
pub fn create_shader_module_embedded(
    wgsl_source: &str,
    options: WriteOptions,
) -> «(r:» Result<String, CreateModuleError>«)
    requires
        gen_pre(wgsl_source@, None, options),
    ensures
        gen_post(wgsl_source@, None, options, r), // [C16.embedded] [C17.api] [C18.api] the embedded variant: SOURCE is a string literal whose value is exactly the input»
{
    create_shader_module_inner(wgsl_source, None, options)
}
//@end

//@fn lib.rs::create_shader_module_inner props=C02,C03,C04,C05,C06,C07,C08,C09,C11,C12,C13,C14,C15,C16,C17,C18
«#[verifier::rlimit(300)]»
fn create_shader_module_inner(
    wgsl_source: &str,
    wgsl_include_path: Option<&str>,
    options: WriteOptions,
) -> «(r:» Result<String, CreateModuleError>«)
    requires
        gen_pre(wgsl_source@, opt_view(wgsl_include_path), options), // [C17.pre] documented feature set; and (C01, not claimed) the token stream parses as a Rust file
    ensures
        gen_post(wgsl_source@, opt_view(wgsl_include_path), options, r), // [C17.gate] [C09.noninterference] [C16.source] [C18.function] [C04.pipeline-layout] [C13.emission] [C02.assembled] [C03.assembled] [C05.assembled] [C06.assembled] [C07.assembled] [C08.assembled] [C11.assembled] [C12.assembled] [C14.assembled] [C15.assembled] (assembled: the section each of these properties is observed in - structs, constants, overrides, bind groups with the stage map, vertex methods, compute module, entry constants, vertex and fragment states - is in the output exactly once, unmodified, and a bind-group error is returned as it is) parse error -> ParseError; validator rejects -> ValidationError; otherwise the result does not depend on options.validate, depends on the other options only through the struct switches and the printer choice, and is the printed token stream of output_toks»
{
    «broadcast use vstd::laws_cmp::group_laws_cmp, vstd::std_specs::btree::group_btree_axioms;
    reveal(gen_post);
    reveal(gen_pre);»
    let module = naga::front::wgsl::parse_str(wgsl_source)
        .map_err(|error| «-> (o: CreateModuleError) ensures o == (CreateModuleError::ParseError { error }) {» CreateModuleError::ParseError { error } «}»)?;
    «let ghost so = struct_opts(options);
    let ghost src = wgsl_source@;
    let ghost path = opt_view(wgsl_include_path);
    assert(spec_parse(src) == Ok::<naga::Module, naga::front::wgsl::ParseError>(module));»

    if let Some(options) = options.validate.as_ref() {
        naga::valid::Validator::new(ValidationFlags::all(), options.capabilities)
            .validate(&module)
            .map_err(|error| «-> (o: CreateModuleError) ensures o == (CreateModuleError::ValidationError { error }) {» CreateModuleError::ValidationError { error } «}»)?;
    }
    «assert(supported(&module, so));»

    let bind_group_data = get_bind_group_data(&module)?;

    «let ghost gmap = bind_group_data@;
    assert(bgd_ok(&module, gmap));
    assert(groups_supported(gmap));»
    let global_stages = wgsl::global_shader_stages(&module);
    let entry_stages = wgsl::entry_stages(&module);
    «proof {
        // the analysed map is THE stage map of the module (bounded + exact + complete have one solution)
        crate::model_stages::lemma_stage_map_is(&module, global_stages@);
        assert(global_stages@ == spec_global_stages(&module));
        assert(stage_map_ok(global_stages@));
    }

    // Write all the structs, including uniforms and entry function inputs.
    proof { lemma_structs_noninterference(&module, options, opts_of(so)); }»
    let structs = structs::structs(&module, options);
    let consts = consts::consts(&module);
    let bind_groups_module = bind_groups_module(&bind_group_data, &global_stages);
    let vertex_module = vertex_struct_methods(&module);
    «let ghost vm = ts_view(&vertex_module);»
    let compute_module = compute_module(&module);
    let entry_point_constants = entry_point_constants(&module);
    let vertex_states = vertex_states(&module);
    let fragment_states = fragment_states(&module);

    // Use a string literal if no include path is provided.
    let included_source = wgsl_include_path
        .map(|p| «-> (o: TokenStream) ensures ts_view(&o) == included_path_toks(p@) {» quote!(include_str!(#p)) «}»)
        .unwrap_or_else(|| «-> (o: TokenStream) ensures ts_view(&o) == seq![Tok::LitS(wgsl_source@)] {» quote!(#wgsl_source) «}»);

    let create_shader_module = quote! {
        pub const SOURCE: &str = #included_source;
        pub fn create_shader_module(device: &wgpu::Device) -> wgpu::ShaderModule {
            let source = std::borrow::Cow::Borrowed(SOURCE);
            device.create_shader_module(wgpu::ShaderModuleDescriptor {
                label: None,
                source: wgpu::ShaderSource::Wgsl(source)
            })
        }
    };

    «let ghost mut gk;»
    let bind_group_layouts: Vec<_> = «{ let __k =» bind_group_data
        .keys()«; proof { gk = __k; } __k }»
        .map(|group_no| «-> (o: TokenStream) ensures ts_view(&o) == layout_item_toks(*group_no)» {
            let group = indexed_name_to_ident("BindGroup", *group_no);
            quote!(bind_groups::#group::get_bind_group_layout(device))
        })
        .collect();

    let (push_constant_range, push_constant_stages) =
        push_constant_range_stages(&module, &global_stages, entry_stages).unzip();

    let create_pipeline_layout = quote! {
        pub fn create_pipeline_layout(device: &wgpu::Device) -> wgpu::PipelineLayout {
            device.create_pipeline_layout(&wgpu::PipelineLayoutDescriptor {
                label: None,
                bind_group_layouts: &[
                    #(&#bind_group_layouts),*
                ],
                push_constant_ranges: &[#push_constant_range],
            })
        }
    };

    let override_constants = pipeline_overridable_constants(&module);

    «let ghost pcr = opt_ts(push_constant_range);
    let ghost pcs = opt_ts(push_constant_stages);
    let ghost ks = gk.remaining().unref();
    proof {
        lemma_keys_iter(gmap, gk.remaining());
        assert(toks_of(bind_group_layouts@) =~= Seq::new(ks.len(), |i: int| layout_item_toks(ks[i])));
        assert(pc_ok(&module, spec_global_stages(&module), spec_entry_bits(&module), pcr, pcs));
    }»
    let push_constant_stages = push_constant_stages.map(|stages| «-> (o: TokenStream) ensures ts_view(&o) == pc_stages_toks(Some(ts_view(&stages)))» {
        quote! {
            pub const PUSH_CONSTANT_STAGES: wgpu::ShaderStages = #stages;
        }
    });

    let output = quote! {
        #structs
        #(#consts)*
        #override_constants
        #bind_groups_module
        #vertex_module
        #compute_module
        #entry_point_constants
        #vertex_states
        #fragment_states
        #create_shader_module
        #push_constant_stages
        #create_pipeline_layout
    };

    «proof {
        assert(ts_view(&output) == output_toks(&module, src, path, so, gmap, ks, pcr, pcs, vm));
    }
    { let __r =» if options.rustfmt {
        Ok(pretty_print_rustfmt(output))
    } else {
        Ok(pretty_print(output))
    }«; proof {
        assert(gen_ok(&module, src, path, so, options.rustfmt, __r->Ok_0@, gmap, ks, pcr, pcs, vm));
    } __r» }
«}»
//@end

//@fn lib.rs::pretty_print props=C16,C19
fn pretty_print(output: TokenStream) -> «(r:» String«)
    requires
        parse_file_spec(tokens_string(ts_view(&output))) is Some, // [C19.prettyplease-pre] the token stream is a syntactically valid Rust file (C01; not claimed)
    ensures
        printed(ts_view(&output), false, r@), // [C19.prettyplease] [C16.no-postprocessing] exactly unparse(parse_file(to_string(tokens))): no post-processing of the text»
{
    let file = syn::parse_file(&output.shim_to_string()).unwrap();
    prettyplease::unparse(&file)
}
//@end

//@stub lib.rs::token_text proved-in=canon
«#[verifier::external_body]»
fn token_text(tokens: TokenStream) -> «(r:» String«)
    ensures r@ == canon_text(ts_view(&tokens)), // [C19.canon] the text is the canonical text of the tokens: every token, in order, separated by spaces, groups inside their own delimiters; only a comma that is the last token of a stream or group is dropped»
{ unimplemented!() }
//@end

//@fn lib.rs::is_same_program props=C19
fn is_same_program(formatted: &str, tokens: &TokenStream) -> «(r:» bool«)
    ensures r == same_program(formatted@, ts_view(tokens)), // [C19.same-program] true exactly when the formatted text lexes and its canonical token text equals that of the generated tokens»
{
    match formatted.shim_try_parse_tokens() {
        Ok(formatted) => token_text(formatted) == token_text(tokens.clone()),
        Err(_) => false,
    }
}
//@end

//@fn lib.rs::pretty_print_rustfmt props=C19
fn pretty_print_rustfmt(tokens: TokenStream) -> «(r:» String«)
    ensures
        printed(ts_view(&tokens), true, r@), // [C19.no-panic] [C19.fallback] [C19.same-program] never panics; returns the unformatted token string unless the whole input was written, the formatter exited successfully and printed non-empty valid UTF-8 THAT LEXES TO THE SAME TOKENS (modulo trailing commas) - then exactly that output: with the option on the text is, token for token, the same program»
{
    let value = tokens.shim_to_string();
    // TODO: Return errors?
    if let Ok(mut proc) = Command::new("rustfmt")
        .arg("--emit=stdout")
        .stdin(Stdio::piped())
        .stdout(Stdio::piped())
        .stderr(Stdio::null())
        .spawn()
    {
        // rustfmt may exit without reading its input, so don't panic on a broken pipe.
        let written = match proc.stdin.as_mut() {
            Some(stdin) => stdin.write_all(value.as_bytes()).is_ok(),
            None => false,
        };

        // Fall back to the unformatted tokens unless rustfmt produced the formatted code.
        if let Ok(output) = proc.wait_with_output() {
            if written && output.status.success() && !output.stdout.is_empty() {
                if let Ok(formatted) = String::from_utf8(output.stdout) {
                    // rustfmt may exit successfully without reading its input,
                    // so only accept output that is still the same program.
                    if is_same_program(&formatted, &tokens) {
                        return formatted;
                    }
                }
            }
        }
    }
    value.shim_to_string()
}
//@end

} // verus!
fn main() {}
