//@props C14
// Unit entry_count: entry::{fragment_target_count, location_target_count}: the number of colour targets a
// fragment entry helper asks for is exactly what is needed to address every @location the shader writes.
#![feature(allocator_api)]
#![recursion_limit = "4096"]
#![allow(unused_imports, unused_variables, unused_mut, dead_code, unused_braces, unused_parens)]
use vstd::prelude::*;
use vstd::std_specs::iter::IteratorSpec;
extern crate naga;
extern crate proc_macro2;
extern crate wgpu_types;
extern crate indexmap;
extern crate rustc_hash;
use naga::{Function, Module};
#[path = "../../spec/lib/prelude.rs"] pub mod prelude;
#[path = "../../spec/lib/iter_shims.rs"] pub mod iter_shims;
#[macro_use] #[path = "../../spec/lib/tokens.rs"] pub mod tokens;
#[path = "../../spec/lib/model_common.rs"] pub mod model_common;
#[path = "../../spec/lib/wgpu_shim.rs"] pub mod wgpu;
#[path = "../../spec/lib/model_entry.rs"] pub mod model_entry;
use prelude::*;
use model_entry::*;

verus! {


//@fn entry.rs::location_target_count
fn location_target_count(binding: &naga::Binding) -> «(r:» usize«)
    ensures
        r == (match binding { naga::Binding::Location { location, .. } => *location as int + 1, naga::Binding::BuiltIn(_) => 0 }), // [C14.loc] a location needs location+1 targets, a builtin none»
{
    match binding {
        naga::Binding::Location { location, .. } => *location as usize + 1,
        // Builtins don't have render targets.
        naga::Binding::BuiltIn(_) => 0,
    }
}
//@end

//@fn entry.rs::fragment_target_count
pub fn fragment_target_count(module: &Module, f: &Function) -> «(r:» usize«)
    requires
        result_wf(module, f), // [C14.pre] the result's type handle is in range (naga invariant)
    ensures
        needed_targets(module, f, r as int), // [C14.targets] every written @location is < r, and r is 0 or r-1 is written»
{
    «broadcast use axiom_uarena_index_req;»
    // Color targets are indexed by location.
    // Every location written by the shader needs to be addressable.
    match &f.result {
        Some(r) => match &r.binding {
            Some(b) => location_target_count(b),
            None => {
                // Fragment functions should return a single variable or a struct.
                match &module.types[r.ty].inner {
                    naga::TypeInner::Struct { members, .. } => {
                        let mut count = 0;
                        for m in «it:» members
                            «invariant
                                it.seq().len() == members@.len(),
                                forall|k: int| 0 <= k < it.seq().len() ==> *(#[trigger] it.seq()[k]) == members@[k],
                                forall|k: int, l: int| 0 <= k < it.index@ && written_location(&#[trigger] members@[k].binding, l) ==> l < count,
                                count == 0 || exists|k: int| 0 <= k < it.index@ && written_location(&#[trigger] members@[k].binding, count - 1),»
                        {
                            «let ghost j = it.index@ as int;
                            let ghost c0 = count;
                            assert(*it.seq()[j] == members@[j]);»
                            if let Some(b) = &m.binding {
                                count = count.max(location_target_count(b));
                            }
                            «proof {
                                if count != c0 { assert(written_location(&members@[j].binding, count - 1)); }
                                else if count != 0 {
                                    let k = choose|k: int| 0 <= k < j && written_location(&#[trigger] members@[k].binding, c0 - 1);
                                    assert(written_location(&members@[k].binding, count - 1));
                                }
                            }»
                        }
                        count
                    }
                    _ => 0,
                }
            }
        },
        None => 0,
    }
}
//@end

} // verus!
fn main() {}
