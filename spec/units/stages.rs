//@props C02 C03 C13 C20
// Unit stages: wgsl::{global_shader_stages, naga_stages, update_stages_blocks, update_stages}
// against the DAG-DFS contract of DESIGN.md 5/C03 and the memoisation measure of C20.
#![feature(allocator_api)]
#![recursion_limit = "4096"]
#![allow(unused_imports, unused_variables, unused_mut, dead_code, unused_braces, unused_parens)]
use vstd::prelude::*;
use vstd::std_specs::iter::IteratorSpec;
use std::collections::{BTreeMap, HashSet};
extern crate naga;
extern crate indexmap;
extern crate rustc_hash;
#[path = "../../spec/lib/prelude.rs"] pub mod prelude;
#[path = "../../spec/lib/wgpu_shim.rs"] pub mod wgpu;
use prelude::*;
#[path = "../../spec/lib/model_stages.rs"] pub mod model_stages;
use model_stages::*;

verus! {

pub proof fn lemma_exact_step(m: &naga::Module, gs1: Map<String, wgpu::ShaderStages>, gs2: Map<String, wgpu::ShaderStages>, k: int)
    requires 0 <= k < m.entry_points@.len(), gss_exact(m, gs1, k),
        sound(gs1, gs2, stage_of(m.entry_points@[k].stage), touched_fn(m, m.entry_points@[k].function)),
    ensures gss_exact(m, gs2, k + 1),
{
    let sb = stage_bit(m.entry_points@[k].stage);
    assert(is_stage_bit(sb));
    assert(forall|x: u32, s: u32, b: u32| (s == 1 || s == 2 || s == 4) && (b == 1 || b == 2 || b == 4) && #[trigger] ((x | s) & b) == b && (x & b) != b ==> s == b) by(bit_vector);
    assert(forall|x: u32, s: u32| (s == 1 || s == 2 || s == 4) ==> #[trigger] (x | s) != 0) by(bit_vector);
    assert(forall|b: u32| (b == 1 || b == 2 || b == 4) ==> #[trigger] (0u32 & b) != b) by(bit_vector);
    assert forall|n: String, b: u32| #[trigger] has_bit(gs2, n, b) implies exists|j: int| 0 <= j < k + 1 && stage_bit(m.entry_points@[j].stage) == b && #[trigger] touched_by_entry(m, j, n) by {
        if gs1.contains_key(n) && gs2[n].bits == gs1[n].bits {
            assert(has_bit(gs1, n, b));
            let j = choose|j: int| 0 <= j < k && stage_bit(m.entry_points@[j].stage) == b && #[trigger] touched_by_entry(m, j, n);
            assert(touched_by_entry(m, j, n));
        } else {
            let x = old_bits(gs1, n);
            assert(gs2[n].bits == x | sb);
            if x & b == b {
                assert(gs1.contains_key(n));
                assert(has_bit(gs1, n, b));
                let j = choose|j: int| 0 <= j < k && stage_bit(m.entry_points@[j].stage) == b && #[trigger] touched_by_entry(m, j, n);
                assert(touched_by_entry(m, j, n));
            } else {
                assert(sb == b);
                assert(touched_by_entry(m, k, n));
            }
        }
    }
    assert forall|n: String| #[trigger] gs2.contains_key(n) implies gs2[n].bits != 0 by {
        if !(gs1.contains_key(n) && gs2[n].bits == gs1[n].bits) { assert(gs2[n].bits == old_bits(gs1, n) | sb); }
    }
}

// ---------------- stage map ----------------
// only the VERTEX | FRAGMENT | COMPUTE bits ever occur
pub proof fn lemma_bits8()
    ensures forall|a: u32, b: u32| a < 8 && b < 8 ==> #[trigger] (a | b) < 8,
{
    assert(forall|a: u32, b: u32| a < 8 && b < 8 ==> #[trigger] (a | b) < 8) by(bit_vector);
}
pub open spec fn mono(a: Map<String, wgpu::ShaderStages>, b: Map<String, wgpu::ShaderStages>) -> bool {
    forall|n: String| #[trigger] a.contains_key(n) ==> b.contains_key(n) && bits_sub(a[n].bits, b[n].bits)
}
pub open spec fn done(m: &naga::Module, gs: Map<String, wgpu::ShaderStages>, stage: wgpu::ShaderStages, i: int) -> bool {
    forall|g: int| #[trigger] reach_idx(m, i, g) && gname(m, g) is Some ==> has(gs, gname(m, g)->0, stage)
}
pub open spec fn vis(v: Set<naga::Handle<naga::Function>>, d: int) -> bool { v.contains(mk_handle(d)) }
pub open spec fn vmono(a: Set<naga::Handle<naga::Function>>, b: Set<naga::Handle<naga::Function>>) -> bool {
    forall|d: int| #[trigger] vis(a, d) ==> vis(b, d)
}
pub open spec fn new_done(m: &naga::Module, a: Set<naga::Handle<naga::Function>>, b: Set<naga::Handle<naga::Function>>, gs: Map<String, wgpu::ShaderStages>, stage: wgpu::ShaderStages) -> bool {
    forall|d: int| #[trigger] vis(b, d) && !vis(a, d) ==> done(m, gs, stage, d)
}
// every visited descendant (through a callee c satisfying P) is done
pub open spec fn callee_inv(m: &naga::Module, c: int, v: Set<naga::Handle<naga::Function>>, gs: Map<String, wgpu::ShaderStages>, stage: wgpu::ShaderStages) -> bool {
    &&& vis(v, c) ==> done(m, gs, stage, c)
    &&& forall|d: int| #[trigger] desc_idx(m, c, d) && vis(v, d) ==> done(m, gs, stage, d)
}
pub open spec fn block_inv(m: &naga::Module, b: &naga::Block, v: Set<naga::Handle<naga::Function>>, gs: Map<String, wgpu::ShaderStages>, stage: wgpu::ShaderStages) -> bool {
    forall|c: int| #[trigger] block_calls(b, c) ==> 0 <= c < nfun(m) && callee_inv(m, c, v, gs, stage)
}
pub open spec fn fn_inv(m: &naga::Module, f: &naga::Function, v: Set<naga::Handle<naga::Function>>, gs: Map<String, wgpu::ShaderStages>, stage: wgpu::ShaderStages) -> bool {
    forall|c: int| #[trigger] fn_calls(f, c) ==> 0 <= c < nfun(m) && callee_inv(m, c, v, gs, stage)
}
pub open spec fn callee_post(m: &naga::Module, c: int, v: Set<naga::Handle<naga::Function>>, gs: Map<String, wgpu::ShaderStages>, stage: wgpu::ShaderStages) -> bool {
    vis(v, c) && done(m, gs, stage, c)
}


// ---------------- lemmas ----------------
pub proof fn lemma_bits()
    ensures
        forall|a: u32, b: u32| #[trigger] bits_sub(a, a | b) && bits_sub(b, a | b),
        forall|a: u32| #[trigger] bits_sub(a, a),
        forall|a: u32, b: u32, c: u32| #[trigger] bits_sub(a, b) && #[trigger] bits_sub(b, c) ==> bits_sub(a, c),
        forall|b: u32| (0u32 | b) == b,
{
    assert(forall|a: u32, b: u32| (a & (a | b)) == a && (b & (a | b)) == b) by(bit_vector);
    assert(forall|a: u32| (a & a) == a) by(bit_vector);
    assert(forall|a: u32, b: u32, c: u32| (a & b) == a && (b & c) == b ==> (a & c) == a) by(bit_vector);
    assert(forall|b: u32| (0u32 | b) == b) by(bit_vector);
}

pub proof fn lemma_done_mono(m: &naga::Module, a: Map<String, wgpu::ShaderStages>, b: Map<String, wgpu::ShaderStages>, stage: wgpu::ShaderStages, i: int)
    requires mono(a, b), done(m, a, stage, i),
    ensures done(m, b, stage, i),
{
    lemma_bits();
    assert forall|g: int| #[trigger] reach_idx(m, i, g) && gname(m, g) is Some implies has(b, gname(m, g)->0, stage) by {
        let n = gname(m, g)->0;
        assert(has(a, n, stage));
        assert(a.contains_key(n));
    }
}

pub proof fn lemma_vmono_trans(a: Set<naga::Handle<naga::Function>>, b: Set<naga::Handle<naga::Function>>, c: Set<naga::Handle<naga::Function>>)
    requires vmono(a, b), vmono(b, c),
    ensures vmono(a, c),
{
    assert forall|d: int| #[trigger] vis(a, d) implies vis(c, d) by { assert(vis(b, d)); }
}
pub proof fn lemma_mono_trans(a: Map<String, wgpu::ShaderStages>, b: Map<String, wgpu::ShaderStages>, c: Map<String, wgpu::ShaderStages>)
    requires mono(a, b), mono(b, c),
    ensures mono(a, c),
{
    lemma_bits();
    assert forall|n: String| #[trigger] a.contains_key(n) implies c.contains_key(n) && bits_sub(a[n].bits, c[n].bits) by {
        assert(b.contains_key(n));
    }
}

pub proof fn lemma_callee_inv_step(m: &naga::Module, c: int, v: Set<naga::Handle<naga::Function>>, v2: Set<naga::Handle<naga::Function>>, gs: Map<String, wgpu::ShaderStages>, gs2: Map<String, wgpu::ShaderStages>, stage: wgpu::ShaderStages)
    requires callee_inv(m, c, v, gs, stage), mono(gs, gs2), vmono(v, v2), new_done(m, v, v2, gs2, stage),
    ensures callee_inv(m, c, v2, gs2, stage),
{
    if vis(v2, c) {
        if vis(v, c) { lemma_done_mono(m, gs, gs2, stage, c); }
    }
    assert forall|d: int| #[trigger] desc_idx(m, c, d) && vis(v2, d) implies done(m, gs2, stage, d) by {
        if vis(v, d) { lemma_done_mono(m, gs, gs2, stage, d); }
    }
}

pub proof fn lemma_desc_lt(m: &naga::Module, i: int, d: int)
    requires desc_idx(m, i, d),
    ensures 0 <= d < i,
    decreases i,
{
    let c = choose|c: int| 0 <= c < i && #[trigger] fn_calls(&fun(m, i), c) && (c == d || desc_idx(m, c, d));
    if c != d { lemma_desc_lt(m, c, d); }
}

pub proof fn lemma_new_done_trans(m: &naga::Module, v0: Set<naga::Handle<naga::Function>>, v1: Set<naga::Handle<naga::Function>>, v2: Set<naga::Handle<naga::Function>>, gs1: Map<String, wgpu::ShaderStages>, gs2: Map<String, wgpu::ShaderStages>, stage: wgpu::ShaderStages)
    requires new_done(m, v0, v1, gs1, stage), new_done(m, v1, v2, gs2, stage), mono(gs1, gs2), vmono(v0, v1), vmono(v1, v2),
    ensures new_done(m, v0, v2, gs2, stage), vmono(v0, v2),
{
    assert forall|d: int| #[trigger] vis(v2, d) && !vis(v0, d) implies done(m, gs2, stage, d) by {
        if vis(v1, d) { lemma_done_mono(m, gs1, gs2, stage, d); }
    }
}



pub proof fn lemma_fn_inv_step(m: &naga::Module, f: &naga::Function, v: Set<naga::Handle<naga::Function>>, v2: Set<naga::Handle<naga::Function>>, gs: Map<String, wgpu::ShaderStages>, gs2: Map<String, wgpu::ShaderStages>, stage: wgpu::ShaderStages)
    requires fn_inv(m, f, v, gs, stage), mono(gs, gs2), vmono(v, v2), new_done(m, v, v2, gs2, stage),
    ensures fn_inv(m, f, v2, gs2, stage),
{
    assert forall|c: int| #[trigger] fn_calls(f, c) implies 0 <= c < nfun(m) && callee_inv(m, c, v2, gs2, stage) by {
        lemma_callee_inv_step(m, c, v, v2, gs, gs2, stage);
    }
}
pub proof fn lemma_block_inv_step(m: &naga::Module, b: &naga::Block, v: Set<naga::Handle<naga::Function>>, v2: Set<naga::Handle<naga::Function>>, gs: Map<String, wgpu::ShaderStages>, gs2: Map<String, wgpu::ShaderStages>, stage: wgpu::ShaderStages)
    requires block_inv(m, b, v, gs, stage), mono(gs, gs2), vmono(v, v2), new_done(m, v, v2, gs2, stage),
    ensures block_inv(m, b, v2, gs2, stage),
{
    assert forall|c: int| #[trigger] block_calls(b, c) implies 0 <= c < nfun(m) && callee_inv(m, c, v2, gs2, stage) by {
        lemma_callee_inv_step(m, c, v, v2, gs, gs2, stage);
    }
}
pub proof fn lemma_post_mono(m: &naga::Module, c: int, v: Set<naga::Handle<naga::Function>>, v2: Set<naga::Handle<naga::Function>>, gs: Map<String, wgpu::ShaderStages>, gs2: Map<String, wgpu::ShaderStages>, stage: wgpu::ShaderStages)
    requires callee_post(m, c, v, gs, stage), mono(gs, gs2), vmono(v, v2),
    ensures callee_post(m, c, v2, gs2, stage),
{
    lemma_done_mono(m, gs, gs2, stage, c);
}

// the precondition needed to expand callee c right after inserting it into the visited set
pub proof fn lemma_enter_callee(m: &naga::Module, c: int, v: Set<naga::Handle<naga::Function>>, gs: Map<String, wgpu::ShaderStages>, stage: wgpu::ShaderStages)
    requires wf(m), 0 <= c < nfun(m), callee_inv(m, c, v, gs, stage),
    ensures fn_inv(m, &fun(m, c), v.insert(mk_handle(c)), gs, stage), fn_ok(m, &fun(m, c), nfun(m)),
{
    broadcast use axiom_mk_handle;
    let f = fun(m, c);
    let v2 = v.insert(mk_handle(c));
    assert(fn_ok(m, &fun(m, c), c));
    assert forall|c2: int| #[trigger] fn_calls(&f, c2) implies 0 <= c2 < nfun(m) && callee_inv(m, c2, v2, gs, stage) by {
        assert(0 <= c2 < c);
        assert(desc_idx(m, c, c2));
        assert(handle_index(mk_handle::<naga::Function>(c2)) == c2) by { axiom_mk_handle_idx::<naga::Function>(c2); }
        assert(handle_index(mk_handle::<naga::Function>(c)) == c) by { axiom_mk_handle_idx::<naga::Function>(c); }
        assert(vis(v2, c2) ==> vis(v, c2));
        assert forall|d: int| #[trigger] desc_idx(m, c2, d) && vis(v2, d) implies done(m, gs, stage, d) by {
            lemma_desc_lt(m, c2, d);
            assert(desc_idx(m, c, d));
            assert(handle_index(mk_handle::<naga::Function>(d)) == d) by { axiom_mk_handle_idx::<naga::Function>(d); }
            assert(vis(v, d));
        }
    }
}

pub proof fn lemma_done_from_top(m: &naga::Module, c: int, gs: Map<String, wgpu::ShaderStages>, stage: wgpu::ShaderStages)
    requires 0 <= c < nfun(m),
        forall|g: int| #[trigger] reach_top(m, &fun(m, c), g) && gname(m, g) is Some ==> has(gs, gname(m, g)->0, stage),
    ensures done(m, gs, stage, c),
{
    assert forall|g: int| #[trigger] reach_idx(m, c, g) && gname(m, g) is Some implies has(gs, gname(m, g)->0, stage) by {
        assert(reach_top(m, &fun(m, c), g));
    }
}

pub open spec fn fn_post(m: &naga::Module, f: &naga::Function, gs: Map<String, wgpu::ShaderStages>, stage: wgpu::ShaderStages) -> bool {
    forall|g: int| #[trigger] reach_top(m, f, g) && gname(m, g) is Some ==> has(gs, gname(m, g)->0, stage)
}



// ---------------- termination / cost measure: number of function handles not yet visited ----------------
pub open spec fn vset(m: &naga::Module, v: Set<naga::Handle<naga::Function>>) -> Set<int> {
    Set::<int>::range(0, nfun(m)).filter(|d: int| vis(v, d))
}
pub open spec fn unvisited(m: &naga::Module, v: Set<naga::Handle<naga::Function>>) -> nat {
    (nfun(m) - vset(m, v).len()) as nat
}
pub proof fn lemma_vset_bounds(m: &naga::Module, v: Set<naga::Handle<naga::Function>>)
    ensures vset(m, v).finite(), vset(m, v).len() <= nfun(m),
{
    let r = Set::<int>::range(0, nfun(m));
    r.lemma_len_filter(|d: int| vis(v, d));
    assert(r.len() == nfun(m));
}
pub proof fn lemma_unvisited_mono(m: &naga::Module, v: Set<naga::Handle<naga::Function>>, v2: Set<naga::Handle<naga::Function>>)
    requires vmono(v, v2),
    ensures unvisited(m, v2) <= unvisited(m, v),
{
    lemma_vset_bounds(m, v); lemma_vset_bounds(m, v2);
    assert(vset(m, v).subset_of(vset(m, v2)));
    vstd::set_lib::lemma_len_subset(vset(m, v), vset(m, v2));
}
pub proof fn lemma_unvisited_insert(m: &naga::Module, v: Set<naga::Handle<naga::Function>>, c: int)
    requires 0 <= c < nfun(m), !vis(v, c),
    ensures unvisited(m, v.insert(mk_handle(c))) < unvisited(m, v),
{
    let v2 = v.insert(mk_handle::<naga::Function>(c));
    lemma_vset_bounds(m, v); lemma_vset_bounds(m, v2);
    assert forall|d: int| vset(m, v2).contains(d) == vset(m, v).insert(c).contains(d) by {
        axiom_mk_handle_idx::<naga::Function>(d);
        axiom_mk_handle_idx::<naga::Function>(c);
    }
    assert(vset(m, v2) =~= vset(m, v).insert(c));
}

pub proof fn lemma_sub_inv(m: &naga::Module, b: &naga::Block, i: int, k: int, v: Set<naga::Handle<naga::Function>>, gs: Map<String, wgpu::ShaderStages>, stage: wgpu::ShaderStages)
    requires block_inv(m, b, v, gs, stage), 0 <= i < block_stmts(b).len(), 0 <= k < sub_blocks(&block_stmts(b)[i]).len(),
    ensures block_inv(m, &sub_blocks(&block_stmts(b)[i])[k], v, gs, stage),
{
    let sb = sub_blocks(&block_stmts(b)[i])[k];
    assert forall|c: int| #[trigger] block_calls(&sb, c) implies 0 <= c < nfun(m) && callee_inv(m, c, v, gs, stage) by {
        lemma_sub_calls(m, b, i, k, c);
    }
}
pub open spec fn sub_post(m: &naga::Module, sb: &naga::Block, v: Set<naga::Handle<naga::Function>>, gs: Map<String, wgpu::ShaderStages>, stage: wgpu::ShaderStages) -> bool {
    forall|c: int| #[trigger] block_calls(sb, c) ==> callee_post(m, c, v, gs, stage)
}
pub proof fn lemma_sub_post_mono(m: &naga::Module, sb: &naga::Block, v: Set<naga::Handle<naga::Function>>, v2: Set<naga::Handle<naga::Function>>, gs: Map<String, wgpu::ShaderStages>, gs2: Map<String, wgpu::ShaderStages>, stage: wgpu::ShaderStages)
    requires sub_post(m, sb, v, gs, stage), mono(gs, gs2), vmono(v, v2),
    ensures sub_post(m, sb, v2, gs2, stage),
{
    assert forall|c: int| #[trigger] block_calls(sb, c) implies callee_post(m, c, v2, gs2, stage) by {
        lemma_post_mono(m, c, v, v2, gs, gs2, stage);
    }
}
// bookkeeping after one statement: everything established for earlier statements survives
pub proof fn lemma_stmt_step(m: &naga::Module, b: &naga::Block, j: int,
    v0: Set<naga::Handle<naga::Function>>, v1: Set<naga::Handle<naga::Function>>, v2: Set<naga::Handle<naga::Function>>,
    gs0: Map<String, wgpu::ShaderStages>, gs1: Map<String, wgpu::ShaderStages>, gs2: Map<String, wgpu::ShaderStages>, stage: wgpu::ShaderStages)
    requires
        mono(gs0, gs1), vmono(v0, v1), new_done(m, v0, v1, gs1, stage),
        mono(gs1, gs2), vmono(v1, v2), new_done(m, v1, v2, gs2, stage),
        block_inv(m, b, v1, gs1, stage),
        forall|jj: int, c: int| 0 <= jj < j && #[trigger] calls_at(b, jj, c) ==> callee_post(m, c, v1, gs1, stage),
        forall|c: int| #[trigger] calls_at(b, j, c) ==> callee_post(m, c, v2, gs2, stage),
    ensures
        mono(gs0, gs2), vmono(v0, v2), new_done(m, v0, v2, gs2, stage),
        block_inv(m, b, v2, gs2, stage),
        forall|jj: int, c: int| 0 <= jj < j + 1 && #[trigger] calls_at(b, jj, c) ==> callee_post(m, c, v2, gs2, stage),
{
    lemma_mono_trans(gs0, gs1, gs2);
    lemma_new_done_trans(m, v0, v1, v2, gs1, gs2, stage);
    lemma_block_inv_step(m, b, v1, v2, gs1, gs2, stage);
    assert forall|jj: int, c: int| 0 <= jj < j + 1 && #[trigger] calls_at(b, jj, c) implies callee_post(m, c, v2, gs2, stage) by {
        if jj < j { lemma_post_mono(m, c, v1, v2, gs1, gs2, stage); }
    }
}


pub proof fn lemma_sound_refl(a: Map<String, wgpu::ShaderStages>, stage: wgpu::ShaderStages, t: spec_fn(String) -> bool)
    ensures sound(a, a, stage, t),
{}
pub proof fn lemma_sound_trans(a: Map<String, wgpu::ShaderStages>, b: Map<String, wgpu::ShaderStages>, c: Map<String, wgpu::ShaderStages>, stage: wgpu::ShaderStages, t: spec_fn(String) -> bool)
    requires sound(a, b, stage, t), sound(b, c, stage, t), mono(a, b),
    ensures sound(a, c, stage, t),
{
    assert(forall|x: u32, y: u32| #[trigger] ((x | y) | y) == (x | y)) by(bit_vector);
    assert(forall|y: u32| (0u32 | y) == y) by(bit_vector);
    assert forall|n: String| #[trigger] c.contains_key(n) implies
        (a.contains_key(n) && c[n].bits == a[n].bits) || (t(n) && c[n].bits == old_bits(a, n) | stage.bits) by {
        if b.contains_key(n) { assert(b.contains_key(n)); }
        if a.contains_key(n) { assert(b.contains_key(n)); }
    }
}
pub proof fn lemma_sound_widen(a: Map<String, wgpu::ShaderStages>, b: Map<String, wgpu::ShaderStages>, stage: wgpu::ShaderStages, t1: spec_fn(String) -> bool, t2: spec_fn(String) -> bool)
    requires sound(a, b, stage, t1), forall|n: String| #[trigger] t1(n) ==> t2(n),
    ensures sound(a, b, stage, t2),
{}
// a global reachable from callee c of a well-formed module is reachable from index c
pub proof fn lemma_top_idx(m: &naga::Module, c: int, g: int)
    requires wf(m), 0 <= c < nfun(m), reach_top(m, &fun(m, c), g),
    ensures reach_idx(m, c, g),
{
    assert(fn_ok(m, &fun(m, c), c));
    if !fn_uses(&fun(m, c), g) {
        let c2 = choose|c2: int| 0 <= c2 < nfun(m) && #[trigger] fn_calls(&fun(m, c), c2) && reach_idx(m, c2, g);
        assert(0 <= c2 < c);
    }
}
// what a sub-block touches, the enclosing block touches
pub proof fn lemma_touched_sub(m: &naga::Module, b: &naga::Block, i: int, k: int)
    requires 0 <= i < block_stmts(b).len(), 0 <= k < sub_blocks(&block_stmts(b)[i]).len(),
    ensures forall|n: String| #[trigger] touched_block(m, sub_blocks(&block_stmts(b)[i])[k])(n) ==> touched_block(m, *b)(n),
{
    let sb = sub_blocks(&block_stmts(b)[i])[k];
    assert forall|n: String| #[trigger] touched_block(m, sb)(n) implies touched_block(m, *b)(n) by {
        let (c, g) = choose|c: int, g: int| #[trigger] block_calls(&sb, c) && #[trigger] reach_idx(m, c, g) && gname(m, g) == Some(n);
        lemma_sub_calls(m, b, i, k, c);
        assert(block_calls(b, c) && reach_idx(m, c, g));
    }
}
// what a called function touches, the calling block touches
pub proof fn lemma_touched_call(m: &naga::Module, b: &naga::Block, c: int)
    requires wf(m), 0 <= c < nfun(m), block_calls(b, c),
    ensures forall|n: String| #[trigger] touched_fn(m, fun(m, c))(n) ==> touched_block(m, *b)(n),
{
    assert forall|n: String| #[trigger] touched_fn(m, fun(m, c))(n) implies touched_block(m, *b)(n) by {
        let g = choose|g: int| #[trigger] reach_top(m, &fun(m, c), g) && gname(m, g) == Some(n);
        lemma_top_idx(m, c, g);
        assert(block_calls(b, c) && reach_idx(m, c, g));
    }
}
pub proof fn lemma_touched_body(m: &naga::Module, f: &naga::Function)
    requires fn_ok(m, f, nfun(m)),
    ensures forall|n: String| #[trigger] touched_block(m, f.body)(n) ==> touched_fn(m, *f)(n),
{
    assert forall|n: String| #[trigger] touched_block(m, f.body)(n) implies touched_fn(m, *f)(n) by {
        let (c, g) = choose|c: int, g: int| #[trigger] block_calls(&f.body, c) && #[trigger] reach_idx(m, c, g) && gname(m, g) == Some(n);
        assert(fn_calls(f, c));
        assert(reach_top(m, f, g));
    }
}
pub proof fn lemma_touched_callresult(m: &naga::Module, f: &naga::Function, c: int)
    requires wf(m), fn_ok(m, f, nfun(m)), fn_calls(f, c),
    ensures forall|n: String| #[trigger] touched_fn(m, fun(m, c))(n) ==> touched_fn(m, *f)(n),
{
    assert forall|n: String| #[trigger] touched_fn(m, fun(m, c))(n) implies touched_fn(m, *f)(n) by {
        let g = choose|g: int| #[trigger] reach_top(m, &fun(m, c), g) && gname(m, g) == Some(n);
        lemma_top_idx(m, c, g);
        assert(reach_top(m, f, g));
    }
}

//@fn wgsl.rs::naga_stages props=C02,C03,C13
fn naga_stages(stage: naga::ShaderStage) -> «(r:» wgpu::ShaderStages«)
    ensures r.bits == stage_bit(stage), // [C03.stage-bit] vertex -> VERTEX, fragment -> FRAGMENT, compute -> COMPUTE»
{
    match stage {
        naga::ShaderStage::Vertex => wgpu::ShaderStages::VERTEX,
        naga::ShaderStage::Fragment => wgpu::ShaderStages::FRAGMENT,
        naga::ShaderStage::Compute => wgpu::ShaderStages::COMPUTE,
    }
}
//@end

pub proof fn lemma_entry_bits(es: Seq<naga::EntryPoint>, ss: Seq<wgpu::ShaderStages>)
    requires ss.len() == es.len(), forall|i: int| 0 <= i < es.len() ==> (#[trigger] ss[i]).bits == stage_bit(es[i].stage),
    ensures wgpu::or_all(ss) == entry_bits(es), entry_bits(es) < 8,
    decreases es.len(),
{
    lemma_bits8();
    if es.len() > 0 {
        lemma_entry_bits(es.drop_last(), ss.drop_last());
    }
}

//@fn wgsl.rs::entry_stages props=C13
pub fn entry_stages(module: &naga::Module) -> «(r:» wgpu::ShaderStages«)
    ensures
        r.bits == entry_bits(module.entry_points@), // [C13.entry-stages] the union of the stages that have an entry point
        r.bits < 8,»
{
    «let ghost es = module.entry_points@;
    let ghost mut gm;
    { let __r = { let __m =» module
        .entry_points
        .iter()
        .map(|entry| «-> (o: wgpu::ShaderStages) ensures o.bits == stage_bit(entry.stage) {» naga_stages(entry.stage) «}»)«; proof { gm = __m; } __m }»
        .collect()«; proof {
            let ss = gm.remaining();
            assert(ss.len() == es.len());
            assert forall|i: int| 0 <= i < es.len() implies (#[trigger] ss[i]).bits == stage_bit(es[i].stage) by {}
            lemma_entry_bits(es, ss);
        } __r» }
«}»
//@end

//@fn wgsl.rs::update_stages_blocks props=C02,C03,C13
fn update_stages_blocks(
    module: &naga::Module,
    block: &naga::Block,
    global_stages: &mut BTreeMap<String, wgpu::ShaderStages>,
    stage: wgpu::ShaderStages,
    visited: &mut HashSet<naga::Handle<naga::Function>>,
)
    «requires wf(module), block_inv(module, block, old(visited)@, old(global_stages)@, stage), bounded(old(global_stages)@), stage.bits < 8,
    ensures
        bounded(final(global_stages)@), // [C03.blocks-bounded] no bit outside VERTEX|FRAGMENT|COMPUTE is ever added
        sound(old(global_stages)@, final(global_stages)@, stage, touched_block(module, *block)), // [C03.blocks-sound] a key changes only if it names a global reached through a function called in this block, and then gains exactly `stage`: no unused stage is ever added
        mono(old(global_stages)@, final(global_stages)@), // [C03.blocks-mono] no key disappears, no stage bit is lost
        vmono(old(visited)@, final(visited)@),
        new_done(module, old(visited)@, final(visited)@, final(global_stages)@, stage), // [C03.blocks-newdone] every function visited here has all its reachable globals marked
        forall|c: int| #[trigger] block_calls(block, c) ==> callee_post(module, c, final(visited)@, final(global_stages)@, stage), // [C03.blocks-complete] every function called anywhere in the block (nested blocks, if/else, switch cases, loop body AND continuing) is visited and done
    decreases unvisited(module, old(visited)@), 0nat, block_height(block), // [C20.blocks-measure] a callee is expanded only when the visited set strictly grows»
{
    «proof { lemma_bits(); }
    let ghost v0 = visited@;
    let ghost gs0 = global_stages@;
    let ghost b0 = *block;
    proof { lemma_sound_refl(gs0, stage, touched_block(module, b0)); }»
    for statement in «it:» block.iter()
        «invariant
            v0 == old(visited)@,
            b0 == *block,
            it.seq().len() == block_stmts(&b0).len(),
            forall|j: int| 0 <= j < it.seq().len() ==> *(#[trigger] it.seq()[j]) == block_stmts(&b0)[j],
            wf(module), bounded(global_stages@), stage.bits < 8,
            mono(gs0, global_stages@), vmono(v0, visited@), new_done(module, v0, visited@, global_stages@, stage),
            block_inv(module, &b0, visited@, global_stages@, stage),
            sound(gs0, global_stages@, stage, touched_block(module, b0)),
            forall|jj: int, c: int| 0 <= jj < it.index@ && #[trigger] calls_at(&b0, jj, c) ==> callee_post(module, c, visited@, global_stages@, stage),»
    {
        «broadcast use axiom_arena_index_req, axiom_handle_key_model, axiom_mk_handle, vstd::std_specs::btree::group_btree_axioms, vstd::std_specs::hash::group_hash_axioms, vstd::laws_cmp::group_laws_cmp, axiom_string_obeys_cmp;
        proof { lemma_bits(); }
        let ghost j = it.index@;
        let ghost v1 = visited@;
        let ghost gs1 = global_stages@;
        assert(*it.seq()[j] == block_stmts(&b0)[j]);
        let ghost st = block_stmts(&b0)[j];
        let ghost tb = touched_block(module, b0);»
        match statement {
            naga::Statement::Block(block) => {
                «proof {
                    assert(sub_blocks(&st) =~= seq![*block]);
                    lemma_sub_inv(module, &b0, j, 0, v1, gs1, stage);
                }
                proof { lemma_unvisited_mono(module, v0, visited@); axiom_block_height(&b0, j, 0); }»
                update_stages_blocks(module, block, global_stages, stage, visited);
                «proof {
                    lemma_touched_sub(module, &b0, j, 0);
                    lemma_sound_widen(gs1, global_stages@, stage, touched_block(module, *block), tb);
                    assert forall|c: int| #[trigger] calls_at(&b0, j, c) implies callee_post(module, c, visited@, global_stages@, stage) by {
                        let k = choose|k: int| #[trigger] calls_sub(&b0, j, k, c);
                        assert(k == 0);
                    }
                }»
            }
            naga::Statement::If { accept, reject, .. } => {
                «proof {
                    assert(sub_blocks(&st) =~= seq![*accept, *reject]);
                    lemma_sub_inv(module, &b0, j, 0, v1, gs1, stage);
                }
                proof { lemma_unvisited_mono(module, v0, visited@); axiom_block_height(&b0, j, 0); }»
                update_stages_blocks(module, accept, global_stages, stage, visited);
                «let ghost v2 = visited@;
                let ghost gs2 = global_stages@;
                proof {
                    lemma_touched_sub(module, &b0, j, 0);
                    lemma_sound_widen(gs1, gs2, stage, touched_block(module, *accept), tb);
                    lemma_block_inv_step(module, &b0, v1, v2, gs1, gs2, stage);
                    lemma_sub_inv(module, &b0, j, 1, v2, gs2, stage);
                }
                proof { lemma_unvisited_mono(module, v0, visited@); axiom_block_height(&b0, j, 1); }»
                update_stages_blocks(module, reject, global_stages, stage, visited);
                «proof {
                    lemma_touched_sub(module, &b0, j, 1);
                    lemma_sound_widen(gs2, global_stages@, stage, touched_block(module, *reject), tb);
                    lemma_sound_trans(gs1, gs2, global_stages@, stage, tb);
                    lemma_sub_post_mono(module, accept, v2, visited@, gs2, global_stages@, stage);
                    lemma_mono_trans(gs1, gs2, global_stages@);
                    lemma_new_done_trans(module, v1, v2, visited@, gs2, global_stages@, stage);
                    assert forall|c: int| #[trigger] calls_at(&b0, j, c) implies callee_post(module, c, visited@, global_stages@, stage) by {
                        let k = choose|k: int| #[trigger] calls_sub(&b0, j, k, c);
                        assert(k == 0 || k == 1);
                    }
                }»
            }
            naga::Statement::Switch { cases, .. } => {
                «proof { assert(sub_blocks(&st) =~= cases@.map_values(|c: naga::SwitchCase| c.body)); lemma_sound_refl(gs1, stage, tb); }»
                for c in «it2:» cases
                    «invariant
                        v0 == old(visited)@, b0 == *block, vmono(v0, v1), mono(gs0, gs1),
                        it2.seq().len() == cases@.len(),
                        forall|k: int| 0 <= k < it2.seq().len() ==> *(#[trigger] it2.seq()[k]) == cases@[k],
                        sub_blocks(&st) =~= cases@.map_values(|c: naga::SwitchCase| c.body),
                        st == block_stmts(&b0)[j], 0 <= j < block_stmts(&b0).len(),
                        wf(module), bounded(global_stages@), stage.bits < 8,
                        mono(gs1, global_stages@), vmono(v1, visited@), new_done(module, v1, visited@, global_stages@, stage),
                        block_inv(module, &b0, visited@, global_stages@, stage),
                        tb == touched_block(module, b0), sound(gs1, global_stages@, stage, tb),
                        forall|k: int| 0 <= k < it2.index@ ==> sub_post(module, &#[trigger] sub_blocks(&st)[k], visited@, global_stages@, stage),»
                {
                    «proof { lemma_bits(); }
                    let ghost k = it2.index@;
                    let ghost v2 = visited@;
                    let ghost gs2 = global_stages@;
                    assert(*it2.seq()[k] == cases@[k]);
                    proof {
                        assert(sub_blocks(&st)[k] == c.body);
                        lemma_sub_inv(module, &b0, j, k, v2, gs2, stage);
                    }
                    proof { lemma_mono_trans(gs0, gs1, gs2); lemma_vmono_trans(v0, v1, v2); lemma_unvisited_mono(module, v0, visited@); axiom_block_height(&b0, j, k); }»
                    update_stages_blocks(module, &c.body, global_stages, stage, visited);
                    «proof {
                        lemma_touched_sub(module, &b0, j, k);
                        lemma_sound_widen(gs2, global_stages@, stage, touched_block(module, c.body), tb);
                        lemma_sound_trans(gs1, gs2, global_stages@, stage, tb);
                        lemma_mono_trans(gs1, gs2, global_stages@);
                        lemma_new_done_trans(module, v1, v2, visited@, gs2, global_stages@, stage);
                        lemma_block_inv_step(module, &b0, v2, visited@, gs2, global_stages@, stage);
                        assert forall|kk: int| 0 <= kk < k + 1 implies sub_post(module, &#[trigger] sub_blocks(&st)[kk], visited@, global_stages@, stage) by {
                            if kk < k { lemma_sub_post_mono(module, &sub_blocks(&st)[kk], v2, visited@, gs2, global_stages@, stage); }
                        }
                    }»
                }
                «proof {
                    assert forall|c: int| #[trigger] calls_at(&b0, j, c) implies callee_post(module, c, visited@, global_stages@, stage) by {
                        let k = choose|k: int| #[trigger] calls_sub(&b0, j, k, c);
                        assert(sub_post(module, &sub_blocks(&st)[k], visited@, global_stages@, stage));
                    }
                }»
            }
            naga::Statement::Loop {
                body, continuing, ..
            } => {
                «proof {
                    // the two sub-blocks are named through sub_blocks(&st), not through the pattern's variables: an arm that
                    // forgets one of them then fails the obligation below instead of leaving a dangling name
                    assert(sub_blocks(&st).len() == 2 && sub_blocks(&st)[0] == *body);
                    lemma_sub_inv(module, &b0, j, 0, v1, gs1, stage);
                }
                proof { lemma_unvisited_mono(module, v0, visited@); axiom_block_height(&b0, j, 0); }»
                update_stages_blocks(module, body, global_stages, stage, visited);
                «let ghost v2 = visited@;
                let ghost gs2 = global_stages@;
                proof {
                    lemma_touched_sub(module, &b0, j, 0);
                    lemma_sound_widen(gs1, gs2, stage, touched_block(module, sub_blocks(&st)[0]), tb);
                    lemma_block_inv_step(module, &b0, v1, v2, gs1, gs2, stage);
                    lemma_sub_inv(module, &b0, j, 1, v2, gs2, stage);
                }
                proof { lemma_unvisited_mono(module, v0, visited@); axiom_block_height(&b0, j, 1); }»
                update_stages_blocks(module, continuing, global_stages, stage, visited);
                «proof {
                    lemma_touched_sub(module, &b0, j, 1);
                    lemma_sound_widen(gs2, global_stages@, stage, touched_block(module, sub_blocks(&st)[1]), tb);
                    lemma_sound_trans(gs1, gs2, global_stages@, stage, tb);
                    lemma_sub_post_mono(module, body, v2, visited@, gs2, global_stages@, stage);
                    lemma_mono_trans(gs1, gs2, global_stages@);
                    lemma_new_done_trans(module, v1, v2, visited@, gs2, global_stages@, stage);
                    assert forall|c: int| #[trigger] calls_at(&b0, j, c) implies callee_post(module, c, visited@, global_stages@, stage) by {
                        let k = choose|k: int| #[trigger] calls_sub(&b0, j, k, c);
                        assert(k == 0 || k == 1);
                    }
                }»
            }
            naga::Statement::Call { function, .. } => {
                «let ghost c = handle_index(*function);
                proof {
                    assert(stmt_call(&st, c));
                    assert(calls_at(&b0, j, c));
                    lemma_block_calls(&b0, c);
                    assert(block_calls(&b0, c));
                    assert(callee_inv(module, c, v1, gs1, stage));
                    assert(sub_blocks(&st) =~= Seq::<naga::Block>::empty());
                }»
                if visited.insert(*function) {
                    «proof {
                        lemma_enter_callee(module, c, v1, gs1, stage);
                        assert(visited@ =~= v1.insert(mk_handle(c)));
                    }
                    let ghost v2 = visited@;
                    assert(vmono(v1, v2));
                    proof { lemma_unvisited_mono(module, v0, v1); lemma_unvisited_insert(module, v1, c); }»
                    update_stages(
                        module,
                        &module.functions[*function],
                        global_stages,
                        stage,
                        visited,
                    );
                    «proof {
                        lemma_touched_call(module, &b0, c);
                        lemma_sound_widen(gs1, global_stages@, stage, touched_fn(module, fun(module, c)), tb);
                        lemma_done_from_top(module, c, global_stages@, stage);
                        assert(vis(v2, c));
                        assert forall|d: int| #[trigger] vis(visited@, d) && !vis(v1, d) implies done(module, global_stages@, stage, d) by {
                            if vis(v2, d) {
                                axiom_mk_handle_idx::<naga::Function>(d);
                                axiom_mk_handle_idx::<naga::Function>(c);
                                assert(d == c);
                            }
                        }
                    }»
                }
                «proof {
                    if vis(v1, c) && visited@ == v1 && global_stages@ == gs1 { lemma_sound_refl(gs1, stage, tb); }
                    assert(callee_post(module, c, visited@, global_stages@, stage));
                    assert forall|c2: int| #[trigger] calls_at(&b0, j, c2) implies callee_post(module, c2, visited@, global_stages@, stage) by {
                        assert(c2 == c);
                    }
                }»
            }
            _ => «{
                proof {
                    lemma_sound_refl(gs1, stage, tb);
                    assert(sub_blocks(&st) =~= Seq::<naga::Block>::empty());
                    assert forall|c: int| #[trigger] calls_at(&b0, j, c) implies callee_post(module, c, visited@, global_stages@, stage) by {
                        assert(!stmt_call(&st, c));
                    }
                }»
                ()
            «}»,
        }
        «proof {
            lemma_sound_trans(gs0, gs1, global_stages@, stage, tb);
            lemma_stmt_step(module, &b0, j, v0, v1, visited@, gs0, gs1, global_stages@, stage);
        }»
    }
    «proof {
        assert forall|c: int| #[trigger] block_calls(&b0, c) implies callee_post(module, c, visited@, global_stages@, stage) by {
            lemma_block_calls(&b0, c);
            let i = choose|i: int| #[trigger] calls_at(&b0, i, c);
        }
    }»
}
//@end

//@fn wgsl.rs::update_stages props=C02,C03,C13
fn update_stages(
    module: &naga::Module,
    function: &naga::Function,
    global_stages: &mut BTreeMap<String, wgpu::ShaderStages>,
    stage: wgpu::ShaderStages,
    visited: &mut HashSet<naga::Handle<naga::Function>>,
)
    «requires wf(module), fn_ok(module, function, nfun(module)),
        fn_inv(module, function, old(visited)@, old(global_stages)@, stage), bounded(old(global_stages)@), stage.bits < 8,
    ensures
        bounded(final(global_stages)@), // [C03.fn-bounded]
        sound(old(global_stages)@, final(global_stages)@, stage, touched_fn(module, *function)), // [C03.fn-sound] a key changes only if it names a global this function reaches, and then gains exactly `stage`
        mono(old(global_stages)@, final(global_stages)@), // [C03.fn-mono]
        vmono(old(visited)@, final(visited)@),
        new_done(module, old(visited)@, final(visited)@, final(global_stages)@, stage), // [C03.fn-newdone]
        fn_post(module, function, final(global_stages)@, stage), // [C03.fn-complete] every named global reachable from this function (directly or through any call chain) carries `stage`
    decreases unvisited(module, old(visited)@), 1nat, 0nat, // [C20.fn-measure] at most one expansion per function per entry point»
{
    «broadcast use axiom_arena_index_req, axiom_handle_key_model, axiom_mk_handle, vstd::std_specs::btree::group_btree_axioms, vstd::std_specs::hash::group_hash_axioms, vstd::laws_cmp::group_laws_cmp, axiom_string_obeys_cmp;
    proof { lemma_bits(); }
    let ghost v0 = visited@;
    let ghost gs0 = global_stages@;
    assert forall|c: int| #[trigger] block_calls(&function.body, c) implies 0 <= c < nfun(module) && callee_inv(module, c, v0, gs0, stage) by {
        assert(fn_calls(function, c));
    }»
    // Search the function body to find function call statements
    update_stages_blocks(module, &function.body, global_stages, stage, visited);
    «let ghost tf = touched_fn(module, *function);
    proof {
        lemma_touched_body(module, function);
        lemma_sound_widen(gs0, global_stages@, stage, touched_block(module, function.body), tf);
        lemma_fn_inv_step(module, function, v0, visited@, gs0, global_stages@, stage);
    }»

    // Search the function body to find used globals.
    for (_, e) in «it:» function.expressions.iter()
        «invariant
            v0 == old(visited)@,
            it.iter.obeys_prophetic_iter_laws(),
            it.seq().len() == exprs(function).len(),
            forall|j: int| 0 <= j < it.seq().len() ==> *(#[trigger] it.seq()[j]).1 == exprs(function)[j],
            wf(module), fn_ok(module, function, nfun(module)), bounded(global_stages@), stage.bits < 8,
            mono(gs0, global_stages@), vmono(v0, visited@), new_done(module, v0, visited@, global_stages@, stage),
            fn_inv(module, function, visited@, global_stages@, stage),
            tf == touched_fn(module, *function), sound(gs0, global_stages@, stage, tf),
            forall|c: int| #[trigger] block_calls(&function.body, c) ==> callee_post(module, c, visited@, global_stages@, stage),
            forall|j: int, c: int| 0 <= j < it.index@ && #[trigger] expr_call(&exprs(function)[j], c) ==> callee_post(module, c, visited@, global_stages@, stage),
            forall|j: int, g: int| 0 <= j < it.index@ && #[trigger] expr_global(&exprs(function)[j], g) && gname(module, g) is Some ==> has(global_stages@, gname(module, g)->0, stage), // [C03.fn-complete] [C02.fn-complete] [C13.fn-complete] every named global mentioned by an expression looked at so far carries `stage` - whatever its address space (push constants, private and workgroup variables included)»
    {
        «broadcast use axiom_arena_index_req, axiom_handle_key_model, axiom_mk_handle, vstd::std_specs::btree::group_btree_axioms, vstd::std_specs::hash::group_hash_axioms, vstd::laws_cmp::group_laws_cmp, axiom_string_obeys_cmp;
        proof { lemma_bits(); }
        let ghost j = it.index@;
        let ghost v1 = visited@;
        let ghost gs1 = global_stages@;
        assert(*it.seq()[j].1 == exprs(function)[j]);»
        match e {
            naga::Expression::GlobalVariable(g) => {
                «assert(expr_global(&exprs(function)[j], handle_index(*g)));
                assert(fn_uses(function, handle_index(*g)));»
                let global = &module.global_variables[*g];
                if let Some(name) = &global.name {
                    let stages = global_stages
                        .entry(name.clone())
                        .or_insert(wgpu::ShaderStages::NONE);
                    *stages = stages.union(stage);
                }
                «proof {
                    lemma_bits8();
                    assert(bounded(global_stages@));
                    assert(reach_top(module, function, handle_index(*g)));
                    assert(sound(gs1, global_stages@, stage, tf)) by {
                        assert(forall|y: u32| (0u32 | y) == y) by(bit_vector);
                        assert(forall|x: u32, y: u32| #[trigger] (x | y) == (y | x)) by(bit_vector); // the union may be written either way round
                        assert(forall|y: u32| #[trigger] (y | y) == y) by(bit_vector); // .. and a new entry may start from the stage itself instead of NONE
                        if global.name is Some { assert(tf(global.name->0)); }
                    }
                    assert(mono(gs1, global_stages@));
                    lemma_sound_trans(gs0, gs1, global_stages@, stage, tf);
                    lemma_mono_trans(gs0, gs1, global_stages@);
                    lemma_fn_inv_step(module, function, v1, visited@, gs1, global_stages@, stage);
                    assert forall|c: int| #[trigger] block_calls(&function.body, c) implies callee_post(module, c, visited@, global_stages@, stage) by {
                        lemma_post_mono(module, c, v1, visited@, gs1, global_stages@, stage);
                    }
                    assert forall|jj: int, c: int| 0 <= jj < j + 1 && #[trigger] expr_call(&exprs(function)[jj], c) implies callee_post(module, c, visited@, global_stages@, stage) by {
                        lemma_post_mono(module, c, v1, visited@, gs1, global_stages@, stage);
                    }
                    assert forall|d: int| #[trigger] vis(visited@, d) && !vis(v0, d) implies done(module, global_stages@, stage, d) by {
                        lemma_done_mono(module, gs1, global_stages@, stage, d);
                    }
                }»
            }
            naga::Expression::CallResult(f) => {
                // Function call expressions
                «let ghost c = handle_index(*f);
                assert(expr_call(&exprs(function)[j], c));
                assert(fn_calls(function, c));
                assert(callee_inv(module, c, v1, gs1, stage));»
                if visited.insert(*f) {
                    «proof {
                        lemma_enter_callee(module, c, v1, gs1, stage);
                        assert(visited@ =~= v1.insert(mk_handle(c)));
                    }
                    let ghost v2 = visited@;
                    assert(vmono(v1, v2));
                    proof { lemma_unvisited_mono(module, v0, v1); lemma_unvisited_insert(module, v1, c); }»
                    update_stages(module, &module.functions[*f], global_stages, stage, visited);
                    «proof {
                        lemma_touched_callresult(module, function, c);
                        lemma_sound_widen(gs1, global_stages@, stage, touched_fn(module, fun(module, c)), tf);
                        lemma_done_from_top(module, c, global_stages@, stage);
                        assert(vis(v2, c));
                        // new_done from v1: c itself and everything visited during the call
                        assert forall|d: int| #[trigger] vis(visited@, d) && !vis(v1, d) implies done(module, global_stages@, stage, d) by {
                            if vis(v2, d) {
                                axiom_mk_handle_idx::<naga::Function>(d);
                                axiom_mk_handle_idx::<naga::Function>(c);
                                assert(d == c);
                            }
                        }
                        assert(vmono(v1, visited@));
                    }»
                }
                «proof {
                    // the callee was visited before (no ghost `else` branch: if the guard disappears this still parses and the
                    // obligations of the unguarded recursive call fail instead)
                    if vis(v1, c) && visited@ == v1 && global_stages@ == gs1 { lemma_sound_refl(gs1, stage, tf); }
                    lemma_sound_trans(gs0, gs1, global_stages@, stage, tf);
                    assert(callee_post(module, c, visited@, global_stages@, stage));
                    lemma_mono_trans(gs0, gs1, global_stages@);
                    lemma_new_done_trans(module, v0, v1, visited@, gs1, global_stages@, stage);
                    lemma_fn_inv_step(module, function, v1, visited@, gs1, global_stages@, stage);
                    assert forall|c2: int| #[trigger] block_calls(&function.body, c2) implies callee_post(module, c2, visited@, global_stages@, stage) by {
                        lemma_post_mono(module, c2, v1, visited@, gs1, global_stages@, stage);
                    }
                    assert forall|jj: int, c2: int| 0 <= jj < j + 1 && #[trigger] expr_call(&exprs(function)[jj], c2) implies callee_post(module, c2, visited@, global_stages@, stage) by {
                        if jj < j { lemma_post_mono(module, c2, v1, visited@, gs1, global_stages@, stage); }
                    }
                    assert forall|jj: int, g: int| 0 <= jj < j + 1 && #[trigger] expr_global(&exprs(function)[jj], g) && gname(module, g) is Some implies has(global_stages@, gname(module, g)->0, stage) by {
                        assert(has(gs1, gname(module, g)->0, stage));
                    }
                }»
            }
            _ => (),
        }
    }
    «proof {
        assert forall|g: int| #[trigger] reach_top(module, function, g) && gname(module, g) is Some implies has(global_stages@, gname(module, g)->0, stage) by {
            if fn_uses(function, g) {
                let i = choose|i: int| 0 <= i < exprs(function).len() && #[trigger] expr_global(&exprs(function)[i], g);
            } else {
                let c = choose|c: int| 0 <= c < nfun(module) && #[trigger] fn_calls(function, c) && reach_idx(module, c, g);
                if block_calls(&function.body, c) {
                    assert(callee_post(module, c, visited@, global_stages@, stage));
                } else {
                    let i = choose|i: int| 0 <= i < exprs(function).len() && #[trigger] expr_call(&exprs(function)[i], c);
                    assert(callee_post(module, c, visited@, global_stages@, stage));
                }
                assert(done(module, global_stages@, stage, c));
            }
        }
    }»
}
//@end

//@fn wgsl.rs::global_shader_stages props=C02,C03,C13
pub fn global_shader_stages(module: &naga::Module) -> «(r:» BTreeMap<String, wgpu::ShaderStages>«)
    requires wf(module), wf_entries(module),
    ensures
        bounded(r@), // [C03.bounded] only VERTEX | FRAGMENT | COMPUTE bits occur in any visibility
        gss_exact(module, r@, module.entry_points@.len() as int), // [C03.exact] no unused stage is ever added: every stage bit of a visibility is owed to an entry point of that stage that statically reaches a global of that name, and a binding nothing reaches has no entry (empty visibility)
        gss_complete(module, r@, module.entry_points@.len() as int), // [C03.complete] no using stage is ever missing: a global reachable from an entry point of stage S (through any chain of calls, any nesting) has S in its visibility»
{
    // Collect the shader stages for all entries that access a global variable.
    // This is referred to as being "statically accessed" in the WGSL specification.
    let mut global_stages = BTreeMap::new();

    for entry in «it:» &module.entry_points
        «invariant
            wf(module), wf_entries(module),
            it.seq().len() == module.entry_points@.len(),
            forall|k: int| 0 <= k < it.seq().len() ==> *(#[trigger] it.seq()[k]) == module.entry_points@[k],
            gss_complete(module, global_stages@, it.index@ as int), bounded(global_stages@), gss_exact(module, global_stages@, it.index@ as int),»
    {
        «broadcast use axiom_handle_key_model, vstd::std_specs::btree::group_btree_axioms, vstd::std_specs::hash::group_hash_axioms, vstd::laws_cmp::group_laws_cmp, axiom_string_obeys_cmp;
        let ghost j = it.index@ as int;
        let ghost gs1 = global_stages@;
        assert(*it.seq()[j] == module.entry_points@[j]);
        assert(*entry == module.entry_points@[j]);»
        let stage = naga_stages(entry.stage);
        // Visit each called function at most once per entry point.
        let mut visited = HashSet::new();
        «proof {
            assert(fn_ok(module, &entry.function, nfun(module)));
            assert forall|c: int| #[trigger] fn_calls(&entry.function, c) implies 0 <= c < nfun(module) && callee_inv(module, c, visited@, gs1, stage) by {
                assert(!vis(visited@, c));
            }
        }»
        update_stages(
            module,
            &entry.function,
            &mut global_stages,
            stage,
            &mut visited,
        );
        «proof {
            lemma_exact_step(module, gs1, global_stages@, j);
            lemma_bits();
            assert forall|jj: int, g: int| 0 <= jj < j + 1 && #[trigger] reach_top(module, &module.entry_points@[jj].function, g) && gname(module, g) is Some
                implies has(global_stages@, gname(module, g)->0, stage_of(module.entry_points@[jj].stage)) by {
                if jj < j {
                    assert(has(gs1, gname(module, g)->0, stage_of(module.entry_points@[jj].stage)));
                    assert(gs1.contains_key(gname(module, g)->0));
                }
            }
        }»
    }

    global_stages
}
//@end

} // verus!
fn main() {}
