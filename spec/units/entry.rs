//@props C07 C12 C14
//@hoist-closure-patterns :: closure parameter patterns hoisted into a let (Verus accepts only variables as closure parameters)
//@hoist-format-captures :: format! inline captures hoisted to positional arguments
//@rewrite `.filter_map(` => `.shim_filter_map(` :: provided trait method Iterator::filter_map: stand-in with the std meaning (spec/lib/iter_shims.rs)
// Unit entry: entry::{entry_point_constants, fragment_states, vertex_states, vertex_struct_methods, vertex_input_structs}.
#![feature(allocator_api)]
#![recursion_limit = "4096"]
#![allow(unused_imports, unused_variables, unused_mut, dead_code, unused_braces, unused_parens, unused_macros)]
use vstd::prelude::*;
use vstd::std_specs::iter::IteratorSpec;
extern crate naga;
extern crate proc_macro2;
extern crate syn;
extern crate case;
extern crate wgpu_types;
extern crate indexmap;
extern crate rustc_hash;
use proc_macro2::{TokenStream, Literal, Span};
use syn::Ident;
use naga::ShaderStage;
use case::CaseExt;
use naga::{Function, Module};
#[path = "../../spec/lib/prelude.rs"] pub mod prelude;
#[path = "../../spec/lib/iter_shims.rs"] pub mod iter_shims;
#[macro_use] #[path = "../../spec/lib/tokens.rs"] pub mod tokens;
#[path = "../../spec/lib/wgpu_shim.rs"] pub mod wgpu;
#[path = "../../spec/lib/model_common.rs"] pub mod model_common;
#[path = "../../spec/lib/model_entry.rs"] pub mod model_entry;
use prelude::*;
use iter_shims::*;
use tokens::*;
use model_common::*;
use model_entry::*;

verus! {

//@stub entry.rs::fragment_target_count proved-in=entry_count
«#[verifier::external_body]»
pub fn fragment_target_count(module: &Module, f: &Function) -> «(r:» usize«)
    requires
        result_wf(module, f), // [C14.pre] the result's type handle is in range (naga invariant)
    ensures
        needed_targets(module, f, r as int), // [C14.targets] every written @location is < r, and r is 0 or r-1 is written»
{ unimplemented!() }
//@end

//@fn entry.rs::entry_point_constants props=C14
pub fn entry_point_constants(module: &naga::Module) -> «(r:» TokenStream«)
    ensures
        ts_view(&r) == entry_consts_toks(module.entry_points@), // [C14.entry-consts] one `pub const ENTRY_{UPPER}: &str = "exact WGSL name";` per entry point, in order»
{
    «let ghost es = module.entry_points@;»
    let entry_points: Vec<TokenStream> = module
        .entry_points
        .iter()
        .map(|entry_point| «-> (o: TokenStream) ensures ts_view(&o) == entry_const_toks(entry_point)» {
            let entry_name = Literal::string(&entry_point.name);
            let const_name = Ident::new(
                &format!("ENTRY_{}", &entry_point.name.to_uppercase()),
                Span::call_site(),
            );
            quote! {
                pub const #const_name: &str = #entry_name;
            }
        })
        .collect();
    «proof { assert(toks_of(entry_points@) =~= Seq::new(es.len(), |i: int| entry_const_toks(&es[i]))); }»

    quote! {
        #(#entry_points)*
    }
}
//@end

//@fn entry.rs::fragment_states props=C12,C14
pub fn fragment_states(module: &naga::Module) -> «(r:» TokenStream«)
    requires
        entries_wf(module), // [C14.frag-pre] result type handles in range (naga invariant)
    ensures
        ts_view(&r) == fragment_states_toks(module), // [C14.fragment-states] [C12.fragment-pass-through] per fragment entry a helper asking for exactly the needed number of colour targets, naming the entry through its ENTRY_ constant and passing overrides.constants() iff the module has overrides; fragment_state forwards module, name, targets, constants unchanged»
{
    «let ghost es = module.entry_points@;
    let ghost mut gv;»
    let entries: Vec<TokenStream> «= { let __v» = module
        .entry_points
        .iter()
        .shim_filter_map(|entry_point| «-> (o: Option<TokenStream>) requires result_wf(module, &entry_point.function) ensures opt_ts(o) == frag_entry_toks(module, entry_point) {» match &entry_point.stage {
            ShaderStage::Fragment => {
                let fn_name =
                    Ident::new(&format!("{}_entry", &entry_point.name), Span::call_site());

                let const_name = Ident::new(
                    &format!("ENTRY_{}", &entry_point.name.to_uppercase()),
                    Span::call_site(),
                );

                let target_count =
                    Literal::usize_unsuffixed(«{ let __n =» fragment_target_count(module, &entry_point.function)«; proof {
                        lemma_needed_unique(module, &entry_point.function, __n as int, target_count(module, &entry_point.function));
                    } __n }»);

                let overrides = if !module.overrides.is_empty() {
                    Some(quote!(overrides: &OverrideConstants))
                } else {
                    None
                };

                let constants = if !module.overrides.is_empty() {
                    quote!(overrides.constants())
                } else {
                    quote!(Default::default())
                };

                Some(quote! {
                    pub fn #fn_name(
                        targets: [Option<wgpu::ColorTargetState>; #target_count],
                        #overrides
                    ) -> FragmentEntry<#target_count> {
                        FragmentEntry {
                            entry_point: #const_name,
                            targets,
                            constants: #constants
                        }
                    }
                })
            }
            _ => None,
        } «}»)«; proof { gv = __v;
            let ys = choose|ys: Seq<Option<TokenStream>>| #![trigger somes(ys)] ys.len() == es.len()
                && (forall|i: int| 0 <= i < ys.len() ==> opt_ts(#[trigger] ys[i]) == frag_entry_toks(module, &es[i]))
                && __v.remaining() == somes(ys);
            let zs = Seq::new(es.len(), |i: int| frag_entry_toks(module, &es[i]));
            lemma_somes_toks(ys, zs);
            assert(toks_of(__v.remaining()) =~= somes(zs));
        } __v }»
        .collect();
    «proof { assert(entries@ == gv.remaining()); }»

    // Don't generate unused code.
    if entries.is_empty() {
        quote!()
    } else {
        quote! {
            #[derive(Debug)]
            pub struct FragmentEntry<const N: usize> {
                pub entry_point: &'static str,
                pub targets: [Option<wgpu::ColorTargetState>; N],
                pub constants: std::collections::HashMap<String, f64>,
            }

            pub fn fragment_state<'a, const N: usize>(
                module: &'a wgpu::ShaderModule,
                entry: &'a FragmentEntry<N>,
            ) -> wgpu::FragmentState<'a> {
                wgpu::FragmentState {
                    module,
                    entry_point: Some(entry.entry_point),
                    targets: &entry.targets,
                    compilation_options: wgpu::PipelineCompilationOptions {
                        constants: &entry.constants,
                        ..Default::default()
                    },
                }
            }

            #(#entries)*
        }
    }
}
//@end

} // verus!
fn main() {}
