//@props C12 C15
//@hoist-closure-patterns :: closure parameter patterns hoisted into a let (Verus accepts only variables as closure parameters)
//@rewrite `.to_string()` => `.shim_to_string()` :: ToString::to_string comes from the blanket impl over Display; stand-in with an uninterpreted function of the receiver (spec/lib/print_model.rs)
//@strip-attrs derive :: derive output is outside Verus
//@derive-keep Clone|Copy
//@rewrite `.filter_map(` => `.shim_filter_map(` :: provided trait method Iterator::filter_map: stand-in with the std meaning (spec/lib/iter_shims.rs)
// Unit consts: consts::{consts, pipeline_overridable_constants, override_key}.
#![feature(allocator_api)]
#![recursion_limit = "4096"]
#![allow(unused_imports, unused_variables, unused_mut, dead_code, unused_braces, unused_parens, unused_macros)]
use vstd::prelude::*;
use vstd::std_specs::iter::IteratorSpec;
extern crate naga;
extern crate proc_macro2;
extern crate syn;
extern crate prettyplease;
extern crate wgpu_types;
extern crate indexmap;
extern crate rustc_hash;
use proc_macro2::{TokenStream, Literal, Span};
use syn::Ident;
#[path = "../../spec/lib/prelude.rs"] pub mod prelude;
#[path = "../../spec/lib/iter_shims.rs"] pub mod iter_shims;
#[macro_use] #[path = "../../spec/lib/tokens.rs"] pub mod tokens;
#[path = "../../spec/lib/wgpu_shim.rs"] pub mod wgpu;
#[path = "../../spec/lib/model_common.rs"] pub mod model_common;
#[path = "../../spec/lib/print_model.rs"] pub mod print_model;
#[path = "../../spec/lib/model_types.rs"] pub mod model_types;
#[path = "../../spec/lib/model_consts.rs"] pub mod model_consts;
use prelude::*;
use iter_shims::*;
use tokens::*;
use model_common::*;
use model_types::*;
use model_consts::*;
use print_model::*;

verus! {

//@fn consts.rs::consts props=C15
pub fn consts(module: &naga::Module) -> «(r:» Vec<TokenStream>«)
    requires
        consts_wf(module), // [C15.pre] expression and type handles in range (naga invariant)
    ensures
        toks_of(r@) =~= consts_items(module), // [C15.items] every named constant of scalar type: `pub const NAME: TY = VALUE;` with the Rust type of the WGSL type and a literal carrying exactly the constant-evaluated value; every other constant: no tokens; arena order»
{
    «broadcast use axiom_arena_index_req, axiom_uarena_index_req;
    let ghost cs = constants(module);
    let ghost mut gi;
    let ghost mut gv;
    // Create matching Rust constants for WGSl constants.
    { let __r: Vec<TokenStream> = { let __v = { let __i =» module
        .constants
        .iter()«; proof { gi = __i;
            assert forall|i: int| 0 <= i < __i.remaining().len() implies *(#[trigger] __i.remaining()[i]).1 == cs[i] by {}
        } __i }»
        .shim_filter_map(|__p0| -> «(o:» Option<TokenStream>«) requires consts_wf(module), exists|i: int| 0 <= i < constants(module).len() && *__p0.1 == #[trigger] constants(module)[i] ensures (match o { Some(t) => Some(ts_view(&t)), None => None }) == const_item(module, __p0.1)» { let (_, t) = __p0;
            let name = Ident::new(t.name.as_ref()?, Span::call_site());

            // TODO: Add support for f64 and f16 once naga supports them.
            let literal = match &module.global_expressions[t.init] {
                naga::Expression::Literal(literal) => Some(*literal),
                // Zero values like i32() are not stored as literals.
                naga::Expression::ZeroValue(ty) => match &module.types[*ty].inner {
                    naga::TypeInner::Scalar(scalar) => naga::Literal::zero(*scalar),
                    _ => None,
                },
                _ => None,
            }?;
            let type_and_value = match literal {
                naga::Literal::F64(v) => quote!(f64 = #v),
                naga::Literal::F32(v) => quote!(f32 = #v),
                naga::Literal::U32(v) => quote!(u32 = #v),
                naga::Literal::I32(v) => quote!(i32 = #v),
                naga::Literal::U64(v) => quote!(u64 = #v),
                naga::Literal::Bool(v) => quote!(bool = #v),
                naga::Literal::I64(v) => quote!(i64 = #v),
                naga::Literal::AbstractInt(v) => quote!(i64 = #v),
                naga::Literal::AbstractFloat(v) => quote!(f64 = #v),
            };

            Some(quote!( pub const #name: #type_and_value;))
        })«; proof {
            gv = __v;
            let rem = gi.remaining();
            let ys = choose|ys: Seq<Option<TokenStream>>| #![trigger somes(ys)] ys.len() == rem.len()
                && (forall|i: int| 0 <= i < ys.len() ==> (match #[trigger] ys[i] { Some(t) => Some(ts_view(&t)), None => None }) == const_item(module, rem[i].1))
                && __v.remaining() == somes(ys);
            let zs = Seq::new(cs.len(), |i: int| const_item(module, &cs[i]));
            assert forall|i: int| 0 <= i < ys.len() implies #[trigger] zs[i] == (match ys[i] { Some(t) => Some(ts_view(&t)), None => None }) by {
                assert(*rem[i].1 == cs[i]);
            }
            lemma_somes_toks(ys, zs);
            assert(toks_of(__v.remaining()) =~= somes(zs));
        } __v }»
        .collect()«; proof { assert(__r@ == gv.remaining()); } __r» }
«}»
//@end

//@item lib.rs::enum MatrixVectorTypes
#[derive(Clone, Copy)]
pub enum MatrixVectorTypes {
    /// Rust types like `[f32; 4]` or `[[f32; 4]; 4]`.
    Rust,

    /// `glam` types like `glam::Vec4` or `glam::Mat4`.
    /// Types not representable by `glam` like `mat2x3<f32>` will use the output from [MatrixVectorTypes::Rust].
    Glam,

    /// `nalgebra` types like `nalgebra::SVector<f64, 4>` or `nalgebra::SMatrix<f32, 2, 3>`.
    Nalgebra,
}
//@end

pub mod wgsl {
    use super::*;
//@stub wgsl.rs::rust_type proved-in=wgsl_types
«#[verifier::external_body]»
pub fn rust_type(module: &naga::Module, ty: &naga::Type, format: MatrixVectorTypes) -> «(r:» TokenStream«)
    requires
        ty_supported(module, ty), // [C06.type-pre] a type of the module inside the documented feature set: every todo!()/panic! arm below is unreachable
    ensures
        ts_view(&r) == rty_toks(module, ty, format), // [C06.type] scalar table; vectors and matrices per representation; atomics -> scalar; fixed arrays keep their length (recursively); structs -> the emitted struct of the same name
    decreases ty_idx(module, ty),»
{ unimplemented!() }
//@end
}
use wgsl::rust_type;

pub open spec fn opt_ts(o: Option<TokenStream>) -> Option<Seq<Tok>> { match o { Some(t) => Some(ts_view(&t)), None => None } }
// `o` is one of the module's overrides (so the per-override preconditions apply to it)
pub open spec fn ov_in(m: &naga::Module, o: &naga::Override) -> bool {
    overrides_supported(m) && exists|i: int| 0 <= i < overrides(m).len() && *o == #[trigger] overrides(m)[i]
}

//@fn consts.rs::override_key props=C12
fn override_key(o: &naga::Override) -> «(r:» String«)
    requires
        o.name is Some,
    ensures
        r@ == override_key_spec(o), // [C12.key] the decimal @id when one is given, the name otherwise»
{
    // The @id(id) should be the name if present.
    o.id.map(|i| «-> (o2: String) ensures o2@ == dec_string(i as int) {» i.shim_to_string() «}»)
        .unwrap_or(o.name.clone().unwrap())
}
//@end

//@fn consts.rs::pipeline_overridable_constants props=C12
pub fn pipeline_overridable_constants(module: &naga::Module) -> «(r:» TokenStream«)
    requires
        overrides_supported(module), // [C12.pre] overrides are named, of a supported scalar type, type handles in range
    ensures
        ts_view(&r) == overrides_toks(module), // [C12.struct] one field per override in order (Option<T> exactly when there is a default); the map has every required override and inserts exactly the optional ones that are set, keyed by decimal @id or else by name, value as f64 (bool as 1.0/0.0); nothing is emitted when there are no overrides»
{
    «broadcast use axiom_arena_index_req, axiom_uarena_index_req;
    let ghost ovs = overrides(module);
    let ghost mut gi;»
    let overrides: Vec<_> = «{ let __i =» module.overrides.iter()«; proof { gi = __i;
            assert forall|i: int| 0 <= i < __i.remaining().len() implies *(#[trigger] __i.remaining()[i]).1 == ovs[i] by {}
        } __i }».map(|__p0| «-> (o2: &naga::Override) ensures o2 == __p0.1» { let (_, o) = __p0; o }).collect();
    «proof {
        assert(overrides@.len() == ovs.len());
        assert forall|i: int| 0 <= i < ovs.len() implies *(#[trigger] overrides@[i]) == ovs[i] by { assert(*gi.remaining()[i].1 == ovs[i]); }
    }»

    let fields: Vec<_> = overrides
        .iter()
        .map(|o| «-> (t: TokenStream) requires ov_in(module, *o) ensures ts_view(&t) == override_field(module, *o) /* [C12.field] named after the override, of the matching scalar type, Option exactly when the declaration has a default */» {
            let name = Ident::new(o.name.as_ref().unwrap(), Span::call_site());
            // TODO: Do we only need to handle scalar types here?
            «proof { lemma_override_field_type(module, *o); }»
            let ty = rust_type(module, &module.types[o.ty], MatrixVectorTypes::Rust);

            if o.init.is_some() {
                quote!(pub #name: Option<#ty>)
            } else {
                quote!(pub #name: #ty)
            }
        })
        .collect();

    «let ghost mut gr;»
    let required_entries: Vec<_> «= { let __v» = overrides
        .iter()
        .shim_filter_map(|o| «-> (t: Option<TokenStream>) requires ov_in(module, *o) ensures opt_ts(t) == override_required(module, *o)» {
            if o.init.is_some() {
                None
            } else {
                let key = override_key(o);

                let name = Ident::new(o.name.as_ref().unwrap(), Span::call_site());

                // TODO: Do we only need to handle scalar types here?
                let ty = &module.types[o.ty];
                let value = if matches!(ty.inner, naga::TypeInner::Scalar(s) if s.kind == naga::ScalarKind::Bool) {
                    quote!(if self.#name { 1.0 } else { 0.0})
                } else {
                    quote!(self.#name as f64)
                };

                Some(quote!((#key.to_owned(), #value)))
            }
        })«; proof { gr = __v;
            let ys = choose|ys: Seq<Option<TokenStream>>| #![trigger somes(ys)] ys.len() == ovs.len()
                && (forall|i: int| 0 <= i < ys.len() ==> opt_ts(#[trigger] ys[i]) == override_required(module, overrides@[i]))
                && __v.remaining() == somes(ys);
            let zs = Seq::new(ovs.len(), |i: int| override_required(module, &ovs[i]));
            assert forall|i: int| 0 <= i < ys.len() implies #[trigger] zs[i] == (match ys[i] { Some(t) => Some(ts_view(&t)), None => None }) by { assert(*overrides@[i] == ovs[i]); }
            lemma_somes_toks(ys, zs);
            assert(toks_of(__v.remaining()) =~= somes(zs));
        } __v }»
        .collect();

    // Add code for optionally inserting the constants with defaults.
    // Omitted constants will be initialized using the values defined in WGSL.
    «let ghost mut go;»
    let insert_optional_entries: Vec<_> «= { let __v» = overrides
        .iter()
        .shim_filter_map(|o| «-> (t: Option<TokenStream>) requires ov_in(module, *o) ensures opt_ts(t) == override_optional(module, *o)» {
            if o.init.is_some() {
                let key = override_key(o);

                // TODO: Do we only need to handle scalar types here?
                let ty = &module.types[o.ty];
                let value = if matches!(ty.inner, naga::TypeInner::Scalar(s) if s.kind == naga::ScalarKind::Bool) {
                    quote!(if value { 1.0 } else { 0.0})
                } else {
                    quote!(value as f64)
                };

                let name = Ident::new(o.name.as_ref().unwrap(), Span::call_site());

                Some(quote! {
                    if let Some(value) = self.#name {
                        entries.insert(#key.to_owned(), #value);
                    }
                })
            } else {
                None
            }
        })«; proof { go = __v;
            let ys = choose|ys: Seq<Option<TokenStream>>| #![trigger somes(ys)] ys.len() == ovs.len()
                && (forall|i: int| 0 <= i < ys.len() ==> opt_ts(#[trigger] ys[i]) == override_optional(module, overrides@[i]))
                && __v.remaining() == somes(ys);
            let zs = Seq::new(ovs.len(), |i: int| override_optional(module, &ovs[i]));
            assert forall|i: int| 0 <= i < ys.len() implies #[trigger] zs[i] == (match ys[i] { Some(t) => Some(ts_view(&t)), None => None }) by { assert(*overrides@[i] == ovs[i]); }
            lemma_somes_toks(ys, zs);
            assert(toks_of(__v.remaining()) =~= somes(zs));
        } __v }»
        .collect();
    «proof {
        assert(required_entries@ == gr.remaining());
        assert(insert_optional_entries@ == go.remaining());
        assert(toks_of(fields@) =~= Seq::new(ovs.len(), |i: int| override_field(module, &ovs[i])));
    }»

    let init_entries = if insert_optional_entries.is_empty() {
        quote!(let entries = std::collections::HashMap::from([#(#required_entries),*]);)
    } else {
        quote!(let mut entries = std::collections::HashMap::from([#(#required_entries),*]);)
    };

    if !fields.is_empty() {
        // Create a Rust struct that can initialize the constants dictionary.
        quote! {
            pub struct OverrideConstants {
                #(#fields),*
            }

            impl OverrideConstants {
                pub fn constants(&self) -> std::collections::HashMap<String, f64> {
                    #init_entries
                    #(#insert_optional_entries);*
                    entries
                }
            }
        }
    } else {
        quote!()
    }
}
//@end

} // verus!
fn main() {}
