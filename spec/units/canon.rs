//@props C19 C20
//@rewrite `.peekable()` => `.shim_peekable()` :: Iterator::peekable is a provided trait method (no specification possible); stand-in whose body is the real call, contract: yields what the underlying iterator yields (spec/lib/model_canon.rs)
//@rewrite `.to_string()` => `.shim_to_string()` :: ToString::to_string comes from the blanket impl over Display; stand-in: an uninterpreted function of the token tree (spec/lib/model_canon.rs)
//@rewrite `.starts_with(` => `.shim_starts_with(` :: str::starts_with is generic over the unstable Pattern trait; stand-in with an uninterpreted meaning (spec/lib/model_canon.rs)
//@rewrite `.ends_with(` => `.shim_ends_with(` :: as starts_with
// Unit canon: lib::token_text - the canonical token text that lib::is_same_program compares - verified against its definition
// (model_canon::canon_tree: tokens separated by spaces, groups inside their delimiters, a comma that ends a stream or group dropped
// and NOTHING else), with termination by the nesting of token groups.  Before this unit the function was a TRUSTED stub.
#![feature(allocator_api)]
#![recursion_limit = "4096"]
#![allow(unused_imports, unused_variables, unused_mut, dead_code, unused_braces, unused_parens, unused_macros)]
use vstd::prelude::*;
extern crate naga;
extern crate proc_macro2;
extern crate wgpu_types;
extern crate indexmap;
extern crate rustc_hash;
use proc_macro2::{TokenStream, TokenTree, Delimiter};
#[path = "../../spec/lib/prelude.rs"] pub mod prelude;
#[macro_use] #[path = "../../spec/lib/tokens.rs"] pub mod tokens;
#[path = "../../spec/lib/model_canon.rs"] pub mod model_canon;
use tokens::*;
use model_canon::*;

verus! {

//@fn lib.rs::token_text props=C19,C20
«#[verifier::loop_isolation(false)] #[verifier::allow_complex_invariants]»
fn token_text(tokens: TokenStream) -> «(r:» String«)
    ensures r@ == canon_text(ts_view(&tokens)), // [C19.canon] the text is the canonical text of the tokens: every token, in order, separated by spaces, groups inside their own delimiters; only a comma that is the last token of a stream or group is dropped
    decreases ts_height(&tokens), // [C20.token-text-measure] one call per token group: the recursion descends the nesting of groups»
{
    let mut text = String::new();
    «let ghost s0 = tokens;»
    let mut tokens = tokens.into_iter().shim_peekable();
    «let ghost all = tt_seq(&s0);
    let ghost mut k: int = 0;»
    while let Some(token) = tokens.next()
        «invariant
            laws(&tokens), dec(&tokens),
            all == tt_seq(&s0),
            0 <= k <= all.len(),
            rem(&tokens) == all.subrange(k, all.len() as int),
            text@ == canon_upto(&s0, k), // [C19.canon]
        ensures k == all.len(),
        decreases decn(&tokens),»
    {
        «proof {
            axiom_group_height(&s0, k);
            assert(token == all[k]);
            reveal_strlit("("); reveal_strlit(")"); reveal_strlit("{"); reveal_strlit("}"); reveal_strlit("["); reveal_strlit("]"); reveal_strlit("");
            assert(rem(&tokens) == all.subrange(k + 1, all.len() as int));
            k = k + 1;
        }»
        match token {
            TokenTree::Group(group) => {
                let (open, close) = match group.delimiter() {
                    Delimiter::Parenthesis => ("(", ")"),
                    Delimiter::Brace => ("{", "}"),
                    Delimiter::Bracket => ("[", "]"),
                    Delimiter::None => ("", ""),
                };
                text.push_str(open);
                «proof { axiom_canon_flat(&group_inner(&group)); }»
                text.push_str(&token_text(group.stream()));
                text.push_str(close);
            }
            TokenTree::Punct(punct) if punct.as_char() == ',' && tokens.peek().is_none() => {
                continue;
            }
            token => text.push_str(&token.shim_to_string()),
        }
        text.push(' ');
    }
    «proof { axiom_canon_flat(&s0); }»
    text
}
//@end

} // verus!
fn main() {}
