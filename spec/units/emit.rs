//@props C17
//@strip-attrs derive|non_exhaustive|error :: derive output (thiserror, Debug, Clone, ..) is outside Verus; variants and fields are kept
//@rewrite `path.to_string_lossy()` => `path_lossy(path)` :: Path::to_string_lossy returns a Cow<str>, for which Verus accepts no trait impls (format! argument view); stand-in returning the same text as a String (spec/lib/diag_model.rs)
//@rewrite `path.as_ref()` => `as_path(&path)` :: AsRef::as_ref on an `impl AsRef<Path>` argument has no Verus specification; stand-in that names the path text (spec/lib/diag_model.rs)
// Unit emit: CreateModuleError::{emit_to_stderr, emit_to_stderr_with_path, emit_to_string, emit_to_string_with_path}:
// rendering an error dispatches to naga's own renderer of that error with the SAME source and the SAME path (C17).
#![feature(allocator_api)]
#![recursion_limit = "4096"]
#![allow(unused_imports, unused_variables, unused_mut, dead_code, unused_braces, unused_parens, unused_macros)]
use vstd::prelude::*;
use vstd::std_specs::iter::IteratorSpec;
use std::path::Path;
extern crate naga;
extern crate proc_macro2;
extern crate syn;
extern crate wgpu_types;
extern crate indexmap;
extern crate rustc_hash;
use naga::WithSpan;
#[macro_use] #[path = "../../spec/lib/diag_model.rs"] pub mod diag_model;
use diag_model::*;

verus! {

//@item lib.rs::enum CreateModuleError


pub enum CreateModuleError {
    /// Bind group sets must be consecutive and start from 0.
    /// See `bind_group_layouts` for
    /// [PipelineLayoutDescriptor](https://docs.rs/wgpu/latest/wgpu/struct.PipelineLayoutDescriptor.html#).
    
    NonConsecutiveBindGroups,

    /// Each binding resource must be associated with exactly one binding index.
    
    DuplicateBinding { binding: u32 },

    /// The shader source could not be parsed.
    
    ParseError {
        error: naga::front::wgsl::ParseError,
    },

    /// The shader source could not be validated.
    
    ValidationError {
        error: WithSpan<naga::valid::ValidationError>,
    },
}
//@end

// thiserror's Display text of the error: an uninterpreted function of the error
pub uninterp spec fn display_text(e: CreateModuleError) -> Seq<char>;
impl FmtArg for CreateModuleError { open spec fn fview(&self) -> FmtV { FmtV::S(display_text(*self)) } fn view_of(&self) -> (r: FmtHandle) { FmtHandle { v: Ghost(self.fview()) } } }

// what rendering an error against (source, file name) yields: the front end's / the validator's own diagnostic for THAT error,
// THAT source and THAT file name; the generator's own errors print their message
pub open spec fn diag_text(e: CreateModuleError, src: Seq<char>, path: Option<Seq<char>>) -> Seq<char> {
    let file = match path { Some(p) => p, None => "wgsl"@ };
    match e {
        CreateModuleError::ParseError { error } => parse_diag(error, src, file),
        CreateModuleError::ValidationError { error } => valid_diag(error, src, file),
        other => match path {
            Some(p) => fmt2("{}: {}", FmtV::S(p), FmtV::S(display_text(other))),
            None => fmt1("{}", FmtV::S(display_text(other))),
        },
    }
}

impl CreateModuleError {
//@fn lib.rs::emit_to_stderr props=C17
pub fn emit_to_stderr(&self, wgsl_source: &str)
        «requires true, // [C17.stderr] no precondition: rendering never panics, whatever the error and the source»
    {
        match self {
            CreateModuleError::ParseError { error } => error.emit_to_stderr(wgsl_source),
            CreateModuleError::ValidationError { error } => error.emit_to_stderr(wgsl_source),
            other => {
                eprintln!("{}", other)
            }
        }
    }
//@end

//@fn lib.rs::emit_to_stderr_with_path props=C17
pub fn emit_to_stderr_with_path(&self, wgsl_source: &str, path: impl AsRef<Path>)
        «requires true, // [C17.stderr-path] no precondition: rendering never panics»
    {
        let path = as_path(&path);
        match self {
            CreateModuleError::ParseError { error } => {
                error.emit_to_stderr_with_path(wgsl_source, path)
            }
            CreateModuleError::ValidationError { error } => {
                error.emit_to_stderr_with_path(wgsl_source, &path_lossy(path))
            }
            other => {
                eprintln!("{}: {}", path_lossy(path), other)
            }
        }
    }
//@end

//@fn lib.rs::emit_to_string props=C17
pub fn emit_to_string(&self, wgsl_source: &str) -> «(r:» String«)
        ensures
            r@ == diag_text(*self, wgsl_source@, None), // [C17.diag] the front end's / validator's own diagnostic for this error against THIS source (file name "wgsl"); no precondition, no panic»
    {
        match self {
            CreateModuleError::ParseError { error } => error.emit_to_string(wgsl_source),
            CreateModuleError::ValidationError { error } => error.emit_to_string(wgsl_source),
            other => {
                format!("{}", other)
            }
        }
    }
//@end

//@fn lib.rs::emit_to_string_with_path props=C17
pub fn emit_to_string_with_path(&self, wgsl_source: &str, path: impl AsRef<Path>) -> «(r:» String«)
        ensures
            r@ == diag_text(*self, wgsl_source@, Some(pview(path))), // [C17.diag-path] the same diagnostic with the given path as the file name: source and path are passed in their own positions»
    {
        «broadcast use axiom_pview_path;»
        let path = as_path(&path);
        match self {
            CreateModuleError::ParseError { error } => {
                error.emit_to_string_with_path(wgsl_source, path)
            }
            CreateModuleError::ValidationError { error } => {
                error.emit_to_string_with_path(wgsl_source, &path_lossy(path))
            }
            other => {
                format!("{}: {}", path_lossy(path), other)
            }
        }
    }
//@end
}

} // verus!
fn main() {}
