//@props C06 C07 C12
//@rewrite `.get()` => `.shim_nz_get()` :: NonZeroU32::get has no postcondition in vstd; stand-in that names the value (spec/lib/prelude.rs)
//@strip-attrs derive :: derive output is outside Verus
//@derive-keep Clone|Copy
// Unit wgsl_types: the WGSL type -> Rust type tables of wgsl.rs (C06) and vertex_format (C07).
#![feature(allocator_api)]
#![recursion_limit = "4096"]
#![allow(unused_imports, unused_variables, unused_mut, dead_code, unused_braces, unused_parens, unused_macros)]
use vstd::prelude::*;
use vstd::std_specs::iter::IteratorSpec;
extern crate naga;
extern crate proc_macro2;
extern crate syn;
extern crate wgpu_types;
extern crate indexmap;
extern crate rustc_hash;
use proc_macro2::{TokenStream, Literal, Span};
use syn::Ident;
#[path = "../../spec/lib/prelude.rs"] pub mod prelude;
#[path = "../../spec/lib/iter_shims.rs"] pub mod iter_shims;
#[macro_use] #[path = "../../spec/lib/tokens.rs"] pub mod tokens;
#[path = "../../spec/lib/model_common.rs"] pub mod model_common;
#[path = "../../spec/lib/model_types.rs"] pub mod model_types;
#[path = "../../spec/lib/wgpu_shim.rs"] pub mod wgpu;
use prelude::*;
use iter_shims::*;
use tokens::*;
use model_common::*;
use model_types::*;

verus! {

//@item lib.rs::enum MatrixVectorTypes
#[derive(Clone, Copy)]
pub enum MatrixVectorTypes {
    /// Rust types like `[f32; 4]` or `[[f32; 4]; 4]`.
    Rust,

    /// `glam` types like `glam::Vec4` or `glam::Mat4`.
    /// Types not representable by `glam` like `mat2x3<f32>` will use the output from [MatrixVectorTypes::Rust].
    Glam,

    /// `nalgebra` types like `nalgebra::SVector<f64, 4>` or `nalgebra::SMatrix<f32, 2, 3>`.
    Nalgebra,
}
//@end

//@fn wgsl.rs::rust_scalar_type props=C06,C12
pub fn rust_scalar_type(scalar: &naga::Scalar) -> «(r:» TokenStream«)
    requires
        scalar_toks(scalar.kind, scalar.width) is Some, // [C06.scalar-pre] a scalar kind/width inside the documented feature set
    ensures
        ts_view(&r) == scalar_toks(scalar.kind, scalar.width)->0, // [C06.scalar] [C12.field-type] same scalar kind and width (override fields get their type from here)»
{
    // TODO: Support other widths?
    match (scalar.kind, scalar.width) {
        (naga::ScalarKind::Sint, 1) => quote!(i8),
        (naga::ScalarKind::Uint, 1) => quote!(u8),
        (naga::ScalarKind::Sint, 2) => quote!(i16),
        (naga::ScalarKind::Uint, 2) => quote!(u16),
        (naga::ScalarKind::Sint, 4) => quote!(i32),
        (naga::ScalarKind::Uint, 4) => quote!(u32),
        (naga::ScalarKind::Float, 4) => quote!(f32),
        (naga::ScalarKind::Float, 8) => quote!(f64),
        // TODO: Do booleans have a width?
        (naga::ScalarKind::Bool, _) => quote!(bool),
        _ => todo!(),
    }
}
//@end

//@fn wgsl.rs::rust_type props=C06,C12
pub fn rust_type(module: &naga::Module, ty: &naga::Type, format: MatrixVectorTypes) -> «(r:» TokenStream«)
    requires
        ty_supported(module, ty), // [C06.type-pre] a type of the module inside the documented feature set: every todo!()/panic! arm below is unreachable
    ensures
        ts_view(&r) == rty_toks(module, ty, format), // [C06.type] [C12.field-type] scalar table; vectors and matrices per representation; atomics -> scalar; fixed arrays keep their length (recursively); structs -> the emitted struct of the same name
    decreases ty_idx(module, ty),»
{
    «broadcast use axiom_uarena_index_req;
    let ghost i = ty_idx(module, ty);
    assert(0 <= i < tys(module).len() && tys(module)[i] == *ty && ty_supported_idx(module, i));»
    match &ty.inner {
        naga::TypeInner::Scalar(scalar) => rust_scalar_type(scalar),
        naga::TypeInner::Vector { size, scalar } => match format {
            MatrixVectorTypes::Rust => rust_vector_type(*size, scalar.kind, scalar.width),
            MatrixVectorTypes::Glam => glam_vector_type(*size, scalar.kind, scalar.width),
            MatrixVectorTypes::Nalgebra => nalgebra_vector_type(*size, scalar.kind, scalar.width),
        },
        naga::TypeInner::Matrix {
            columns,
            rows,
            scalar,
        } => match format {
            MatrixVectorTypes::Rust => rust_matrix_type(*rows, *columns, scalar.width),
            MatrixVectorTypes::Glam => glam_matrix_type(*rows, *columns, scalar.width),
            MatrixVectorTypes::Nalgebra => nalgebra_matrix_type(*rows, *columns, scalar.width),
        },
        naga::TypeInner::Image { .. } => todo!(),
        naga::TypeInner::Sampler { .. } => todo!(),
        naga::TypeInner::Atomic(scalar) => rust_scalar_type(scalar),
        naga::TypeInner::Pointer { base: _, space: _ } => todo!(),
        naga::TypeInner::ValuePointer { .. } => todo!(),
        naga::TypeInner::Array {
            base,
            size: naga::ArraySize::Constant(size),
            stride: _,
        } => {
            «proof { lemma_ty_idx(module, &tys(module)[handle_index(*base)], handle_index(*base)); }»
            let element_type = rust_type(module, &module.types[*base], format);
            let count = Literal::usize_unsuffixed(size.shim_nz_get() as usize);
            quote!([#element_type; #count])
        }
        naga::TypeInner::Array {
            size: naga::ArraySize::Dynamic,
            ..
        } => {
            panic!("Runtime-sized arrays can only be used in variable declarations or as the last field of a struct.");
        }
        naga::TypeInner::Struct {
            members: _,
            span: _,
        } => {
            let name = Ident::new(ty.name.as_ref().unwrap(), Span::call_site());
            quote!(#name)
        }
        naga::TypeInner::BindingArray { base: _, size: _ } => todo!(),
        naga::TypeInner::AccelerationStructure => todo!(),
        naga::TypeInner::RayQuery => todo!(),
        naga::TypeInner::Array {
            size: naga::ArraySize::Pending(_),
            ..
        } => todo!(),
    }
}
//@end

//@fn wgsl.rs::rust_matrix_type props=C06
fn rust_matrix_type(rows: naga::VectorSize, columns: naga::VectorSize, width: u8) -> «(r:» TokenStream«)
    requires scalar_toks(naga::ScalarKind::Float, width) is Some,
    ensures ts_view(&r) == rust_mat_toks(rows, columns, width), // [C06.matrix-rust] float scalar of that width, both element counts»
{
    let inner_type = rust_scalar_type(&naga::Scalar {
        kind: naga::ScalarKind::Float,
        width,
    });
    // Use Index to generate "4" instead of "4usize".
    let rows = Literal::usize_unsuffixed(rows as usize);
    let columns = Literal::usize_unsuffixed(columns as usize);
    quote!([[#inner_type; #columns]; #rows])
}
//@end

//@fn wgsl.rs::glam_matrix_type props=C06
fn glam_matrix_type(rows: naga::VectorSize, columns: naga::VectorSize, width: u8) -> «(r:» TokenStream«)
    requires scalar_toks(naga::ScalarKind::Float, width) is Some,
    ensures ts_view(&r) == glam_mat_toks(rows, columns, width), // [C06.matrix-glam] the six square glam matrices, plain arrays where glam has no equivalent»
{
    // glam only supports square matrices for some types.
    // Use Rust types for unsupported matrices.
    match (rows, columns, width) {
        (naga::VectorSize::Bi, naga::VectorSize::Bi, 4) => quote!(glam::Mat2),
        (naga::VectorSize::Tri, naga::VectorSize::Tri, 4) => quote!(glam::Mat3),
        (naga::VectorSize::Quad, naga::VectorSize::Quad, 4) => quote!(glam::Mat4),
        (naga::VectorSize::Bi, naga::VectorSize::Bi, 8) => quote!(glam::DMat2),
        (naga::VectorSize::Tri, naga::VectorSize::Tri, 8) => quote!(glam::DMat3),
        (naga::VectorSize::Quad, naga::VectorSize::Quad, 8) => quote!(glam::DMat4),
        _ => rust_matrix_type(rows, columns, width),
    }
}
//@end

//@fn wgsl.rs::nalgebra_matrix_type props=C06
fn nalgebra_matrix_type(
    rows: naga::VectorSize,
    columns: naga::VectorSize,
    width: u8,
) -> «(r:» TokenStream«)
    requires scalar_toks(naga::ScalarKind::Float, width) is Some,
    ensures ts_view(&r) == nalgebra_mat_toks(rows, columns, width), // [C06.matrix-nalgebra]»
{
    let inner_type = rust_scalar_type(&naga::Scalar {
        kind: naga::ScalarKind::Float,
        width,
    });
    let rows = Literal::usize_unsuffixed(rows as usize);
    let columns = Literal::usize_unsuffixed(columns as usize);
    quote!(nalgebra::SMatrix<#inner_type, #rows, #columns>)
}
//@end

//@fn wgsl.rs::rust_vector_type props=C06
fn rust_vector_type(size: naga::VectorSize, kind: naga::ScalarKind, width: u8) -> «(r:» TokenStream«)
    requires scalar_toks(kind, width) is Some,
    ensures ts_view(&r) == rust_vec_toks(size, kind, width), // [C06.vector-rust] same scalar, same component count»
{
    let inner_type = rust_scalar_type(&naga::Scalar { kind, width });
    let size = Literal::usize_unsuffixed(size as usize);
    quote!([#inner_type; #size])
}
//@end

//@fn wgsl.rs::glam_vector_type props=C06
fn glam_vector_type(size: naga::VectorSize, kind: naga::ScalarKind, width: u8) -> «(r:» TokenStream«)
    requires scalar_toks(kind, width) is Some,
    ensures ts_view(&r) == glam_vec_toks(size, kind, width), // [C06.vector-glam] the twelve glam vectors, plain arrays where glam has no equivalent»
{
    match (size, kind, width) {
        (naga::VectorSize::Bi, naga::ScalarKind::Float, 4) => quote!(glam::Vec2),
        (naga::VectorSize::Tri, naga::ScalarKind::Float, 4) => quote!(glam::Vec3),
        (naga::VectorSize::Quad, naga::ScalarKind::Float, 4) => quote!(glam::Vec4),
        (naga::VectorSize::Bi, naga::ScalarKind::Float, 8) => quote!(glam::DVec2),
        (naga::VectorSize::Tri, naga::ScalarKind::Float, 8) => quote!(glam::DVec3),
        (naga::VectorSize::Quad, naga::ScalarKind::Float, 8) => quote!(glam::DVec4),
        (naga::VectorSize::Bi, naga::ScalarKind::Uint, 4) => quote!(glam::UVec2),
        (naga::VectorSize::Tri, naga::ScalarKind::Uint, 4) => quote!(glam::UVec3),
        (naga::VectorSize::Quad, naga::ScalarKind::Uint, 4) => quote!(glam::UVec4),
        (naga::VectorSize::Bi, naga::ScalarKind::Sint, 4) => quote!(glam::IVec2),
        (naga::VectorSize::Tri, naga::ScalarKind::Sint, 4) => quote!(glam::IVec3),
        (naga::VectorSize::Quad, naga::ScalarKind::Sint, 4) => quote!(glam::IVec4),
        // Use Rust types for unsupported types.
        _ => rust_vector_type(size, kind, width),
    }
}
//@end

//@fn wgsl.rs::nalgebra_vector_type props=C06
fn nalgebra_vector_type(size: naga::VectorSize, kind: naga::ScalarKind, width: u8) -> «(r:» TokenStream«)
    requires scalar_toks(kind, width) is Some,
    ensures ts_view(&r) == nalgebra_vec_toks(size, kind, width), // [C06.vector-nalgebra]»
{
    let inner_type = rust_scalar_type(&naga::Scalar { kind, width });
    let size = Literal::usize_unsuffixed(size as usize);
    quote!(nalgebra::SVector<#inner_type, #size>)
}
//@end

//@fn wgsl.rs::vertex_format props=C07
pub fn vertex_format(ty: &naga::Type) -> «(r:» wgpu::VertexFormat«)
    requires
        attr_supported(ty.inner), // [C07.format-pre] the supported vertex attribute types: every todo!() arm below is unreachable
    ensures
        vf_shape(r) == attr_shape(ty.inner), // [C07.format] the vertex format has the same scalar kind, width and component count as the WGSL type»
{
    // Not all wgsl types work as vertex attributes in wgpu.
    match &ty.inner {
        naga::TypeInner::Scalar(scalar) => match (scalar.kind, scalar.width) {
            (naga::ScalarKind::Sint, 4) => wgpu::VertexFormat::Sint32,
            (naga::ScalarKind::Uint, 4) => wgpu::VertexFormat::Uint32,
            (naga::ScalarKind::Float, 4) => wgpu::VertexFormat::Float32,
            (naga::ScalarKind::Float, 8) => wgpu::VertexFormat::Float64,
            _ => todo!(),
        },
        naga::TypeInner::Vector { size, scalar } => match size {
            naga::VectorSize::Bi => match (scalar.kind, scalar.width) {
                (naga::ScalarKind::Sint, 1) => wgpu::VertexFormat::Sint8x2,
                (naga::ScalarKind::Uint, 1) => wgpu::VertexFormat::Uint8x2,
                (naga::ScalarKind::Sint, 2) => wgpu::VertexFormat::Sint16x2,
                (naga::ScalarKind::Uint, 2) => wgpu::VertexFormat::Uint16x2,
                (naga::ScalarKind::Uint, 4) => wgpu::VertexFormat::Uint32x2,
                (naga::ScalarKind::Sint, 4) => wgpu::VertexFormat::Sint32x2,
                (naga::ScalarKind::Float, 4) => wgpu::VertexFormat::Float32x2,
                (naga::ScalarKind::Float, 8) => wgpu::VertexFormat::Float64x2,
                _ => todo!(),
            },
            naga::VectorSize::Tri => match (scalar.kind, scalar.width) {
                (naga::ScalarKind::Uint, 4) => wgpu::VertexFormat::Uint32x3,
                (naga::ScalarKind::Sint, 4) => wgpu::VertexFormat::Sint32x3,
                (naga::ScalarKind::Float, 4) => wgpu::VertexFormat::Float32x3,
                (naga::ScalarKind::Float, 8) => wgpu::VertexFormat::Float64x3,
                _ => todo!(),
            },
            naga::VectorSize::Quad => match (scalar.kind, scalar.width) {
                (naga::ScalarKind::Sint, 1) => wgpu::VertexFormat::Sint8x4,
                (naga::ScalarKind::Uint, 1) => wgpu::VertexFormat::Uint8x4,
                (naga::ScalarKind::Sint, 2) => wgpu::VertexFormat::Sint16x4,
                (naga::ScalarKind::Uint, 2) => wgpu::VertexFormat::Uint16x4,
                (naga::ScalarKind::Uint, 4) => wgpu::VertexFormat::Uint32x4,
                (naga::ScalarKind::Sint, 4) => wgpu::VertexFormat::Sint32x4,
                (naga::ScalarKind::Float, 4) => wgpu::VertexFormat::Float32x4,
                (naga::ScalarKind::Float, 8) => wgpu::VertexFormat::Float64x4,
                _ => todo!(),
            },
        },
        _ => todo!(), // are these types even valid as attributes?
    }
}
//@end

} // verus!
fn main() {}
