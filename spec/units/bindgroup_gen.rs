//@props C02 C03 C04 C11 C13
//@rewrite `naga::StorageAccess::LOAD` => `sa_load()` :: associated constants of a foreign bitflags type cannot be specified in Verus; sa_load() returns the real constant and states its bit value (spec/lib/prelude.rs)
//@rewrite `naga::StorageAccess::STORE` => `sa_store()` :: as above
//@rewrite `naga::StorageAccess::ATOMIC` => `sa_atomic()` :: as above
//@hoist-closure-patterns :: closure parameter patterns `|(a, b)|` hoisted into `|p| { let (a, b) = p; .. }` (Verus accepts only variables as closure parameters); same bindings
//@rewrite `.enumerate()` => `.shim_enumerate()` :: provided trait method Iterator::enumerate (does not occur in the pinned text of this unit; a change that numbers entries by position uses it): stand-in with the std meaning (spec/lib/iter_shims.rs)
//@hoist-format-captures :: format! inline captures hoisted to positional arguments (a macro_rules stand-in cannot look inside a string literal); same values, same order
// Unit bindgroup_gen: the bind group generators of bindgroup.rs against token-level structure specs.
#![feature(allocator_api)]
#![recursion_limit = "4096"]
#![allow(unused_imports, unused_variables, unused_mut, dead_code, unused_braces, unused_parens, unused_macros)]
use vstd::prelude::*;
use vstd::std_specs::iter::IteratorSpec;
use std::collections::{BTreeMap, HashSet};
extern crate naga;
extern crate proc_macro2;
extern crate syn;
extern crate wgpu_types;
extern crate indexmap;
extern crate rustc_hash;
use proc_macro2::{TokenStream, Literal, Span};
use syn::Ident;
#[path = "../../spec/lib/prelude.rs"] pub mod prelude;
#[macro_use] #[path = "../../spec/lib/tokens.rs"] pub mod tokens;
#[path = "../../spec/lib/iter_shims.rs"] pub mod iter_shims;
#[path = "../../spec/lib/wgpu_shim.rs"] pub mod wgpu;
#[path = "../../spec/lib/seq_lemmas.rs"] pub mod seq_lemmas;
#[path = "../../spec/lib/model_common.rs"] pub mod model_common;
use prelude::*;
use tokens::*;
use iter_shims::*;
use seq_lemmas::*;
use model_common::*;
#[path = "../../spec/lib/model_bindgroup.rs"] pub mod model_bindgroup;
use model_bindgroup::*;

verus! {

//@item bindgroup.rs::struct GroupData
pub struct GroupData<'a> {
    pub bindings: Vec<GroupBinding<'a>>,
}
//@end

//@item bindgroup.rs::struct GroupBinding
pub struct GroupBinding<'a> {
    pub name: Option<String>,
    pub binding_index: u32,
    pub binding_type: &'a naga::Type,
    pub address_space: naga::AddressSpace,
}
//@end

//@fn lib.rs::indexed_name_to_ident props=C02,C04
fn indexed_name_to_ident(name: &str, index: u32) -> «(r:» Ident«)
    ensures id_view(&r) == fmt2("{}{}", FmtV::S(name@), FmtV::U(index as int)),»
{
    Ident::new(&format!("{}{}", name, index), Span::call_site())
}
//@end

//@fn lib.rs::quote_shader_stages props=C03,C02,C13
fn quote_shader_stages(stages: wgpu::ShaderStages) -> «(r:» TokenStream«)
    requires
        stages.bits < 8, // [C03.stages-pre] only VERTEX|FRAGMENT|COMPUTE bits occur in the stage map
    ensures
        ts_view(&r) == stages_toks(stages.bits), // [C03.stages-toks] [C02.visibility-toks] [C13.stages-toks] the emitted expression denotes exactly this stage set: nothing missing, nothing added»
{
    if stages == wgpu::ShaderStages::all() {
        quote!(wgpu::ShaderStages::all())
    } else if stages == wgpu::ShaderStages::VERTEX_FRAGMENT {
        quote!(wgpu::ShaderStages::VERTEX_FRAGMENT)
    } else {
        let mut components = Vec::new();
        if stages.contains(wgpu::ShaderStages::VERTEX) {
            components.push(quote!(wgpu::ShaderStages::VERTEX));
        }
        if stages.contains(wgpu::ShaderStages::FRAGMENT) {
            components.push(quote!(wgpu::ShaderStages::FRAGMENT));
        }
        if stages.contains(wgpu::ShaderStages::COMPUTE) {
            components.push(quote!(wgpu::ShaderStages::COMPUTE));
        }

        «proof {
            let b = stages.bits;
            assert(b < 8 ==> ((b & 1 == 1) == (b == 1 || b == 3 || b == 5 || b == 7))
                && ((b & 2 == 2) == (b == 2 || b == 3 || b == 6 || b == 7))
                && ((b & 4 == 4) == (b == 4 || b == 5 || b == 6 || b == 7))) by(bit_vector);
            reveal_with_fuel(flat, 3);
        }»
        if let Some((first, remaining)) = components.split_first() {
            quote!(#first #(.union(#remaining))*)
        } else {
            quote!(wgpu::ShaderStages::NONE)
        }
    }
}
//@end

//@fn wgsl.rs::buffer_binding_type props=C02
pub fn buffer_binding_type(storage: naga::AddressSpace) -> «(r:» TokenStream«)
    ensures
        expected_buf(storage) is Some ==> ts_view(&r) == buf_toks(expected_buf(storage)->0), // [C02.buf] uniform vs storage and read-only-ness as wgpu's class equality demands (other address spaces never reach a buffer entry)»
{
    match storage {
        naga::AddressSpace::Uniform => quote!(wgpu::BufferBindingType::Uniform),
        naga::AddressSpace::Storage { access } => {
            let _is_read = access.contains(sa_load());
            let is_write = access.contains(sa_store());

            // TODO: Is this correct?
            if is_write {
                quote!(wgpu::BufferBindingType::Storage { read_only: false })
            } else {
                quote!(wgpu::BufferBindingType::Storage { read_only: true })
            }
        }
        // This case is technically invalid.
        // Return a default to allow users to see the wgpu validation error.
        _ => quote!(wgpu::BufferBindingType::Uniform),
    }
}
//@end

//@fn bindgroup.rs::storage_access props=C02
fn storage_access(access: naga::StorageAccess) -> «(r:» TokenStream«)
    requires
        expected_access(access) is Some, // [C02.access-pre]
    ensures
        ts_view(&r) == access_toks(expected_access(access)->0), // [C02.access] read / write / read_write / atomic exactly as declared»
{
    «proof {
        let b = sa_bits(access);
        assert((b & 4 == 4) || (b & 1 == 1) || (b & 2 == 2) ==> true);
    }»
    // Atomic access implies read and write access in naga.
    if access.contains(sa_atomic()) {
        return quote!(wgpu::StorageTextureAccess::Atomic);
    }

    let is_read = access.contains(sa_load());
    let is_write = access.contains(sa_store());
    match (is_read, is_write) {
        (true, true) => quote!(wgpu::StorageTextureAccess::ReadWrite),
        (true, false) => quote!(wgpu::StorageTextureAccess::ReadOnly),
        (false, true) => quote!(wgpu::StorageTextureAccess::WriteOnly),
        _ => todo!(), // shouldn't be possible
    }
}
//@end

//@fn bindgroup.rs::bind_group_layout_entry props=C02,C03,C11
«#[verifier::rlimit(150)]»
fn bind_group_layout_entry(
    binding: &GroupBinding,
    global_stages: &BTreeMap<String, wgpu::ShaderStages>,
) -> «(r:» TokenStream«)
    requires
        expected_bt(binding) is Some, // [C02.entry-pre] the documented feature set: every todo!()/panic! below is unreachable under it
        stage_map_ok(global_stages@),
    ensures
        !msaa_float(binding) ==> ts_view(&r) == layout_entry_toks(binding, vis_bits(binding, global_stages@), expected_bt(binding)->0), // [C02.entry] [C03.visibility-lookup] [C11.layout-index] own index, the recorded stage set (NONE if unreached), the layout type wgpu's interface validation accepts, count: None
        msaa_float(binding) ==> ts_view(&r) == layout_entry_toks(binding, vis_bits(binding, global_stages@), expected_bt(binding)->0), // [C02.msaa-float] multisampled float textures must not be filterable»
{
    «broadcast use vstd::laws_cmp::group_laws_cmp, vstd::std_specs::btree::group_btree_axioms, axiom_string_obeys_cmp;»
    // Set visibility to all stages that access this binding.
    // This can avoid unneeded binding calls on some backends.
    let shader_stages = binding
        .name
        .as_ref()
        .and_then(|n| «-> (o: Option<wgpu::ShaderStages>) ensures o == (if global_stages@.contains_key(*n) { Some(global_stages@[*n]) } else { None }) {» global_stages.get(n).copied() «}»)
        .unwrap_or(wgpu::ShaderStages::NONE);
    «assert(shader_stages.bits == vis_bits(binding, global_stages@));»

    let stages = quote_shader_stages(shader_stages);

    let binding_index = Literal::usize_unsuffixed(binding.binding_index as usize);
    let buffer_binding_type = buffer_binding_type(binding.address_space);

    // TODO: Support more types.
    let binding_type = match binding.binding_type.inner {
        naga::TypeInner::Struct { .. }
        | naga::TypeInner::Array { .. }
        | naga::TypeInner::Scalar { .. }
        | naga::TypeInner::Vector { .. }
        | naga::TypeInner::Matrix { .. } => {
            quote!(wgpu::BindingType::Buffer {
                ty: #buffer_binding_type,
                has_dynamic_offset: false,
                min_binding_size: None,
            })
        }
        naga::TypeInner::Image {
            dim,
            arrayed,
            class,
            ..
        } => {
            let view_dim = match (dim, arrayed) {
                (naga::ImageDimension::D1, false) => quote!(wgpu::TextureViewDimension::D1),
                (naga::ImageDimension::D2, false) => quote!(wgpu::TextureViewDimension::D2),
                (naga::ImageDimension::D2, true) => quote!(wgpu::TextureViewDimension::D2Array),
                (naga::ImageDimension::D3, false) => quote!(wgpu::TextureViewDimension::D3),
                (naga::ImageDimension::Cube, false) => quote!(wgpu::TextureViewDimension::Cube),
                (naga::ImageDimension::Cube, true) => quote!(wgpu::TextureViewDimension::CubeArray),
                _ => panic!("Unsupported image dimension {dim:?}, arrayed = {arrayed}"),
            };

            match class {
                naga::ImageClass::Sampled { kind, multi } => {
                    let sample_type = match kind {
                        naga::ScalarKind::Sint => quote!(wgpu::TextureSampleType::Sint),
                        naga::ScalarKind::Uint => quote!(wgpu::TextureSampleType::Uint),
                        naga::ScalarKind::Float => {
                            // TODO: Don't assume all textures are filterable.
                            quote!(wgpu::TextureSampleType::Float { filterable: true })
                        }
                        _ => todo!(),
                    };
                    quote!(wgpu::BindingType::Texture {
                        sample_type: #sample_type,
                        view_dimension: #view_dim,
                        multisampled: #multi,
                    })
                }
                naga::ImageClass::Depth { multi } => {
                    quote!(wgpu::BindingType::Texture {
                        sample_type: wgpu::TextureSampleType::Depth,
                        view_dimension: #view_dim,
                        multisampled: #multi,
                    })
                }
                naga::ImageClass::Storage { format, access } => {
                    // TODO: Will the debug implementation always work with the macro?
                    // Assume texture format variants are the same as storage formats.
                    let format = syn::Ident::new(&format!("{:?}", format), Span::call_site());
                    let storage_access = storage_access(access);

                    quote!(wgpu::BindingType::StorageTexture {
                        access: #storage_access,
                        format: wgpu::TextureFormat::#format,
                        view_dimension: #view_dim,
                    })
                }
            }
        }
        naga::TypeInner::Sampler { comparison } => {
            let sampler_type = if comparison {
                quote!(wgpu::SamplerBindingType::Comparison)
            } else {
                quote!(wgpu::SamplerBindingType::Filtering)
            };
            quote!(wgpu::BindingType::Sampler(#sampler_type))
        }
        // TODO: Better error handling.
        ref inner => {
            panic!("Failed to generate BindingType for `{inner:?}` at index {binding_index}.",)
        }
    };

    quote! {
        wgpu::BindGroupLayoutEntry {
            binding: #binding_index,
            visibility: #stages,
            ty: #binding_type,
            count: None,
        }
    }
}
//@end

//@fn bindgroup.rs::bind_group_layout_descriptor props=C02,C04,C11
fn bind_group_layout_descriptor(
    group_no: u32,
    group: &GroupData,
    global_stages: &BTreeMap<String, wgpu::ShaderStages>,
) -> «(r:» TokenStream«)
    requires
        forall|i: int| 0 <= i < group.bindings@.len() ==> expected_bt(&#[trigger] group.bindings@[i]) is Some && !msaa_float(&group.bindings@[i]),
        stage_map_ok(global_stages@),
    ensures
        ts_view(&r) == layout_descriptor_toks(group_no, group.bindings@, global_stages@), // [C02.descriptor] [C04.layout-order] [C11.once] exactly one entry per binding of the group, in the order of the resource struct and of the BindGroupEntry list»
{
    let entries: Vec<_> = group
        .bindings
        .iter()
        .map(|binding| «-> (o: TokenStream) requires expected_bt(binding) is Some, !msaa_float(binding), stage_map_ok(global_stages@) ensures ts_view(&o) == layout_entry_toks(binding, vis_bits(binding, global_stages@), expected_bt(binding)->0) {» bind_group_layout_entry(binding, global_stages) «}»)
        .collect();
    «proof {
        assert(toks_of(entries@) =~= Seq::new(group.bindings@.len(), |i: int| layout_entry_toks(&group.bindings@[i], vis_bits(&group.bindings@[i], global_stages@), expected_bt(&group.bindings@[i])->0)));
    }»

    let name = indexed_name_to_ident("LAYOUT_DESCRIPTOR", group_no);
    let label = format!("LayoutDescriptor{}", group_no);
    quote! {
        const #name: wgpu::BindGroupLayoutDescriptor = wgpu::BindGroupLayoutDescriptor {
            label: Some(#label),
            entries: &[
                #(#entries),*
            ],
        };
    }
}
//@end

//@fn bindgroup.rs::bind_group_layout props=C04
fn bind_group_layout(group_no: u32, group: &GroupData) -> «(r:» TokenStream«)
    requires
        forall|i: int| 0 <= i < group.bindings@.len() ==> binding_ok(&#[trigger] group.bindings@[i]), // [C04.layout-pre] documented feature set: named bindings of buffer / texture / sampler type
    ensures
        ts_view(&r) == bind_group_layout_toks(group_no, group.bindings@), // [C04.fields] exactly one field per binding of the group, in order, named after the variable and typed by resource kind»
{
    let fields: Vec<_> = group
        .bindings
        .iter()
        .map(|binding| «-> (o: TokenStream) requires binding_ok(binding) ensures ts_view(&o) == field_toks(binding) /* [C04.fields] one field per binding, named after the variable, typed by resource kind */» {
            let binding_name = binding.name.as_ref().unwrap();
            let field_name = Ident::new(binding_name, Span::call_site());
            // TODO: Support more types.
            let field_type = match binding.binding_type.inner {
                naga::TypeInner::Struct { .. }
                | naga::TypeInner::Array { .. }
                | naga::TypeInner::Scalar { .. }
                | naga::TypeInner::Vector { .. }
                | naga::TypeInner::Matrix { .. } => quote!(wgpu::BufferBinding<'a>),
                naga::TypeInner::Image { .. } => quote!(&'a wgpu::TextureView),
                naga::TypeInner::Sampler { .. } => quote!(&'a wgpu::Sampler),
                ref inner => panic!("Unsupported type `{inner:?}` of '{binding_name}'."),
            };
            quote!(pub #field_name: #field_type)
        })
        .collect();

    «proof {
        assert(toks_of(fields@) =~= Seq::new(group.bindings@.len(), |i: int| field_toks(&group.bindings@[i])));
    }»
    let name = indexed_name_to_ident("BindGroupLayout", group_no);
    quote! {
        #[derive(Debug)]
        pub struct #name<'a> {
            #(#fields),*
        }
    }
}
//@end

//@fn bindgroup.rs::bind_group props=C04,C11
fn bind_group(group_no: u32, group: &GroupData) -> «(r:» TokenStream«)
    requires forall|i: int| 0 <= i < group.bindings@.len() ==> binding_ok(&#[trigger] group.bindings@[i]),
    ensures ts_view(&r) == bind_group_toks(group_no, group.bindings@), // [C04.entries] [C11.own-index] one BindGroupEntry per binding of the group, in order, carrying that binding's own @binding index and the resource of the field named after it; `set` binds the group at its own index»
{
    let entries: Vec<_> = group
        .bindings
        .iter()
        .map(|binding| «-> (o: TokenStream) requires binding_ok(binding) ensures ts_view(&o) == entry_toks(binding) /* [C04.entries] [C11.entries] the SAME binding supplies the slot index and the field name */» {
            let binding_index = Literal::usize_unsuffixed(binding.binding_index as usize);
            let binding_name = binding.name.as_ref().unwrap();
            let field_name = Ident::new(binding.name.as_ref().unwrap(), Span::call_site());
            let resource_type = match binding.binding_type.inner {
                naga::TypeInner::Struct { .. }
                | naga::TypeInner::Array { .. }
                | naga::TypeInner::Scalar { .. }
                | naga::TypeInner::Vector { .. }
                | naga::TypeInner::Matrix { .. } => {
                    quote!(wgpu::BindingResource::Buffer(bindings.#field_name))
                }
                naga::TypeInner::Image { .. } => {
                    quote!(wgpu::BindingResource::TextureView(bindings.#field_name))
                }
                naga::TypeInner::Sampler { .. } => {
                    quote!(wgpu::BindingResource::Sampler(bindings.#field_name))
                }
                // TODO: Better error handling.
                ref inner => panic!(
                    "Failed to generate BindingType for `{inner:?}` of '{binding_name}' at index {binding_index}.",
                ),
            };

            quote! {
                wgpu::BindGroupEntry {
                    binding: #binding_index,
                    resource: #resource_type,
                }
            }
        })
        .collect();

    «proof {
        assert(toks_of(entries@) =~= Seq::new(group.bindings@.len(), |i: int| entry_toks(&group.bindings@[i])));
    }»
    let bind_group_name = indexed_name_to_ident("BindGroup", group_no);
    let bind_group_layout_name = indexed_name_to_ident("BindGroupLayout", group_no);

    let layout_descriptor_name = indexed_name_to_ident("LAYOUT_DESCRIPTOR", group_no);

    let label = format!("BindGroup{}", group_no);

    let group_no = Literal::usize_unsuffixed(group_no as usize);

    quote! {
        impl #bind_group_name {
            pub fn get_bind_group_layout(device: &wgpu::Device) -> wgpu::BindGroupLayout {
                device.create_bind_group_layout(&#layout_descriptor_name)
            }

            pub fn from_bindings(device: &wgpu::Device, bindings: #bind_group_layout_name) -> Self {
                let bind_group_layout = device.create_bind_group_layout(&#layout_descriptor_name);
                let bind_group = device.create_bind_group(&wgpu::BindGroupDescriptor {
                    layout: &bind_group_layout,
                    entries: &[
                        #(#entries),*
                    ],
                    label: Some(#label),
                });
                Self(bind_group)
            }

            pub fn set<P: SetBindGroup>(&self, pass: &mut P) {
                pass.set_bind_group(#group_no, &self.0, &[]);
            }
        }
    }
}
//@end

//@fn bindgroup.rs::bind_groups_module props=C04,C11
«#[verifier::rlimit(150)]»
pub fn bind_groups_module(
    bind_group_data: &BTreeMap<u32, GroupData>,
    global_stages: &BTreeMap<String, wgpu::ShaderStages>,
) -> «(r:» TokenStream«)
    requires
        groups_supported(bind_group_data@), // [C04.module-pre] documented feature set for every binding of every group
        stage_map_ok(global_stages@),
    ensures
        forall|ks: Seq<u32>| is_keys(ks, bind_group_data@.dom()) ==> ts_view(&r) == #[trigger] bind_groups_module_toks(ks, bind_group_data@, global_stages@), // [C04.module] [C11.groups] per group (ascending, under its own number): its struct, resource struct, layout descriptor and impl; BindGroups has one field per group; set_bind_groups and BindGroups::set call bind_group{k}.set(pass) exactly once per group k; the three SetBindGroup impls forward (index, bind_group, offsets) unchanged»
{
    «broadcast use vstd::laws_cmp::group_laws_cmp, vstd::std_specs::btree::group_btree_axioms;
    let ghost m = bind_group_data@;
    let ghost gs = global_stages@;
    let ghost mut git;
    let ghost mut gk1;
    let ghost mut gk2;
    let ghost mut gk3;»
    let bind_groups: Vec<_> = «{ let __i =» bind_group_data
        .iter()«; proof { git = __i;
            let s = git.remaining();
            assert(s.len() == m.dom().len());
            assert forall|i: int| 0 <= i < s.len() implies m.contains_key(*(#[trigger] s[i]).0) && m[*s[i].0] == *s[i].1 by {}
            assert forall|i: int| 0 <= i < s.len() implies group_supported((#[trigger] s[i]).1) by {}
        } __i }»
        .map(|__p0| «-> (o: TokenStream) requires group_supported(__p0.1), stage_map_ok(global_stages@) ensures ts_view(&o) == group_item_toks(*__p0.0, __p0.1.bindings@, global_stages@)» { let (group_no, group) = __p0;
            let group_name = indexed_name_to_ident("BindGroup", *group_no);

            let layout = bind_group_layout(*group_no, group);
            let layout_descriptor = bind_group_layout_descriptor(*group_no, group, global_stages);
            let group_impl = bind_group(*group_no, group);

            quote! {
                #[derive(Debug)]
                pub struct #group_name(wgpu::BindGroup);
                #layout
                #layout_descriptor
                #group_impl
            }
        })
        .collect();

    «let ghost ks0 = Seq::new(git.remaining().len(), |i: int| *git.remaining()[i].0);
    proof {
        let s = git.remaining();
        assert(bind_groups@.len() == s.len());
        assert forall|i: int| 0 <= i < s.len() implies ts_view(&#[trigger] bind_groups@[i]) == group_item_toks(*s[i].0, s[i].1.bindings@, gs) by {}
        assert(is_keys(ks0, m.dom())) by {
            let ksr = s.map_values(|kv: (&u32, &GroupData)| *kv.0);
            assert(vstd::laws_cmp::obeys_cmp::<u32>());
            assert(vstd::std_specs::btree::increasing_seq(ksr));
            vstd::std_specs::btree::axiom_increasing_seq_meaning::<u32>(ksr);
            assert forall|a: int, b: int| 0 <= a < b < ks0.len() implies ks0[a] < ks0[b] by {
                assert(<u32 as vstd::std_specs::cmp::OrdSpec>::cmp_spec(&ksr[a], &ksr[b]) is Less);
            }
            assert forall|x: u32| ks0.contains(x) <==> m.dom().contains(x) by {
                if ks0.contains(x) { let i = choose|i: int| 0 <= i < ks0.len() && ks0[i] == x; assert(m.contains_key(*s[i].0)); }
                if m.dom().contains(x) {
                    assert(m.contains_key(x));
                    let pr = (&x, &m[x]);
                    assert(s.contains(pr));
                    let i = choose|i: int| 0 <= i < s.len() && s[i] == pr;
                    assert(ks0[i] == x);
                }
            }
        }
    }»
    let bind_group_fields: Vec<_> = «{ let __k =» bind_group_data
        .keys()«; proof { gk1 = __k; } __k }»
        .map(|group_no| «-> (o: TokenStream) ensures ts_view(&o) == field_decl_toks(*group_no)» {
            let group_name = indexed_name_to_ident("BindGroup", *group_no);
            let field = indexed_name_to_ident("bind_group", *group_no);
            quote!(pub #field: &'a #group_name)
        })
        .collect();

    let group_parameters: Vec<_> = «{ let __k =» bind_group_data
        .keys()«; proof { gk2 = __k; } __k }»
        .map(|group_no| «-> (o: TokenStream) ensures ts_view(&o) == param_toks(*group_no)» {
            let group = indexed_name_to_ident("bind_group", *group_no);
            let group_type = indexed_name_to_ident("BindGroup", *group_no);
            quote!(#group: &bind_groups::#group_type)
        })
        .collect();

    // The set function for each bind group already sets the index.
    let set_groups: Vec<_> = «{ let __k =» bind_group_data
        .keys()«; proof { gk3 = __k; } __k }»
        .map(|group_no| «-> (o: TokenStream) ensures ts_view(&o) == set_toks(*group_no)» {
            let group = indexed_name_to_ident("bind_group", *group_no);
            quote!(#group.set(pass);)
        })
        .collect();

    let set_bind_groups = quote! {
        pub fn set_bind_groups<P: bind_groups::SetBindGroup>(
            pass: &mut P,
            #(#group_parameters),*
        ) {
            #(#set_groups)*
        }
    };

    «proof {
        let dom = m.dom();
        lemma_keys_iter(m, gk1.remaining()); lemma_keys_iter(m, gk2.remaining()); lemma_keys_iter(m, gk3.remaining());
        lemma_keys_unique(gk1.remaining().unref(), ks0, dom);
        lemma_keys_unique(gk2.remaining().unref(), ks0, dom);
        lemma_keys_unique(gk3.remaining().unref(), ks0, dom);
        assert forall|ks: Seq<u32>| is_keys(ks, dom) implies ks == ks0 by { lemma_keys_unique(ks, ks0, dom); }
        let s = git.remaining();
        assert forall|i: int| 0 <= i < ks0.len() implies m[ks0[i]].bindings@ == (#[trigger] s[i]).1.bindings@ by {}
        assert(toks_of(bind_groups@) =~= Seq::new(ks0.len(), |i: int| group_item_toks(ks0[i], m[ks0[i]].bindings@, gs)));
        assert(toks_of(bind_group_fields@) =~= Seq::new(ks0.len(), |i: int| field_decl_toks(ks0[i])));
        assert(toks_of(group_parameters@) =~= Seq::new(ks0.len(), |i: int| param_toks(ks0[i])));
        assert(toks_of(set_groups@) =~= Seq::new(ks0.len(), |i: int| set_toks(ks0[i])));
    }»
    if bind_groups.is_empty() {
        // Don't include empty modules.
        quote!()
    } else {
        // Create a module to avoid name conflicts with user structs.
        quote! {
            pub mod bind_groups {
                #(#bind_groups)*

                #[derive(Debug, Copy, Clone)]
                pub struct BindGroups<'a> {
                    #(#bind_group_fields),*
                }

                impl BindGroups<'_> {
                    pub fn set<P: SetBindGroup>(&self, pass: &mut P) {
                        #(self.#set_groups)*
                    }
                }

                // Support both compute and render passes.
                pub trait SetBindGroup {
                    fn set_bind_group(
                        &mut self,
                        index: u32,
                        bind_group: &wgpu::BindGroup,
                        offsets: &[wgpu::DynamicOffset],
                    );
                }
                impl SetBindGroup for wgpu::ComputePass<'_> {
                    fn set_bind_group(
                        &mut self,
                        index: u32,
                        bind_group: &wgpu::BindGroup,
                        offsets: &[wgpu::DynamicOffset],
                    ) {
                        self.set_bind_group(index, bind_group, offsets);
                    }
                }
                impl SetBindGroup for wgpu::RenderPass<'_> {
                    fn set_bind_group(
                        &mut self,
                        index: u32,
                        bind_group: &wgpu::BindGroup,
                        offsets: &[wgpu::DynamicOffset],
                    ) {
                        self.set_bind_group(index, bind_group, offsets);
                    }
                }
                impl SetBindGroup for wgpu::RenderBundleEncoder<'_> {
                    fn set_bind_group(
                        &mut self,
                        index: u32,
                        bind_group: &wgpu::BindGroup,
                        offsets: &[wgpu::DynamicOffset],
                    ) {
                        self.set_bind_group(index, bind_group, offsets);
                    }
                }
            }
            #set_bind_groups
        }
    }
}
//@end

} // verus!
fn main() {}
