//@props C07 C12 C14
//@strip-attrs derive :: derive output is outside Verus
//@derive-keep Clone|Copy
//@hoist-closure-patterns :: closure parameter patterns hoisted into a let (Verus accepts only variables as closure parameters)
//@map-collect-to-loop layout_expressions :: Verus rejects closures that capture a mutable reference (the closure pushes into step_mode_params): the `.map(closure).collect()` is turned into the loop std executes - closure body once per element in order, results pushed in order; receiver and closure body are the real tokens
//@hoist-format-captures :: format! inline captures hoisted to positional arguments
//@rewrite `.parse().unwrap()` => `.shim_parse_tokens()` :: str::parse::<TokenStream>() is generic over FromStr; stand-in returning the tokens as an uninterpreted function of the text, precondition: the text lexes (spec/lib/tokens.rs)
//@rewrite `.filter_map(` => `.shim_filter_map(` :: provided trait method Iterator::filter_map: stand-in with the std meaning (spec/lib/iter_shims.rs)
//@rewrite `.filter(` => `.shim_filter(` :: provided trait method Iterator::filter: stand-in with the std meaning (spec/lib/iter_shims.rs)
//@rewrite `.flat_map(` => `.shim_flat_map(` :: provided trait method Iterator::flat_map: stand-in with the std meaning (spec/lib/iter_shims.rs)
//@rewrite `.sort_by_key(` => `.shim_sort_by_key(` :: slice::sort_by_key has no vstd specification: stand-in with the std meaning (stable sort by key), contract assumed (spec/lib/vec_shims.rs)
//@rewrite `.dedup_by_key(` => `.shim_dedup_by_key(` :: Vec::dedup_by_key has no vstd specification: stand-in with the std meaning (first of each run of equal keys kept), contract assumed (spec/lib/vec_shims.rs)
// Unit vertex: wgsl::{VertexInput, vertex_entry_structs, get_vertex_input_structs} (discovery of the vertex input structs,
// builtin skipping, de-duplication) and entry::{vertex_input_structs, vertex_struct_methods} (attribute tables, stride): C07.
#![feature(allocator_api)]
#![recursion_limit = "4096"]
#![allow(unused_imports, unused_variables, unused_mut, dead_code, unused_braces, unused_parens, unused_macros)]
use vstd::prelude::*;
use vstd::std_specs::iter::IteratorSpec;
extern crate naga;
extern crate proc_macro2;
extern crate syn;
extern crate wgpu_types;
extern crate indexmap;
extern crate rustc_hash;
use naga::StructMember;
use naga::ShaderStage;
extern crate case;
use case::CaseExt;
use proc_macro2::{TokenStream, Literal, Span};
use syn::Ident;
#[path = "../../spec/lib/prelude.rs"] pub mod prelude;
#[path = "../../spec/lib/iter_shims.rs"] pub mod iter_shims;
#[path = "../../spec/lib/vec_shims.rs"] pub mod vec_shims;
#[macro_use] #[path = "../../spec/lib/tokens.rs"] pub mod tokens;
#[path = "../../spec/lib/wgpu_shim.rs"] pub mod wgpu;
#[path = "../../spec/lib/model_common.rs"] pub mod model_common;
#[path = "../../spec/lib/model_types.rs"] pub mod model_types;
#[path = "../../spec/lib/model_entry.rs"] pub mod model_entry;
#[path = "../../spec/lib/model_vertex.rs"] pub mod model_vertex;
use prelude::*;
use iter_shims::*;
use vec_shims::*;
use tokens::*;
use model_common::*;
use model_types::*;
use model_entry::*;
use model_vertex::*;

verus! {

//@item lib.rs::enum MatrixVectorTypes
#[derive(Clone, Copy)]
pub enum MatrixVectorTypes {
    /// Rust types like `[f32; 4]` or `[[f32; 4]; 4]`.
    Rust,

    /// `glam` types like `glam::Vec4` or `glam::Mat4`.
    /// Types not representable by `glam` like `mat2x3<f32>` will use the output from [MatrixVectorTypes::Rust].
    Glam,

    /// `nalgebra` types like `nalgebra::SVector<f64, 4>` or `nalgebra::SMatrix<f32, 2, 3>`.
    Nalgebra,
}
//@end

pub mod wgsl {
    use super::*;
//@item wgsl.rs::struct VertexInput

pub struct VertexInput {
    pub name: String,
    pub fields: Vec<(u32, StructMember)>,
}
//@end

pub open spec fn vi_view(v: VertexInput) -> VIView { (v.name, v.fields@) }
pub open spec fn vi_views(s: Seq<VertexInput>) -> Seq<VIView> { s.map_values(|v: VertexInput| vi_view(v)) }
pub open spec fn vi_opt(o: Option<VertexInput>) -> Option<VIView> { match o { Some(v) => Some(vi_view(v)), None => None } }


// everything collected from the vertex entries is a vertex input struct, and every vertex input struct was collected
pub open spec fn collected_ok(m: &naga::Module, all: Seq<VertexInput>) -> bool {
    &&& forall|t: int| 0 <= t < all.len() ==> is_vertex_struct(m, vi_view(#[trigger] all[t]))
    &&& forall|v: VIView| is_vertex_struct(m, v) ==> exists|t: int| 0 <= t < all.len() && vi_view(#[trigger] all[t]) == v
}
proof fn lemma_collected(module: &naga::Module, refs: Seq<&naga::EntryPoint>, bs: Seq<bool>, ys: Seq<Vec<VertexInput>>)
    requires
        refs.len() == module.entry_points@.len(), forall|i: int| 0 <= i < refs.len() ==> *#[trigger] refs[i] == module.entry_points@[i],
        bs.len() == refs.len(), forall|i: int| 0 <= i < bs.len() ==> #[trigger] bs[i] == (refs[i].stage == naga::ShaderStage::Vertex),
        ys.len() == keep(refs, bs).len(), forall|j: int| 0 <= j < ys.len() ==> vi_views((#[trigger] ys[j])@) == entry_structs(module, keep(refs, bs)[j]),
    ensures collected_ok(module, concat_vecs(ys)),
{
    let es = module.entry_points@;
    let all = concat_vecs(ys);
    let kept = keep(refs, bs);
    lemma_kidx(refs, bs);
    let ix = kidx(bs);
    assert forall|t: int| 0 <= t < all.len() implies is_vertex_struct(module, vi_view(#[trigger] all[t])) by {
        lemma_concat_index(ys, t);
        let (j, k) = choose|j: int, k: int| 0 <= j < ys.len() && 0 <= k < (#[trigger] ys[j])@.len() && concat_vecs(ys)[t] == #[trigger] ys[j]@[k];
        let e = ix[j];
        assert(kept[j] == refs[e] && *refs[e] == es[e] && bs[e]);
        assert(vi_views(ys[j]@)[k] == vi_view(all[t]));
        assert(entry_structs(module, &es[e])[k] == vi_view(all[t]));
    }
    assert forall|v: VIView| is_vertex_struct(module, v) implies exists|t: int| 0 <= t < all.len() && vi_view(#[trigger] all[t]) == v by {
        let (e, k) = choose|e: int, k: int| 0 <= e < es.len() && (#[trigger] es[e]).stage == naga::ShaderStage::Vertex
            && 0 <= k < entry_structs(module, &es[e]).len() && #[trigger] entry_structs(module, &es[e])[k] == v;
        assert(*refs[e] == es[e]);
        assert(bs[e]);
        let j = choose|j: int| 0 <= j < ix.len() && #[trigger] ix[j] == e;
        assert(kept[j] == refs[e]);
        assert(vi_views(ys[j]@) == entry_structs(module, &es[e]));
        assert(vi_views(ys[j]@)[k] == vi_view(ys[j]@[k]));
        lemma_concat_member(ys, j, k);
        let t = choose|t: int| 0 <= t < concat_vecs(ys).len() && #[trigger] concat_vecs(ys)[t] == ys[j]@[k];
        assert(vi_view(all[t]) == v);
    }
}
// sorting by name and dropping all but the first of each run of equal names leaves each vertex input struct exactly once
proof fn lemma_discovery(module: &naga::Module, all: Seq<VertexInput>, ks1: Seq<String>, sorted: Seq<VertexInput>, ks2: Seq<String>)
    requires
        collected_ok(module, all),
        ks1.len() == all.len(), forall|i: int| 0 <= i < ks1.len() ==> #[trigger] ks1[i] == all[i].name, stably_sorted(all, ks1, sorted),
        ks2.len() == sorted.len(), forall|i: int| 0 <= i < ks2.len() ==> #[trigger] ks2[i] == sorted[i].name,
    ensures discovery_ok(module, vi_views(keep(sorted, run_heads(ks2)))),
{
    let key = |v: VertexInput| v.name;
    lemma_sorted_props(all, ks1, sorted, key);
    lemma_dedup_sorted(sorted, ks2, key);
    let r = keep(sorted, run_heads(ks2));
    let vs = vi_views(r);
    assert forall|j: int| 0 <= j < vs.len() implies is_vertex_struct(module, #[trigger] vs[j]) by {
        let i = all_in_at(r, sorted, j);
        let t = all_in_at(sorted, all, i);
        assert(is_vertex_struct(module, vi_view(all[t])));
    }
    assert forall|v: VIView| is_vertex_struct(module, v) implies exists|j: int| 0 <= j < vs.len() && (#[trigger] vs[j]).0 == v.0 by {
        let t = choose|t: int| 0 <= t < all.len() && vi_view(#[trigger] all[t]) == v;
        let i = all_in_at(all, sorted, t);
        let a = keys_covered_at(sorted, r, key, i);
        assert(vs[a].0 == v.0);
    }
    assert forall|i: int, j: int| 0 <= i < j < vs.len() implies (#[trigger] vs[i]).0 != (#[trigger] vs[j]).0 by {
        keys_distinct_at(r, key, i, j);
    }
}

//@fn wgsl.rs::vertex_entry_structs props=C07
pub fn vertex_entry_structs(
    vertex_entry: &naga::EntryPoint,
    module: &naga::Module,
) -> «(r:» Vec<VertexInput>«)
    requires
        entry_args_wf(module, vertex_entry), // [C07.entry-pre] naga invariants: argument types in range, struct types named, members of an input struct bound
    ensures
        vi_views(r@) == entry_structs(module, vertex_entry), // [C07.entry-structs] one VertexInput per struct parameter without a binding, in parameter order, holding exactly the @location members (builtins skipped) in declaration order with their locations»
{
    «broadcast use axiom_uarena_index_req;
    let ghost args = vertex_entry.function.arguments@;
    let ghost mut gi;
    let ghost mut gf;
    let ghost mut gv;
    let r: Vec<VertexInput> = { let __v = { let __f = { let __i =» vertex_entry
        .function
        .arguments
        .iter()«; proof { gi = __i; } __i }»
        .shim_filter(|a| «-> (o: bool) ensures o == (a.binding is None) {» a.binding.is_none() «}»)«; proof { gf = __f;
            let refs = gi.remaining();
            let bs = choose|bs: Seq<bool>| #![trigger keep(refs, bs)] bs.len() == refs.len()
                && (forall|i: int| 0 <= i < bs.len() ==> #[trigger] bs[i] == (refs[i].binding is None)) && __f.remaining() == keep(refs, bs);
            assert forall|j: int| 0 <= j < __f.remaining().len() implies arg_wf(module, *#[trigger] __f.remaining()[j]) && __f.remaining()[j].binding is None by {
                lemma_keep_elems(refs, bs, j);
                let i = choose|i: int| 0 <= i < refs.len() && bs[i] && #[trigger] refs[i] == keep(refs, bs)[j];
                assert(*refs[i] == args[i]);
            }
        } __f }»
        .shim_filter_map(|argument| «-> (o: Option<VertexInput>) requires arg_wf(module, *argument), argument.binding is None ensures vi_opt(o) == arg_struct(module, *argument)» {
            let arg_type = &module.types[argument.ty];
            match &arg_type.inner {
                naga::TypeInner::Struct { members, span: _ } => {
                    «let ghost ms = members@;
                    let ghost mut gm;»
                    let input = VertexInput {
                        name: arg_type.name.as_ref().unwrap().clone(),
                        fields: «{ let __m =» members
                            .iter()
                            .shim_filter_map(|member| «-> (o: Option<(u32, StructMember)>) requires member.binding is Some ensures o == member_loc(*member)» {
                                // Skip builtins since they have no location binding.
                                let location = match member.binding.as_ref().unwrap() {
                                    naga::Binding::BuiltIn(_) => None,
                                    naga::Binding::Location { location, .. } => Some(*location),
                                }?;

                                Some((location, member.clone()))
                            })«; proof { gm = __m;
                                let ys = choose|ys: Seq<Option<(u32, StructMember)>>| #![trigger somes(ys)] ys.len() == ms.len()
                                    && (forall|i: int| 0 <= i < ys.len() ==> #[trigger] ys[i] == member_loc(ms[i])) && __m.remaining() == somes(ys);
                                assert(ys =~= Seq::new(ms.len(), |i: int| member_loc(ms[i])));
                            } __m }»
                            .collect(),
                    };
                    «assert(input.fields@ == located(ms));»

                    Some(input)
                }
                // An argument has to have a binding unless it is a structure.
                _ => None,
            }
        })«; proof { gv = __v;
            let refs = gi.remaining();
            let bs = choose|bs: Seq<bool>| #![trigger keep(refs, bs)] bs.len() == refs.len()
                && (forall|i: int| 0 <= i < bs.len() ==> #[trigger] bs[i] == (refs[i].binding is None)) && gf.remaining() == keep(refs, bs);
            let kept = keep(refs, bs);
            let ys = choose|ys: Seq<Option<VertexInput>>| #![trigger somes(ys)] ys.len() == kept.len()
                && (forall|j: int| 0 <= j < ys.len() ==> vi_opt(#[trigger] ys[j]) == arg_struct(module, *kept[j])) && __v.remaining() == somes(ys);
            let g = |v: VertexInput| vi_view(v);
            let f = |a: &naga::FunctionArgument| arg_struct(module, *a);
            let ys2 = ys.map_values(|o: Option<VertexInput>| opt_map(o, g));
            let zs = Seq::new(args.len(), |i: int| arg_struct(module, args[i]));
            lemma_somes_map(ys, g);
            assert forall|j: int| 0 <= j < ys2.len() implies #[trigger] ys2[j] == f(kept[j]) by { assert(vi_opt(ys[j]) == arg_struct(module, *kept[j])); }
            assert forall|i: int| 0 <= i < refs.len() implies #[trigger] zs[i] == (if bs[i] { f(refs[i]) } else { None }) by { assert(*refs[i] == args[i]); }
            lemma_somes_keep(refs, bs, ys2, zs, f);
            assert(vi_views(__v.remaining()) == somes(zs));
        } __v }»
        .collect()«;
    proof { assert(r@ == gv.remaining()); }
    r»
}
//@end

//@fn wgsl.rs::get_vertex_input_structs props=C07
pub fn get_vertex_input_structs(module: &naga::Module) -> «(r:» Vec<VertexInput>«)
    requires
        vertex_args_wf(module), // [C07.discovery-pre] naga invariants for the arguments of the vertex entry points
    ensures
        discovery_ok(module, vi_views(r@)), // [C07.discovery] every listed struct is a struct parameter of a vertex entry with exactly its @location members; every such parameter is listed; no name is listed twice (one impl block per struct, also when several entries share it)»
{
    «let ghost es = module.entry_points@;
    let ghost mut gi;
    let ghost mut gf;
    let ghost mut gm;»
    let mut structs: Vec<_> = «{ let __m = { let __f = { let __i =» module
        .entry_points
        .iter()«; proof { gi = __i; } __i }»
        .shim_filter(|e| «-> (o: bool) ensures o == (e.stage == naga::ShaderStage::Vertex) {» e.stage == naga::ShaderStage::Vertex «}»)«; proof { gf = __f;
            let refs = gi.remaining();
            let bs = choose|bs: Seq<bool>| #![trigger keep(refs, bs)] bs.len() == refs.len()
                && (forall|i: int| 0 <= i < bs.len() ==> #[trigger] bs[i] == (refs[i].stage == naga::ShaderStage::Vertex)) && __f.remaining() == keep(refs, bs);
            assert forall|j: int| 0 <= j < __f.remaining().len() implies entry_args_wf(module, #[trigger] __f.remaining()[j]) by {
                lemma_keep_elems(refs, bs, j);
                let i = choose|i: int| 0 <= i < refs.len() && bs[i] && #[trigger] refs[i] == keep(refs, bs)[j];
                assert(*refs[i] == es[i]);
            }
        } __f }»
        .shim_flat_map(|vertex_entry| «-> (o: Vec<VertexInput>) requires entry_args_wf(module, vertex_entry) ensures vi_views(o@) == entry_structs(module, vertex_entry) {» vertex_entry_structs(vertex_entry, module) «}»)«; proof { gm = __m; } __m }»
        .collect();
    «let ghost all = structs@;
    proof {
        assert(all == gm.remaining());
        let refs = gi.remaining();
        let bs = choose|bs: Seq<bool>| #![trigger keep(refs, bs)] bs.len() == refs.len()
            && (forall|i: int| 0 <= i < bs.len() ==> #[trigger] bs[i] == (refs[i].stage == naga::ShaderStage::Vertex)) && gf.remaining() == keep(refs, bs);
        let kept = keep(refs, bs);
        let ys = choose|ys: Seq<Vec<VertexInput>>| #![trigger concat_vecs(ys)] ys.len() == kept.len()
            && (forall|j: int| 0 <= j < ys.len() ==> vi_views((#[trigger] ys[j])@) == entry_structs(module, kept[j])) && gm.remaining() == concat_vecs(ys);
        lemma_collected(module, refs, bs, ys);
    }»

    // Remove structs that are used more than once.
    structs.shim_sort_by_key(|s| «-> (o: String) ensures o == s.name {» s.name.clone() «}»);
    structs.shim_dedup_by_key(|s| «-> (o: String) ensures o == s.name {» s.name.clone() «}»);
    «proof {
        // the state between the two calls is named by what the two contracts say about it: sorted from `all`, and the
        // final vector is its run heads (without the sort, or without the dedup, no such state exists and this fails)
        let (sorted, ks1, ks2) = choose|sorted: Seq<VertexInput>, ks1: Seq<String>, ks2: Seq<String>|
            #![trigger stably_sorted(all, ks1, sorted), run_heads(ks2)]
            ks1.len() == all.len() && (forall|i: int| 0 <= i < ks1.len() ==> #[trigger] ks1[i] == all[i].name) && stably_sorted(all, ks1, sorted)
            && ks2.len() == sorted.len() && (forall|i: int| 0 <= i < ks2.len() ==> #[trigger] ks2[i] == sorted[i].name) && structs@ == keep(sorted, run_heads(ks2));
        lemma_discovery(module, all, ks1, sorted, ks2);
    }»

    structs
}
//@end

//@stub wgsl.rs::vertex_format proved-in=wgsl_types
«#[verifier::external_body]»
pub fn vertex_format(ty: &naga::Type) -> «(r:» wgpu::VertexFormat«)
    requires
        attr_supported(ty.inner), // [C07.format-pre] the supported vertex attribute types: every todo!() arm below is unreachable
    ensures
        vf_shape(r) == attr_shape(ty.inner), // [C07.format] the vertex format has the same scalar kind, width and component count as the WGSL type»
{ unimplemented!() }
//@end

}
use wgsl::*;

//@fn entry.rs::vertex_input_structs props=C07
fn vertex_input_structs(module: &naga::Module) -> «(r:» Vec<TokenStream>«)
    requires
        vertex_args_wf(module), // [C07.discovery-pre]
        vertex_fields_wf(module), // [C07.attr-pre] documented feature set: every @location member of a vertex input struct is named, its name lexes, and its type is a supported attribute type
    ensures
        vertex_impls_post(module, toks_of(r@)), // [C07.attributes] [C07.stride] one impl block per vertex input struct: VERTEX_ATTRIBUTES has exactly one attribute per @location member, in order, with that member's location, the format of the same scalar kind, width and component count, and offset_of!(Struct, field); the layout's stride is size_of::<Struct>() and it passes the caller's step mode»
{
    «broadcast use axiom_uarena_index_req;»
    let vertex_inputs = crate::wgsl::get_vertex_input_structs(module);
    «let ghost vs = vi_views(vertex_inputs@);
    proof {
        assert forall|k: int| 0 <= k < vertex_inputs@.len() implies fields_ok(module, vi_view(#[trigger] vertex_inputs@[k])) by {
            assert(is_vertex_struct(module, vs[k]));
        }
    }
    let r: Vec<TokenStream> =» vertex_inputs.iter().map(|input| «-> (o: TokenStream) requires fields_ok(module, vi_view(*input)) ensures ts_view(&o) == vertex_impl_toks(module, vi_view(*input))» {
        «let ghost fs = input.fields@;
        proof { assert forall|i: int| 0 <= i < fs.len() implies field_ok(module, (#[trigger] fs[i]).1) by { assert(vi_view(*input).1[i] == fs[i]); } }»
        let name = Ident::new(&input.name, Span::call_site());

        let count = Literal::usize_unsuffixed(input.fields.len());
        let attributes: Vec<_> = input
            .fields
            .iter()
            .map(|__p0| «-> (o: TokenStream) requires field_ok(module, __p0.1) ensures ts_view(&o) == attr_toks(module, input.name@, *__p0)» { let (location, m) = __p0;
                let field_name: TokenStream = m.name.as_ref().unwrap().shim_parse_tokens();
                let location = Literal::usize_unsuffixed(*location as usize);
                «assert(lit_view(&location) == Tok::LitU(__p0.0 as int)); // [C07.attr-location] the attribute carries the member's own @location»
                let format = crate::wgsl::vertex_format(&module.types[m.ty]);
                «proof { lemma_vf_of(format, vtys(module)[handle_index(m.ty)].inner); }»
                // TODO: Will the debug implementation always work with the macro?
                let format = Ident::new(&format!("{:?}", format), Span::call_site());

                quote! {
                    wgpu::VertexAttribute {
                        format: wgpu::VertexFormat::#format,
                        offset: std::mem::offset_of!(#name, #field_name) as u64,
                        shader_location: #location,
                    }
                }
            })
            .collect();
        «proof { assert(toks_of(attributes@) =~= Seq::new(fs.len(), |i: int| attr_toks(module, input.name@, fs[i]))); }»

        // The vertex_attr_array! macro doesn't account for field alignment.
        // Structs with glam::Vec4 and glam::Vec3 fields will not be tightly packed.
        // Manually calculate the Rust field offsets to support using bytemuck for vertices.
        // This works since we explicitly mark all generated structs as repr(C).
        // Assume elements are in Rust arrays or slices, so use size_of for stride.
        // TODO: Should this enforce WebGPU alignment requirements for compatibility?
        // https://gpuweb.github.io/gpuweb/#abstract-opdef-validating-gpuvertexbufferlayout

        // TODO: Support vertex inputs that aren't in a struct.
        quote! {
            impl #name {
                pub const VERTEX_ATTRIBUTES: [wgpu::VertexAttribute; #count] = [#(#attributes),*];

                pub const fn vertex_buffer_layout(step_mode: wgpu::VertexStepMode) -> wgpu::VertexBufferLayout<'static> {
                    wgpu::VertexBufferLayout {
                        array_stride: std::mem::size_of::<#name>() as u64,
                        step_mode,
                        attributes: &#name::VERTEX_ATTRIBUTES
                    }
                }
            }
        }
    }).collect()«;
    proof {
        assert(toks_of(r@) =~= Seq::new(vs.len(), |i: int| vertex_impl_toks(module, vs[i])));
    }
    r»
}
//@end

//@fn entry.rs::vertex_struct_methods props=C07
pub fn vertex_struct_methods(module: &naga::Module) -> «(r:» TokenStream«)
    requires
        vertex_args_wf(module), vertex_fields_wf(module),
    ensures
        vertex_methods_post(module, ts_view(&r)), // [C07.methods] the vertex section of the output is exactly those impl blocks, one after the other»
{
    let structs = vertex_input_structs(module);
    quote!(#(#structs)*)
}
//@end

//@fn entry.rs::vertex_states props=C07,C12,C14
pub fn vertex_states(module: &naga::Module) -> «(r:» TokenStream«)
    requires
        vertex_args_wf(module), // [C07.states-pre] naga invariants for the arguments of the vertex entry points
    ensures
        ts_view(&r) == vertex_states_toks(module), // [C07.buffers] [C14.vertex-states] [C12.vertex-pass-through] per vertex entry a helper with one step-mode parameter and one `Struct::vertex_buffer_layout(step)` per struct parameter, in parameter order, VertexEntry<n> with n = their number, naming the entry through its ENTRY_ constant and passing overrides.constants() iff the module has overrides; vertex_state forwards module, name, buffers, constants unchanged»
{
    «let ghost es = module.entry_points@;
    let ghost mut gv;»
    let vertex_entries: Vec<TokenStream> «= { let __v» = module
        .entry_points
        .iter()
        .shim_filter_map(|entry_point| «-> (o: Option<TokenStream>) requires entry_point.stage == naga::ShaderStage::Vertex ==> entry_args_wf(module, entry_point) ensures opt_ts(o) == vert_entry_toks(module, entry_point) {» match &entry_point.stage {
            ShaderStage::Vertex => {
                let fn_name =
                    Ident::new(&format!("{}_entry", &entry_point.name), Span::call_site());
                let const_name = Ident::new(
                    &format!("ENTRY_{}", &entry_point.name.to_uppercase()),
                    Span::call_site(),
                );

                let vertex_inputs = vertex_entry_structs(entry_point, module);
                «let ghost vi = entry_structs(module, entry_point);»
                let mut step_mode_params = vec![];
                let layout_expressions: Vec<TokenStream> = { let mut __acc_layout_expressions = Vec::new(); for input in «it:» vertex_inputs
                    .iter()
                    «invariant
                        it.seq().len() == vertex_inputs@.len(),
                        forall|k: int| 0 <= k < it.seq().len() ==> *(#[trigger] it.seq()[k]) == vertex_inputs@[k],
                        vi == vi_views(vertex_inputs@),
                        toks_of(step_mode_params@) =~= Seq::new(it.index@ as nat, |i: int| step_param_toks(vi[i].0@)),
                        toks_of(__acc_layout_expressions@) =~= Seq::new(it.index@ as nat, |i: int| layout_expr_toks(vi[i].0@)),»
                     { «let ghost j = it.index@ as int;
                       assert(*it.seq()[j] == vertex_inputs@[j]);
                       assert(vi[j].0 == input.name);
                       let ghost sp0 = step_mode_params@;
                       let ghost le0 = __acc_layout_expressions@;»
                       let __o = {
                        let name = Ident::new(&input.name, Span::call_site());
                        let step_mode = Ident::new(&input.name.to_snake(), Span::call_site());
                        step_mode_params.push(quote!(#step_mode: wgpu::VertexStepMode));
                        quote!(#name::vertex_buffer_layout(#step_mode))
                    }; __acc_layout_expressions.push(__o);
                       «proof {
                           assert(toks_of(step_mode_params@) =~= toks_of(sp0).push(step_param_toks(vi[j].0@)));
                           assert(toks_of(__acc_layout_expressions@) =~= toks_of(le0).push(layout_expr_toks(vi[j].0@)));
                       }» } __acc_layout_expressions };

                let n = Literal::usize_unsuffixed(vertex_inputs.len());

                let overrides = if !module.overrides.is_empty() {
                    Some(quote!(overrides: &OverrideConstants))
                } else {
                    None
                };

                let constants = if !module.overrides.is_empty() {
                    quote!(overrides.constants())
                } else {
                    quote!(Default::default())
                };

                let params = if step_mode_params.is_empty() {
                    quote!(#overrides)
                } else {
                    quote!(#(#step_mode_params),*, #overrides)
                };

                Some(quote! {
                    pub fn #fn_name(#params) -> VertexEntry<#n> {
                        VertexEntry {
                            entry_point: #const_name,
                            buffers: [
                                #(#layout_expressions),*
                            ],
                            constants: #constants
                        }
                    }
                })
            }
            _ => None,
        } «}»)«; proof { gv = __v;
            let ys = choose|ys: Seq<Option<TokenStream>>| #![trigger somes(ys)] ys.len() == es.len()
                && (forall|i: int| 0 <= i < ys.len() ==> opt_ts(#[trigger] ys[i]) == vert_entry_toks(module, &es[i]))
                && __v.remaining() == somes(ys);
            let zs = Seq::new(es.len(), |i: int| vert_entry_toks(module, &es[i]));
            lemma_somes_toks(ys, zs);
            assert(toks_of(__v.remaining()) =~= somes(zs));
        } __v }»
        .collect();
    «proof { assert(vertex_entries@ == gv.remaining()); }»

    // Don't generate unused code.
    if vertex_entries.is_empty() {
        quote!()
    } else {
        quote! {
            #[derive(Debug)]
            pub struct VertexEntry<const N: usize> {
                pub entry_point: &'static str,
                pub buffers: [wgpu::VertexBufferLayout<'static>; N],
                pub constants: std::collections::HashMap<String, f64>,
            }

            pub fn vertex_state<'a, const N: usize>(
                module: &'a wgpu::ShaderModule,
                entry: &'a VertexEntry<N>,
            ) -> wgpu::VertexState<'a> {
                wgpu::VertexState {
                    module,
                    entry_point: Some(entry.entry_point),
                    buffers: &entry.buffers,
                    compilation_options: wgpu::PipelineCompilationOptions {
                        constants: &entry.constants,
                        ..Default::default()
                    },
                }
            }

            #(#vertex_entries)*
        }
    }
}
//@end

} // verus!
fn main() {}
