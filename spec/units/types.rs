//@props C05 C08 C09 C20
// Unit types: structs::add_types_recursive - the set of types reachable from a module-scope variable
// (C08: exactly the transitive closure through pointer / array / binding-array bases and struct members)
// and its cost (C20: a type is expanded only when the seen set strictly grew).
#![feature(allocator_api)]
#![recursion_limit = "4096"]
#![allow(unused_imports, unused_variables, unused_mut, dead_code, unused_braces, unused_parens)]
use vstd::prelude::*;
use vstd::std_specs::iter::IteratorSpec;
use std::collections::HashSet;
extern crate naga;
extern crate indexmap;
extern crate rustc_hash;
use naga::{Handle, Type};
#[path = "../../spec/lib/prelude.rs"] pub mod prelude;
#[path = "../../spec/lib/model_reach.rs"] pub mod model_reach;
use prelude::*;
use model_reach::*;

verus! {

//@fn structs.rs::add_types_recursive
fn add_types_recursive(
    types: &mut HashSet<naga::Handle<naga::Type>>,
    module: &naga::Module,
    ty: Handle<Type>,
)
    «requires
        types_wf(module), // [C08.types-pre] naga's UniqueArena is built bottom-up
        0 <= handle_index(ty) < ntypes(module),
        closed_upto(module, old(types)@, handle_index(ty)), // every finished type at or below `ty` already has its contents in the set (in-progress ancestors have larger handles)
    ensures
        smono(old(types)@, final(types)@), // [C08.closure-mono] nothing is removed
        all_reached(module, final(types)@, handle_index(ty)), // [C08.closure-complete] [C05.host-set] [C09.host-set] (the host-shareable set that decides layout assertions and derives is this closure) every type reachable from `ty` through members, arrays, runtime arrays, pointers, binding arrays is in the set
        new_reached(module, old(types)@, final(types)@, handle_index(ty)), // [C08.closure-sound] [C05.host-set-sound] [C09.host-set-sound] nothing is added that `ty` does not reach
        new_closed(module, old(types)@, final(types)@),
    decreases unseen(module, old(types)@), // [C20.types-measure] a type is expanded only when the seen set strictly grew: at most one expansion per type»
{
    «broadcast use axiom_uarena_index_req, axiom_handle_key_model, axiom_mk_handle, vstd::std_specs::hash::group_hash_axioms;
    let ghost t = handle_index(ty);
    let ghost v0 = types@;»
    // Types can be shared, so only visit each type once.
    if !types.insert(ty) {
        «proof {
            assert(seen(v0, t));
            assert forall|d: int| #[trigger] reach(module, t, d) implies seen(v0, d) by { lemma_closed_reach(module, v0, t, t, d); }
        }»
        return;
    }
    «let ghost v1 = types@;
    proof {
        assert(v1 =~= v0.insert(mk_handle(t)));
        assert(!seen(v0, t));
        lemma_unseen_insert(module, v0, t);
        axiom_mk_handle_idx::<naga::Type>(t);
        assert forall|d: int| seen(v1, d) implies seen(v0, d) || d == t by { axiom_mk_handle_idx::<naga::Type>(d); }
    }»

    match &module.types[ty].inner {
        naga::TypeInner::Pointer { base, .. } => «{ proof { lemma_one_child_pre(module, v0, v1, t, handle_index(*base)); } let __r =» add_types_recursive(types, module, *base)«; proof { lemma_one_child_post(module, v0, v1, types@, t, handle_index(*base)); } __r }»,
        naga::TypeInner::Array { base, .. } => «{ proof { lemma_one_child_pre(module, v0, v1, t, handle_index(*base)); } let __r =» add_types_recursive(types, module, *base)«; proof { lemma_one_child_post(module, v0, v1, types@, t, handle_index(*base)); } __r }»,
        naga::TypeInner::Struct { members, .. } => {
            for member in «it:» members
                «invariant
                    v0 == old(types)@, t == handle_index(ty), types_wf(module), 0 <= t < ntypes(module),
                    it.seq().len() == members@.len(),
                    forall|k: int| 0 <= k < it.seq().len() ==> *(#[trigger] it.seq()[k]) == members@[k],
                    (match ty_at(module, t).inner { naga::TypeInner::Struct { members: ms, .. } => ms@ == members@, _ => false }),
                    closed_upto(module, v0, t), !seen(v0, t), seen(types@, t),
                    smono(v0, types@), unseen(module, types@) < unseen(module, v0),
                    forall|d: int| #[trigger] seen(types@, d) && !seen(v0, d) ==> reach(module, t, d),
                    forall|a: int, b: int| seen(types@, a) && !seen(v0, a) && a != t && #[trigger] edge(module, a, b) ==> seen(types@, b),
                    forall|k: int, d: int| 0 <= k < it.index@ && #[trigger] reach(module, handle_index(members@[k].ty), d) ==> seen(types@, d),»
            {
                «broadcast use axiom_uarena_index_req, axiom_handle_key_model, axiom_mk_handle, vstd::std_specs::hash::group_hash_axioms;
                let ghost k = it.index@ as int;
                let ghost vk = types@;
                assert(*it.seq()[k] == members@[k]);
                let ghost c = handle_index(member.ty);
                proof {
                    assert(edge(module, t, c));
                    lemma_child_pre(module, v0, vk, t, c);
                }»
                add_types_recursive(types, module, member.ty);
                «proof {
                    lemma_unseen_mono(module, vk, types@);
                    lemma_child_post(module, v0, vk, types@, t, c);
                    assert forall|kk: int, d: int| 0 <= kk < k + 1 && #[trigger] reach(module, handle_index(members@[kk].ty), d) implies seen(types@, d) by {}
                }»
            }
            «proof {
                assert forall|d: int| #[trigger] reach(module, t, d) implies seen(types@, d) by {
                    if d != t {
                        let c = choose|c: int| 0 <= c < t && #[trigger] edge(module, t, c) && reach(module, c, d);
                        let k = choose|k: int| 0 <= k < members@.len() && handle_index(#[trigger] members@[k].ty) == c;
                        assert(reach(module, handle_index(members@[k].ty), d));
                    }
                }
                assert forall|a: int, b: int| seen(types@, a) && !seen(v0, a) && #[trigger] edge(module, a, b) implies seen(types@, b) by {
                    if a == t { assert(reach(module, b, b)); assert(reach(module, t, b)); }
                }
            }»
        }
        naga::TypeInner::BindingArray { base, .. } => «{ proof { lemma_one_child_pre(module, v0, v1, t, handle_index(*base)); } let __r =» add_types_recursive(types, module, *base)«; proof { lemma_one_child_post(module, v0, v1, types@, t, handle_index(*base)); } __r }»,
        _ => «{
            proof {
                assert forall|d: int| #[trigger] reach(module, t, d) implies seen(types@, d) by {
                    if d != t { let c = choose|c: int| 0 <= c < t && #[trigger] edge(module, t, c) && reach(module, c, d); }
                }
            }»
            ()
        «}»,
    }
}
//@end

} // verus!
fn main() {}
