//@props C05 C08 C09 C20
// Unit types: structs::add_types_recursive - the set of types reachable from a module-scope variable
// (C08: exactly the transitive closure through pointer / array / binding-array bases and struct members)
// and its cost (C20: a type is expanded only when the seen set strictly grew).
#![feature(allocator_api)]
#![recursion_limit = "4096"]
#![allow(unused_imports, unused_variables, unused_mut, dead_code, unused_braces, unused_parens)]
use vstd::prelude::*;
use vstd::std_specs::iter::IteratorSpec;
use std::collections::HashSet;
extern crate naga;
extern crate indexmap;
extern crate rustc_hash;
use naga::{Handle, Type};
#[path = "../../spec/lib/prelude.rs"] pub mod prelude;
#[path = "../../spec/lib/model_reach.rs"] pub mod model_reach;
use prelude::*;
use model_reach::*;

verus! {

//@fn structs.rs::add_types_recursive props=C05,C08,C09
fn add_types_recursive(
    types: &mut HashSet<naga::Handle<naga::Type>>,
    module: &naga::Module,
    ty: Handle<Type>,
)
    «requires
        types_wf(module), // [C08.types-pre] naga's UniqueArena is built bottom-up
        type_call_ok(module, old(types)@, handle_index(ty)), // `ty` is a type of the module, and every finished type at or below `ty` already has its contents in the set (in-progress ancestors have larger handles)
    ensures
        smono(old(types)@, final(types)@), // [C08.closure-mono] nothing is removed
        all_reached(module, final(types)@, handle_index(ty)), // [C08.closure-complete] [C05.host-set] [C09.host-set] (the host-shareable set that decides layout assertions and derives is this closure) every type reachable from `ty` through members, arrays, runtime arrays, pointers, binding arrays is in the set
        new_reached(module, old(types)@, final(types)@, handle_index(ty)), // [C08.closure-sound] [C05.host-set-sound] [C09.host-set-sound] nothing is added that `ty` does not reach
        new_closed(module, old(types)@, final(types)@),
    decreases unseen(module, old(types)@), // [C20.types-measure] a type is expanded only when the seen set strictly grew: at most one expansion per type»
{
    «broadcast use axiom_uarena_index_req, axiom_handle_key_model, axiom_mk_handle, vstd::std_specs::hash::group_hash_axioms;
    let ghost t = handle_index(ty);
    let ghost v0 = types@;»
    // Types can be shared, so only visit each type once.
    if !types.insert(ty) {
        return;
    }
    «let ghost v1 = types@;
    proof { lemma_enter(module, v0, v1, t); }»

    match &module.types[ty].inner {
        naga::TypeInner::Pointer { base, .. } => add_types_recursive(types, module, *base),
        naga::TypeInner::Array { base, .. } => add_types_recursive(types, module, *base),
        naga::TypeInner::Struct { members, .. } => {
            for member in «it:» members
                «invariant
                    v0 == old(types)@, t == handle_index(ty), types_wf(module), 0 <= t < ntypes(module),
                    it.seq().len() == members@.len(),
                    forall|k: int| 0 <= k < it.seq().len() ==> *(#[trigger] it.seq()[k]) == members@[k],
                    (match ty_at(module, t).inner { naga::TypeInner::Struct { members: ms, .. } => ms@ == members@, _ => false }),
                    entered(module, v0, t), frame(module, v0, types@, t), unseen(module, types@) < unseen(module, v0),
                    forall|k: int| 0 <= k < it.index@ ==> all_reached(module, types@, handle_index(#[trigger] members@[k].ty)), // [C08.closure-complete] [C05.host-set] [C09.host-set] every member type looked at so far has been closed over»
            {
                «broadcast use axiom_uarena_index_req, axiom_handle_key_model, axiom_mk_handle, vstd::std_specs::hash::group_hash_axioms;
                let ghost vk = types@;
                proof { lemma_child_ready(module, v0, t); assert(*it.seq()[it.index@ as int] == members@[it.index@ as int]); assert(edge(module, t, handle_index(member.ty))); }»
                add_types_recursive(types, module, member.ty);
                «proof { lemma_frame_step(module, v0, vk, types@, t, handle_index(member.ty)); lemma_unseen_mono(module, vk, types@); }»
            }
        }
        naga::TypeInner::BindingArray { base, .. } => add_types_recursive(types, module, *base),
        _ => (),
    }
    «proof {
        if single_child(module, t) is Some { lemma_frame_step_if(module, v0, v1, types@, t, single_child(module, t)->0); }
        lemma_leave(module, v0, types@, t);
    }»
}
//@end

} // verus!
fn main() {}
