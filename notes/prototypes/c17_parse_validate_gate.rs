#![feature(allocator_api)]
use vstd::prelude::*;
use vstd::std_specs::iter::IteratorSpec;
use std::collections::BTreeMap;
extern crate naga;
extern crate indexmap;
extern crate rustc_hash;
use std::collections::btree_map::Entry;

verus! {

macro_rules! opaque { ($($n:ident = $t:ty;)*) => { $( #[verifier::external_type_specification] #[verifier::external_body] pub struct $n($t); )* } }
macro_rules! transp { ($($n:ident = $t:ty;)*) => { $( #[verifier::external_type_specification] pub struct $n($t); )* } }
macro_rules! opaque1 { ($($n:ident = $t:ident;)*) => { $( #[verifier::external_type_specification] #[verifier::external_body] #[verifier::accept_recursive_types(T)] pub struct $n<T>(naga::$t<T>); )* } }

opaque1!{ ExHandle = Handle; ExRange = Range; ExArena = Arena; ExUniqueArena = UniqueArena; }

#[verifier::external_type_specification]
#[verifier::external_body]
#[verifier::accept_recursive_types(K)]
#[verifier::accept_recursive_types(V)]
#[verifier::accept_recursive_types(S)]
pub struct ExIndexMap<K, V, S>(indexmap::IndexMap<K, V, S>);

#[verifier::external_type_specification]
#[verifier::external_body]
#[verifier::accept_recursive_types(H)]
pub struct ExBuildHasherDefault<H>(core::hash::BuildHasherDefault<H>);

#[verifier::external_type_specification]
#[verifier::external_body]
#[verifier::reject_recursive_types(K)]
#[verifier::reject_recursive_types(V)]
#[verifier::reject_recursive_types(A)]
pub struct ExEntry<'a, K: 'a, V: 'a, A: core::alloc::Allocator + Clone>(Entry<'a, K, V, A>);

pub uninterp spec fn ekey<'a, K, V, A: core::alloc::Allocator + Clone>(e: Entry<'a, K, V, A>) -> K;
pub uninterp spec fn evalue<'a, K, V, A: core::alloc::Allocator + Clone>(e: Entry<'a, K, V, A>) -> Option<V>;
pub uninterp spec fn efinal<'a, K, V, A: core::alloc::Allocator + Clone>(e: Entry<'a, K, V, A>) -> Option<V>;

pub assume_specification<'a, K: Ord, V, A: core::alloc::Allocator + Clone>[ BTreeMap::<K, V, A>::entry ](m: &'a mut BTreeMap<K, V, A>, key: K) -> (e: Entry<'a, K, V, A>)
    ensures
        ekey(e) == key,
        evalue(e) == old(m)@.get(key),
        final(m)@ == (match efinal(e) { Some(v) => old(m)@.insert(key, v), None => old(m)@.remove(key) });

pub assume_specification<'a, K: Ord, V, A: core::alloc::Allocator + Clone>[ Entry::<'a, K, V, A>::or_insert ](e: Entry<'a, K, V, A>, default: V) -> (r: &'a mut V)
    ensures
        *r == (match evalue(e) { Some(v) => v, None => default }),
        efinal(e) == Some(*final(r));

pub uninterp spec fn arena_seq<T>(a: &naga::Arena<T>) -> Seq<T>;
pub uninterp spec fn handle_index<T>(h: naga::Handle<T>) -> int;

pub assume_specification<'a, T>[ naga::Arena::<T>::iter ](a: &'a naga::Arena<T>) -> (r: impl DoubleEndedIterator<Item = (naga::Handle<T>, &'a T)>)
    ensures r.obeys_prophetic_iter_laws(), r.decrease() is Some,
            r.remaining().len() == arena_seq(a).len(),
            forall|i: int| 0 <= i < arena_seq(a).len() ==> handle_index(#[trigger] r.remaining()[i].0) == i && *r.remaining()[i].1 == arena_seq(a)[i];

pub assume_specification<T>[ <naga::Arena<T> as core::ops::Index<naga::Handle<T>>>::index ](a: &naga::Arena<T>, h: naga::Handle<T>) -> (r: &T)
    ensures *r == arena_seq(a)[handle_index(h)];


pub broadcast axiom fn axiom_arena_index_req<T>(a: naga::Arena<T>, h: naga::Handle<T>)
    ensures #[trigger] vstd::std_specs::core::IndexSpec::index_req(&a, &h) == (0 <= handle_index(h) < arena_seq(&a).len());

opaque!{
  ExFxHasher = rustc_hash::FxHasher;
  ExStorageAccess = naga::StorageAccess;
  Exnaga_BinaryOperator = naga::BinaryOperator;
  Exnaga_DerivativeAxis = naga::DerivativeAxis;
  Exnaga_DerivativeControl = naga::DerivativeControl;
  Exnaga_ImageQuery = naga::ImageQuery;
  Exnaga_Literal = naga::Literal;
  Exnaga_MathFunction = naga::MathFunction;
  Exnaga_RelationalFunction = naga::RelationalFunction;
  Exnaga_SampleLevel = naga::SampleLevel;
  Exnaga_ScalarKind = naga::ScalarKind;
  Exnaga_SwizzleComponent = naga::SwizzleComponent;
  Exnaga_UnaryOperator = naga::UnaryOperator;
  Exnaga_VectorSize = naga::VectorSize;
  ExBlock = naga::Block;
  ExBarrier = naga::Barrier;
  ExAtomicFunction = naga::AtomicFunction;
  ExRayQueryFunction = naga::RayQueryFunction;
  ExGatherMode = naga::GatherMode;
  ExSubgroupOperation = naga::SubgroupOperation;
  ExCollectiveOperation = naga::CollectiveOperation;
  ExSwitchValue = naga::SwitchValue;
  ExSpecialTypes = naga::SpecialTypes;
  ExType = naga::Type;
  ExConstant = naga::Constant;
  ExOverride = naga::Override;
  ExDiagnosticFilterNode = naga::diagnostic_filter::DiagnosticFilterNode;
  ExFunctionArgument = naga::FunctionArgument;
  ExFunctionResult = naga::FunctionResult;
  ExLocalVariable = naga::LocalVariable;
  ExEarlyDepthTest = naga::EarlyDepthTest;
}
transp!{
  ExResourceBinding = naga::ResourceBinding;
  ExAddressSpace = naga::AddressSpace;
  ExStatement = naga::Statement;
  ExSwitchCase = naga::SwitchCase;
  ExModule = naga::Module;
  ExFunction = naga::Function;
  ExEntryPoint = naga::EntryPoint;
  ExGlobalVariable = naga::GlobalVariable;
  ExShaderStage = naga::ShaderStage;
  ExExpression = naga::Expression;
}

pub mod wgpu {
    use vstd::prelude::*;
    verus!{
    #[derive(Clone, Copy, PartialEq, Eq)]
    pub struct ShaderStages { pub bits: u32 }
    impl ShaderStages {
        pub const NONE: ShaderStages = ShaderStages { bits: 0 };
        pub const VERTEX: ShaderStages = ShaderStages { bits: 1 };
        pub const FRAGMENT: ShaderStages = ShaderStages { bits: 2 };
        pub const COMPUTE: ShaderStages = ShaderStages { bits: 4 };
        pub fn union(self, other: ShaderStages) -> (r: ShaderStages)
            ensures r.bits == self.bits | other.bits
        { ShaderStages { bits: self.bits | other.bits } }
    }
    }
}


pub uninterp spec fn uarena_seq<T>(a: &naga::UniqueArena<T>) -> Seq<T>;
pub assume_specification<T>[ <naga::UniqueArena<T> as core::ops::Index<naga::Handle<T>>>::index ](a: &naga::UniqueArena<T>, h: naga::Handle<T>) -> (r: &T)
    ensures *r == uarena_seq(a)[handle_index(h)];
pub broadcast axiom fn axiom_uarena_index_req<T>(a: naga::UniqueArena<T>, h: naga::Handle<T>)
    ensures #[trigger] vstd::std_specs::core::IndexSpec::index_req(&a, &h) == (0 <= handle_index(h) < uarena_seq(&a).len());


opaque!{
  ExParseError = naga::front::wgsl::ParseError;
  ExValidationError = naga::valid::ValidationError;
  ExValidator = naga::valid::Validator;
  ExValidationFlags = naga::valid::ValidationFlags;
  ExCapabilities = naga::valid::Capabilities;
  ExModuleInfo = naga::valid::ModuleInfo;
}
#[verifier::external_type_specification]
#[verifier::external_body]
#[verifier::accept_recursive_types(E)]
pub struct ExWithSpan<E>(naga::WithSpan<E>);

pub uninterp spec fn spec_parse(src: Seq<char>) -> Result<naga::Module, naga::front::wgsl::ParseError>;
pub uninterp spec fn spec_validate(caps: naga::valid::Capabilities, m: naga::Module) -> Option<naga::WithSpan<naga::valid::ValidationError>>;
pub uninterp spec fn validator_caps(v: naga::valid::Validator) -> naga::valid::Capabilities;

pub assume_specification[ naga::front::wgsl::parse_str ](src: &str) -> (r: Result<naga::Module, naga::front::wgsl::ParseError>)
    ensures r == spec_parse(src@);
pub assume_specification[ naga::valid::ValidationFlags::all ]() -> naga::valid::ValidationFlags;
pub assume_specification[ naga::valid::Validator::new ](flags: naga::valid::ValidationFlags, caps: naga::valid::Capabilities) -> (v: naga::valid::Validator)
    ensures validator_caps(v) == caps;
pub assume_specification[ naga::valid::Validator::validate ](v: &mut naga::valid::Validator, m: &naga::Module) -> (r: Result<naga::valid::ModuleInfo, naga::WithSpan<naga::valid::ValidationError>>)
    ensures (r is Err) == (spec_validate(validator_caps(*old(v)), *m) is Some),
            r is Err ==> Some(r->Err_0) == spec_validate(validator_caps(*old(v)), *m);

pub enum CreateModuleError {
    NonConsecutiveBindGroups,
    DuplicateBinding { binding: u32 },
    ParseError { error: naga::front::wgsl::ParseError },
    ValidationError { error: naga::WithSpan<naga::valid::ValidationError> },
}
pub use naga::valid::Capabilities as WgslCapabilities;
pub struct ValidationOptions { pub capabilities: WgslCapabilities }
pub struct WriteOptions { pub rustfmt: bool, pub validate: Option<ValidationOptions> }

pub uninterp spec fn spec_rest(m: naga::Module) -> Result<String, CreateModuleError>;
#[verifier::external_body]
fn rest(m: &naga::Module) -> (r: Result<String, CreateModuleError>) ensures r == spec_rest(*m) { unimplemented!() }

fn create_shader_module_inner(
    wgsl_source: &str,
    wgsl_include_path: Option<&str>,
    options: WriteOptions,
) -> (r: Result<String, CreateModuleError>)
    ensures
        spec_parse(wgsl_source@) is Err ==> r == Err::<String, CreateModuleError>(CreateModuleError::ParseError { error: spec_parse(wgsl_source@)->Err_0 }),
        spec_parse(wgsl_source@) is Ok && options.validate is Some && spec_validate(options.validate->0.capabilities, spec_parse(wgsl_source@)->Ok_0) is Some
            ==> r == Err::<String, CreateModuleError>(CreateModuleError::ValidationError { error: spec_validate(options.validate->0.capabilities, spec_parse(wgsl_source@)->Ok_0)->0 }),
        spec_parse(wgsl_source@) is Ok && !(options.validate is Some && spec_validate(options.validate->0.capabilities, spec_parse(wgsl_source@)->Ok_0) is Some)
            ==> r == spec_rest(spec_parse(wgsl_source@)->Ok_0),
{
    let module = naga::front::wgsl::parse_str(wgsl_source)
        .map_err(|error| -> (o: CreateModuleError) ensures o == (CreateModuleError::ParseError { error }) { CreateModuleError::ParseError { error } })?;

    if let Some(options) = options.validate.as_ref() {
        naga::valid::Validator::new(naga::valid::ValidationFlags::all(), options.capabilities)
            .validate(&module)
            .map_err(|error| -> (o: CreateModuleError) ensures o == (CreateModuleError::ValidationError { error }) { CreateModuleError::ValidationError { error } })?;
    }
    rest(&module)
}
} // verus!
fn main() {}
