#!/usr/bin/env python3
"""Crude pretty-printer for Verus --log vir output: prints requires/ensures of selected functions in readable form."""
import sys,re
def tokenize(s):
    return re.findall(r'\(|\)|"(?:[^"\\]|\\.)*"|[^\s()]+', s)
def parse(toks):
    stack=[[]]
    for t in toks:
        if t=='(':
            stack.append([])
        elif t==')':
            l=stack.pop(); stack[-1].append(l)
        else: stack[-1].append(t)
    return stack[0]
def kw(l,key):
    for i,x in enumerate(l):
        if x==key and i+1<len(l): return l[i+1]
    return None
def path(f):
    # (Fun :path X)
    if isinstance(f,list) and len(f)>=3 and f[0]=='Fun': return f[2] if isinstance(f[2],str) else str(f[2])
    return str(f)
def short(p):
    p=re.sub(r'vstd::std_specs::iter::IteratorSpec::','',p)
    p=re.sub(r'vstd::(\w+::)*','',p)
    p=re.sub(r'core::(\w+::)*','',p)
    p=re.sub(r'alloc::(\w+::)*','',p)
    return p
def var(v):
    if isinstance(v,list) and v and v[0]=='VarIdent': return v[1].strip('"')
    return str(v)
def e(x):
    if isinstance(x,str): return x
    if not x: return '()'
    if x[0]=='>' or x[0]=='@@': return e(x[1:])
    h=x[0]
    if h=='ReadPlace': return e(x[1])
    if h=='Place':
        k=x[1]
        if k=='Local': return var(x[2])
        if k=='Temporary': return e(x[2])
        if k=='DerefMut': return '*'+e(x[2])
        if k=='Field': return e(x[-1])+'.'+str(x[2])
        return 'Place('+' '.join(e(y) for y in x[1:])+')'
    if h=='Old': return 'old('+e(x[1])+')'
    if h=='Const':
        c=x[1]; return str(c[-1]) if isinstance(c,list) else str(c)
    if h=='Var': return var(x[1])
    if h=='Call':
        tgt=kw(x,':target'); args=kw(x,':args') or []
        name='?'
        if isinstance(tgt,list):
            if tgt[1]=='Fun':
                name=short(path(tgt[3]))
            elif tgt[1]=='BuiltinSpecFun':
                name=str(tgt[2][1])
            else: name=str(tgt[1])
        return name+'('+', '.join(e(a) for a in args)+')'
    if h=='Binary':
        op=x[1]; o=' '.join(str(t) for t in op[1:]) if isinstance(op,list) else str(op)
        o={'Eq Spec':'==','Eq Exec':'==','Ne':'!='}.get(o,o)
        return '('+e(x[2])+' '+o+' '+e(x[3])+')'
    if h=='Logical':
        op=x[1][1]
        o={'Implies':'==>','And':'&&','Or':'||'}.get(op,op)
        return '('+e(x[2])+' '+o+' '+e(x[3])+')'
    if h=='Unary':
        op=x[1]
        if isinstance(op,list) and op[1]=='Trigger': return e(x[2])
        if isinstance(op,list) and op[1]=='MutRefFuture': return 'final('+e(x[2])+')'
        if isinstance(op,list) and op[1]=='Not': return '!'+e(x[2])
        return str(op[1] if isinstance(op,list) else op)+'('+e(x[2])+')'
    if h=='UnaryOpr':
        return 'opr['+' '.join(str(t) for t in flatten(x[1])[:6])+']('+e(x[2])+')'
    if h=='Quant':
        q=x[1][0]; bs=x[2]
        return q+'|'+','.join(str(b[1]) for b in bs)+'| '+e(x[3])
    if h=='Multi':
        ops=x[1]; args=x[2]
        return 'chain('+', '.join(e(a) for a in args)+')'
    if h=='Block': return '{'+'; '.join(e(y) for y in x[1:])+'}'
    if h=='If': return 'if '+e(x[1])+' {'+e(x[2])+'} else {'+(e(x[3]) if len(x)>3 else '')+'}'
    if h=='Ctor':
        return 'Ctor '+str(x[1][-1] if isinstance(x[1],list) else x[1])+' '+str(x[2])+'{'+' '.join(e(y) for y in x[3:])+'}'
    if h in ('BorrowMut','Borrow'): return '&mut '+e(x[1])
    return '['+' '.join(e(y) for y in x)+']'
def flatten(x):
    if isinstance(x,str): return [x]
    r=[]
    for y in x: r+=flatten(y)
    return r
def main():
    s=open(sys.argv[1]).read()
    pats=sys.argv[2:]
    idx=[m.start() for m in re.finditer(r'^\(Function', s, re.M)]
    idx.append(len(s))
    for a,b in zip(idx,idx[1:]):
        blk=s[a:b]
        m=re.search(r'\(Fun :path ([^)]+)\)', blk)
        name=m.group(1)
        if not any(re.search(p,name) for p in pats): continue
        # cut trailing comment lines
        blk=re.sub(r'^;;.*$','',blk,flags=re.M)
        try:
            t=parse(tokenize(blk))[0]
        except Exception as ex:
            print("PARSE FAIL",name,ex); continue
        print("=====",name)
        ps=kw(t,':params') or []
        print("  params:",[var(kw(p,':name')) for p in ps], "ret:", var(kw(kw(t,':ret'),':name')) if kw(t,':ret') else None)
        for key in (':require',':ensure'):
            for c in (kw(t,key) or []):
                print("  ",key[1:],e(c))
main()
