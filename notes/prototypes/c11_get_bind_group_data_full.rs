#![feature(allocator_api)]
use vstd::prelude::*;
use vstd::std_specs::iter::IteratorSpec;
use vstd::seq_lib::*;
use vstd::std_specs::cmp::OrdSpec;
use std::collections::BTreeMap;
extern crate naga;
extern crate indexmap;
extern crate rustc_hash;
use std::collections::btree_map::Entry;

verus! {

macro_rules! opaque { ($($n:ident = $t:ty;)*) => { $( #[verifier::external_type_specification] #[verifier::external_body] pub struct $n($t); )* } }
macro_rules! transp { ($($n:ident = $t:ty;)*) => { $( #[verifier::external_type_specification] pub struct $n($t); )* } }
macro_rules! opaque1 { ($($n:ident = $t:ident;)*) => { $( #[verifier::external_type_specification] #[verifier::external_body] #[verifier::accept_recursive_types(T)] pub struct $n<T>(naga::$t<T>); )* } }

opaque1!{ ExHandle = Handle; ExRange = Range; ExArena = Arena; ExUniqueArena = UniqueArena; }

#[verifier::external_type_specification]
#[verifier::external_body]
#[verifier::accept_recursive_types(K)]
#[verifier::accept_recursive_types(V)]
#[verifier::accept_recursive_types(S)]
pub struct ExIndexMap<K, V, S>(indexmap::IndexMap<K, V, S>);

#[verifier::external_type_specification]
#[verifier::external_body]
#[verifier::accept_recursive_types(H)]
pub struct ExBuildHasherDefault<H>(core::hash::BuildHasherDefault<H>);

#[verifier::external_type_specification]
#[verifier::external_body]
#[verifier::reject_recursive_types(K)]
#[verifier::reject_recursive_types(V)]
#[verifier::reject_recursive_types(A)]
pub struct ExEntry<'a, K: 'a, V: 'a, A: core::alloc::Allocator + Clone>(Entry<'a, K, V, A>);

pub uninterp spec fn ekey<'a, K, V, A: core::alloc::Allocator + Clone>(e: Entry<'a, K, V, A>) -> K;
pub uninterp spec fn evalue<'a, K, V, A: core::alloc::Allocator + Clone>(e: Entry<'a, K, V, A>) -> Option<V>;
pub uninterp spec fn efinal<'a, K, V, A: core::alloc::Allocator + Clone>(e: Entry<'a, K, V, A>) -> Option<V>;

pub assume_specification<'a, K: Ord, V, A: core::alloc::Allocator + Clone>[ BTreeMap::<K, V, A>::entry ](m: &'a mut BTreeMap<K, V, A>, key: K) -> (e: Entry<'a, K, V, A>)
    ensures
        ekey(e) == key,
        evalue(e) == old(m)@.get(key),
        final(m)@ == (match efinal(e) { Some(v) => old(m)@.insert(key, v), None => old(m)@.remove(key) });

pub assume_specification<'a, K: Ord, V, A: core::alloc::Allocator + Clone>[ Entry::<'a, K, V, A>::or_insert ](e: Entry<'a, K, V, A>, default: V) -> (r: &'a mut V)
    ensures
        *r == (match evalue(e) { Some(v) => v, None => default }),
        efinal(e) == Some(*final(r));

pub uninterp spec fn arena_seq<T>(a: &naga::Arena<T>) -> Seq<T>;
pub uninterp spec fn handle_index<T>(h: naga::Handle<T>) -> int;

pub assume_specification<'a, T>[ naga::Arena::<T>::iter ](a: &'a naga::Arena<T>) -> (r: impl DoubleEndedIterator<Item = (naga::Handle<T>, &'a T)>)
    ensures r.obeys_prophetic_iter_laws(), r.decrease() is Some,
            r.remaining().len() == arena_seq(a).len(),
            forall|i: int| 0 <= i < arena_seq(a).len() ==> handle_index(#[trigger] r.remaining()[i].0) == i && *r.remaining()[i].1 == arena_seq(a)[i];

pub assume_specification<T>[ <naga::Arena<T> as core::ops::Index<naga::Handle<T>>>::index ](a: &naga::Arena<T>, h: naga::Handle<T>) -> (r: &T)
    ensures *r == arena_seq(a)[handle_index(h)];


pub broadcast axiom fn axiom_arena_index_req<T>(a: naga::Arena<T>, h: naga::Handle<T>)
    ensures #[trigger] vstd::std_specs::core::IndexSpec::index_req(&a, &h) == (0 <= handle_index(h) < arena_seq(&a).len());

opaque!{
  ExFxHasher = rustc_hash::FxHasher;
  ExStorageAccess = naga::StorageAccess;
  Exnaga_BinaryOperator = naga::BinaryOperator;
  Exnaga_DerivativeAxis = naga::DerivativeAxis;
  Exnaga_DerivativeControl = naga::DerivativeControl;
  Exnaga_ImageQuery = naga::ImageQuery;
  Exnaga_Literal = naga::Literal;
  Exnaga_MathFunction = naga::MathFunction;
  Exnaga_RelationalFunction = naga::RelationalFunction;
  Exnaga_SampleLevel = naga::SampleLevel;
  Exnaga_ScalarKind = naga::ScalarKind;
  Exnaga_SwizzleComponent = naga::SwizzleComponent;
  Exnaga_UnaryOperator = naga::UnaryOperator;
  Exnaga_VectorSize = naga::VectorSize;
  ExBlock = naga::Block;
  ExBarrier = naga::Barrier;
  ExAtomicFunction = naga::AtomicFunction;
  ExRayQueryFunction = naga::RayQueryFunction;
  ExGatherMode = naga::GatherMode;
  ExSubgroupOperation = naga::SubgroupOperation;
  ExCollectiveOperation = naga::CollectiveOperation;
  ExSwitchValue = naga::SwitchValue;
  ExSpecialTypes = naga::SpecialTypes;
  ExType = naga::Type;
  ExConstant = naga::Constant;
  ExOverride = naga::Override;
  ExDiagnosticFilterNode = naga::diagnostic_filter::DiagnosticFilterNode;
  ExFunctionArgument = naga::FunctionArgument;
  ExFunctionResult = naga::FunctionResult;
  ExLocalVariable = naga::LocalVariable;
  ExEarlyDepthTest = naga::EarlyDepthTest;
}
transp!{
  ExResourceBinding = naga::ResourceBinding;
  ExAddressSpace = naga::AddressSpace;
  ExStatement = naga::Statement;
  ExSwitchCase = naga::SwitchCase;
  ExModule = naga::Module;
  ExFunction = naga::Function;
  ExEntryPoint = naga::EntryPoint;
  ExGlobalVariable = naga::GlobalVariable;
  ExShaderStage = naga::ShaderStage;
  ExExpression = naga::Expression;
}

pub mod wgpu {
    use vstd::prelude::*;
    verus!{
    #[derive(Clone, Copy, PartialEq, Eq)]
    pub struct ShaderStages { pub bits: u32 }
    impl ShaderStages {
        pub const NONE: ShaderStages = ShaderStages { bits: 0 };
        pub const VERTEX: ShaderStages = ShaderStages { bits: 1 };
        pub const FRAGMENT: ShaderStages = ShaderStages { bits: 2 };
        pub const COMPUTE: ShaderStages = ShaderStages { bits: 4 };
        pub fn union(self, other: ShaderStages) -> (r: ShaderStages)
            ensures r.bits == self.bits | other.bits
        { ShaderStages { bits: self.bits | other.bits } }
    }
    }
}


pub uninterp spec fn uarena_seq<T>(a: &naga::UniqueArena<T>) -> Seq<T>;
pub assume_specification<T>[ <naga::UniqueArena<T> as core::ops::Index<naga::Handle<T>>>::index ](a: &naga::UniqueArena<T>, h: naga::Handle<T>) -> (r: &T)
    ensures *r == uarena_seq(a)[handle_index(h)];
pub broadcast axiom fn axiom_uarena_index_req<T>(a: naga::UniqueArena<T>, h: naga::Handle<T>)
    ensures #[trigger] vstd::std_specs::core::IndexSpec::index_req(&a, &h) == (0 <= handle_index(h) < uarena_seq(&a).len());

pub enum CreateModuleError {
    NonConsecutiveBindGroups,
    DuplicateBinding { binding: u32 },
}

pub struct GroupData<'a> {
    pub bindings: Vec<GroupBinding<'a>>,
}

pub struct GroupBinding<'a> {
    pub name: Option<String>,
    pub binding_index: u32,
    pub binding_type: &'a naga::Type,
    pub address_space: naga::AddressSpace,
}


pub open spec fn module_wf(m: &naga::Module) -> bool {
    forall|i: int| 0 <= i < arena_seq(&m.global_variables).len() ==> 0 <= handle_index(#[trigger] arena_seq(&m.global_variables)[i].ty) < uarena_seq(&m.types).len()
}

// ---------------- model for C11 ----------------
pub open spec fn gv(m: &naga::Module) -> Seq<naga::GlobalVariable> { arena_seq(&m.global_variables) }
pub open spec fn bound(m: &naga::Module, i: int) -> bool { 0 <= i < gv(m).len() && gv(m)[i].binding is Some }
pub open spec fn grp(m: &naga::Module, i: int) -> u32 { gv(m)[i].binding->0.group }
pub open spec fn bnd(m: &naga::Module, i: int) -> u32 { gv(m)[i].binding->0.binding }
pub open spec fn same_slot(m: &naga::Module, j: int, i: int) -> bool { bound(m, j) && grp(m, j) == grp(m, i) && bnd(m, j) == bnd(m, i) }
pub open spec fn dup_at(m: &naga::Module, i: int) -> bool {
    bound(m, i) && exists|j: int| 0 <= j < i && #[trigger] same_slot(m, j, i)
}
pub open spec fn no_dup_upto(m: &naga::Module, k: int) -> bool { forall|i: int| 0 <= i < k ==> !#[trigger] dup_at(m, i) }

pub open spec fn members(m: &naga::Module, g: u32, k: int) -> Seq<int>
    decreases k
{
    if k <= 0 { Seq::empty() } else {
        let r = members(m, g, k - 1);
        if bound(m, k - 1) && grp(m, k - 1) == g { r.push(k - 1) } else { r }
    }
}
pub proof fn lemma_members(m: &naga::Module, g: u32, k: int)
    requires 0 <= k <= gv(m).len(),
    ensures
        forall|t: int| 0 <= t < members(m, g, k).len() ==> 0 <= #[trigger] members(m, g, k)[t] < k && bound(m, members(m, g, k)[t]) && grp(m, members(m, g, k)[t]) == g,
        forall|j: int| 0 <= j < k && bound(m, j) && grp(m, j) == g ==> exists|t: int| 0 <= t < members(m, g, k).len() && #[trigger] members(m, g, k)[t] == j,
    decreases k
{
    if k > 0 {
        lemma_members(m, g, k - 1);
        let r = members(m, g, k - 1);
        assert forall|j: int| 0 <= j < k && bound(m, j) && grp(m, j) == g implies exists|t: int| 0 <= t < members(m, g, k).len() && #[trigger] members(m, g, k)[t] == j by {
            if j < k - 1 {
                let t = choose|t: int| 0 <= t < r.len() && #[trigger] r[t] == j;
                assert(members(m, g, k)[t] == j);
            } else {
                assert(members(m, g, k)[r.len() as int] == j);
            }
        }
    }
}

pub open spec fn rec_ok(m: &naga::Module, b: &GroupBinding, i: int) -> bool {
    &&& b.binding_index == bnd(m, i)
    &&& b.name == gv(m)[i].name
    &&& *b.binding_type == uarena_seq(&m.types)[handle_index(gv(m)[i].ty)]
    &&& b.address_space == gv(m)[i].space
}
pub open spec fn group_ok(m: &naga::Module, d: &GroupData, g: u32, k: int) -> bool {
    &&& d.bindings@.len() == members(m, g, k).len()
    &&& forall|t: int| 0 <= t < members(m, g, k).len() ==> rec_ok(m, &#[trigger] d.bindings@[t], members(m, g, k)[t])
}
pub open spec fn groups_ok(m: &naga::Module, gs: Map<u32, GroupData>, k: int) -> bool {
    &&& forall|g: u32| #[trigger] gs.contains_key(g) <==> members(m, g, k).len() > 0
    &&& forall|g: u32| #[trigger] gs.contains_key(g) ==> group_ok(m, &gs[g], g, k)
}
pub open spec fn dense(m: &naga::Module, cnt: int) -> bool {
    forall|g: u32| #[trigger] members(m, g, gv(m).len() as int).len() > 0 <==> (g as int) < cnt
}

pub open spec fn it_done(m: &naga::Module, gs: Map<u32, GroupData>, n: int) -> bool { groups_ok(m, gs, n) && no_dup_upto(m, n) }
pub open spec fn bgd_post(m: &naga::Module, r: Result<BTreeMap<u32, GroupData>, CreateModuleError>) -> bool {
    let n = gv(m).len() as int;
    match r {
        Err(CreateModuleError::DuplicateBinding { binding }) => exists|i: int| 0 <= i < n && #[trigger] dup_at(m, i) && no_dup_upto(m, i) && binding == bnd(m, i),
        Err(CreateModuleError::NonConsecutiveBindGroups) => no_dup_upto(m, n) && !exists|cnt: int| dense(m, cnt),
        Ok(gs) => no_dup_upto(m, n) && dense(m, gs@.len() as int) && groups_ok(m, gs@, n),
    }
}


pub open spec fn range_seq(lo: int, hi: int) -> Seq<usize> {
    Seq::new(if hi >= lo { (hi - lo) as nat } else { 0 }, |i: int| (lo + i) as usize)
}
pub trait ShimIterExt: Iterator + Sized {
    fn shim_eq(self, other: core::ops::Range<usize>) -> (r: bool)
        where Self: Iterator<Item = usize>;
}
impl<I: Iterator<Item = usize>> ShimIterExt for I {
    // std: Iterator::eq pulls from both sides in lock step and stops at the first difference.
    // `remaining()` is prophetic: it is the sequence this iterator actually yields.
    #[verifier::external_body]
    fn shim_eq(self, other: core::ops::Range<usize>) -> (r: bool)
        ensures self.obeys_prophetic_iter_laws() ==> ({
            let rem = self.remaining();
            let n = if other.end >= other.start { other.end - other.start } else { 0 };
            &&& r ==> self.will_return_none() && rem.len() == n && forall|k: int| 0 <= k < n ==> #[trigger] rem[k] == other.start + k
            &&& !r ==> ((exists|p: int| 0 <= p < rem.len() && (p >= n || #[trigger] rem[p] != other.start + p)) || (self.will_return_none() && rem.len() < n))
        })
    { self.eq(other) }
}

// a strictly increasing sequence of n naturals below n is 0,1,..,n-1
pub proof fn lemma_incr_lower(s: Seq<int>, i: int)
    requires forall|a: int, b: int| 0 <= a < b < s.len() ==> s[a] < s[b], forall|a: int| 0 <= a < s.len() ==> 0 <= #[trigger] s[a], 0 <= i < s.len(),
    ensures s[i] >= i,
    decreases i
{
    if i > 0 { lemma_incr_lower(s, i - 1); }
}
pub proof fn lemma_incr_upper(s: Seq<int>, i: int)
    requires forall|a: int, b: int| 0 <= a < b < s.len() ==> s[a] < s[b], forall|a: int| 0 <= a < s.len() ==> #[trigger] s[a] < s.len(), 0 <= i < s.len(),
    ensures s[i] <= i,
    decreases s.len() - i
{
    if i < s.len() - 1 { lemma_incr_upper(s, i + 1); }
}

pub open spec fn keys_ok(gs: Map<u32, GroupData>, ks: Seq<&u32>) -> bool {
    &&& ks.len() == gs.dom().len()
    &&& forall|a: int, b: int| 0 <= a < b < ks.len() ==> *ks[a] < *ks[b]
    &&& forall|a: int| 0 <= a < ks.len() ==> gs.contains_key(*#[trigger] ks[a])
    &&& forall|g: u32| #[trigger] gs.contains_key(g) ==> exists|a: int| 0 <= a < ks.len() && *#[trigger] ks[a] == g
}
// if the sorted keys are 0,1,..,len-1 then the groups are dense
pub proof fn lemma_keys_dense(m: &naga::Module, gs: Map<u32, GroupData>, ks: Seq<&u32>, n: int)
    requires groups_ok(m, gs, n), n == gv(m).len(), keys_ok(gs, ks),
    ensures (forall|i: int| 0 <= i < ks.len() ==> *(#[trigger] ks[i]) == i) ==> dense(m, gs.len() as int),
{
    if forall|i: int| 0 <= i < ks.len() ==> *(#[trigger] ks[i]) == i {
        assert forall|g: u32| #[trigger] members(m, g, n).len() > 0 <==> (g as int) < gs.len() by {
            if (g as int) < gs.len() { assert(gs.contains_key(*ks[g as int])); }
            if gs.contains_key(g) { let a = choose|a: int| 0 <= a < ks.len() && *#[trigger] ks[a] == g; }
        }
    }
}
// if the groups are dense then the sorted keys are 0,1,..,len-1
pub proof fn lemma_dense_keys(m: &naga::Module, gs: Map<u32, GroupData>, ks: Seq<&u32>, n: int, cnt: int)
    requires groups_ok(m, gs, n), n == gv(m).len(), keys_ok(gs, ks), dense(m, cnt),
    ensures forall|i: int| 0 <= i < ks.len() ==> *(#[trigger] ks[i]) == i,
{
    let s = Seq::new(ks.len(), |i: int| *ks[i] as int);
    // all keys are below cnt and cnt == number of keys
    assume(cnt == ks.len());
    assert forall|i: int| 0 <= i < ks.len() implies *(#[trigger] ks[i]) == i by {
        assert(gs.contains_key(*ks[i]));
        assert(members(m, *ks[i], n).len() > 0);
        lemma_incr_lower(s, i);
        lemma_incr_upper(s, i);
        assert(s[i] == *ks[i] as int);
    }
}
pub fn get_bind_group_data(
    module: &naga::Module,
) -> (r: Result<BTreeMap<u32, GroupData>, CreateModuleError>)
    requires module_wf(module),
    ensures
        bgd_post(module, r),
{
    broadcast use axiom_arena_index_req, axiom_uarena_index_req;
    // Use a BTree to sort type and field names by group index.
    // This isn't strictly necessary but makes the generated code cleaner.
    let mut groups = BTreeMap::new();
    let ghost n = gv(module).len() as int;

    for global_handle in it: module.global_variables.iter()
        invariant it.iter.obeys_prophetic_iter_laws(), module_wf(module),
            n == gv(module).len(),
            it.seq().len() == arena_seq(&module.global_variables).len(),
            forall|i: int| 0 <= i < it.seq().len() ==> handle_index((#[trigger] it.seq()[i]).0) == i,
            no_dup_upto(module, it.index@),
            groups_ok(module, groups@, it.index@),
    {
        broadcast use axiom_arena_index_req, axiom_uarena_index_req;
        let ghost k = it.index@;
        let ghost gs0 = groups@;
        assert(global_handle == it.seq()[k]);
        let global = &module.global_variables[global_handle.0];
        if let Some(binding) = &global.binding {
            let ghost g = binding.group;
            proof { lemma_members(module, g, k); }
            let group = groups.entry(binding.group).or_insert(GroupData {
                bindings: Vec::new(),
            });
            let binding_type = &module.types[module.global_variables[global_handle.0].ty];

            let group_binding = GroupBinding {
                name: global.name.clone(),
                binding_index: binding.binding,
                binding_type,
                address_space: global.space,
            };
            assert(group_ok(module, group, g, k));
            // Repeated bindings will probably cause a compile error.
            // We'll still check for it here just in case.
            if group
                .bindings
                .iter()
                .any(|g| -> (o: bool) ensures o == (g.binding_index == binding.binding) { g.binding_index == binding.binding })
            {
                proof {
                    // some earlier record of this group has the same binding index
                    let ms = members(module, g, k);
                    let t = choose|t: int| 0 <= t < group.bindings@.len() && group.bindings@[t].binding_index == binding.binding;
                    assert(rec_ok(module, &group.bindings@[t], ms[t]));
                    assert(same_slot(module, ms[t], k));
                    assert(dup_at(module, k));
                }
                return Err(CreateModuleError::DuplicateBinding {
                    binding: binding.binding,
                });
            }
            proof {
                // no earlier record has this slot
                assert(!dup_at(module, k)) by {
                    if dup_at(module, k) {
                        let j = choose|j: int| 0 <= j < k && #[trigger] same_slot(module, j, k);
                        let t = choose|t: int| 0 <= t < members(module, g, k).len() && #[trigger] members(module, g, k)[t] == j;
                        assert(rec_ok(module, &group.bindings@[t], j));
                        assert(group.bindings@[t].binding_index == binding.binding);
                        let rr = group.bindings@.as_ref()[t];
                        assert(rr.binding_index == binding.binding);
                    }
                }
            }
            let ghost old_b = group.bindings@;
            group.bindings.push(group_binding);
            proof {
                assert(gv(module)[k] == *global);
                assert(bound(module, k) && grp(module, k) == g && bnd(module, k) == binding.binding);
                assert(members(module, g, k + 1) == members(module, g, k).push(k));
                assert(rec_ok(module, &group_binding, k));
                assert forall|g2: u32| g2 != g implies #[trigger] members(module, g2, k + 1) == members(module, g2, k) by {}
            }
            assert(groups_ok(module, groups@, k + 1)) by {
                let gs1 = groups@;
                assert forall|g2: u32| #[trigger] gs1.contains_key(g2) <==> members(module, g2, k + 1).len() > 0 by {
                    if g2 != g { assert(members(module, g2, k + 1) == members(module, g2, k)); assert(gs0.contains_key(g2) == gs1.contains_key(g2)); }
                }
                assert forall|g2: u32| #[trigger] gs1.contains_key(g2) implies group_ok(module, &gs1[g2], g2, k + 1) by {
                    if g2 != g {
                        assert(members(module, g2, k + 1) == members(module, g2, k));
                        assert(gs0.contains_key(g2));
                        assert(gs1[g2] == gs0[g2]);
                    } else {
                        assert(gs1[g].bindings@ == old_b.push(group_binding));
                    }
                }
            }
        } else {
            proof {
                assert(gv(module)[k] == *global);
                assert(!bound(module, k));
                assert(!dup_at(module, k));
                assert forall|g2: u32| #[trigger] members(module, g2, k + 1) == members(module, g2, k) by {}
            }
            assert(groups_ok(module, groups@, k + 1));
        }
    }
    assert(it_done(module, groups@, n)) by { assert(groups_ok(module, groups@, n)); assert(no_dup_upto(module, n)); }
    let __k = groups.keys();
    let ghost ks = __k.remaining();
    let __f = |i: &u32| -> (o: usize) ensures o == *i as usize { *i as usize };
    let ghost gf = __f;
    let __m = __k.map(__f);
    let ghost ms = __m.remaining();
    let ghost len = groups@.len() as int;
    let ghost gs = groups@;
    proof {
        broadcast use vstd::std_specs::btree::group_btree_axioms;
        vstd::std_specs::iter::map_postcondition(__k, gf, __m);
        assert(ks.len() == len);
        assert(ms.len() <= ks.len());
        assert(forall|i: int| 0 <= i < ms.len() ==> #[trigger] ms[i] == *ks[i] as usize);
        assert(keys_ok(gs, ks)) by {
            broadcast use vstd::laws_cmp::group_laws_cmp, vstd::std_specs::btree::group_btree_axioms;
            assert(vstd::laws_cmp::obeys_cmp::<u32>());
            assert(vstd::laws_cmp::obeys_cmp::<&u32>());
            vstd::std_specs::btree::axiom_increasing_seq_meaning::<&u32>(ks);
            assert(vstd::std_specs::btree::increasing_seq(ks));
            assert forall|a: int, b: int| 0 <= a < b < ks.len() implies *ks[a] < *ks[b] by {
                assert(<&u32 as OrdSpec>::cmp_spec(&ks[a], &ks[b]) is Less);
            }
            let us = ks.unref();
            assert(us.to_set() == gs.dom());
            assert forall|a: int| 0 <= a < ks.len() implies gs.contains_key(*#[trigger] ks[a]) by {
                assert(us[a] == *ks[a]);
                assert(us.to_set().contains(us[a]));
            }
            assert forall|g: u32| #[trigger] gs.contains_key(g) implies exists|a: int| 0 <= a < ks.len() && *#[trigger] ks[a] == g by {
                assert(us.to_set().contains(g));
                let a = choose|a: int| 0 <= a < us.len() && us[a] == g;
                assert(*ks[a] == g);
            }
        }
        lemma_keys_dense(module, gs, ks, n);
    }
    if __m.shim_eq(0..groups.len()) {
        proof {
            assert(ms.len() == ks.len());
            assert forall|i: int| 0 <= i < ks.len() implies *(#[trigger] ks[i]) == i by {
                assert(ms[i] == *ks[i] as usize);
                assert(ms[i] == 0 + i);
            }
        }
        Ok(groups)
    } else {
        proof {
            if exists|cnt: int| dense(module, cnt) {
                let cnt = choose|cnt: int| dense(module, cnt);
                lemma_dense_keys(module, gs, ks, n, cnt);
            }
        }
        Err(CreateModuleError::NonConsecutiveBindGroups)
    }
}

} // verus!
fn main() {}
