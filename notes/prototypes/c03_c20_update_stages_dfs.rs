#![feature(allocator_api)]
use vstd::prelude::*;
use vstd::std_specs::iter::IteratorSpec;
use std::collections::{BTreeMap, HashSet};
extern crate naga;
extern crate indexmap;
extern crate rustc_hash;
use std::collections::btree_map::Entry;

verus! {

macro_rules! opaque { ($($n:ident = $t:ty;)*) => { $( #[verifier::external_type_specification] #[verifier::external_body] pub struct $n($t); )* } }
macro_rules! transp { ($($n:ident = $t:ty;)*) => { $( #[verifier::external_type_specification] pub struct $n($t); )* } }
macro_rules! opaque1 { ($($n:ident = $t:ident;)*) => { $( #[verifier::external_type_specification] #[verifier::external_body] #[verifier::accept_recursive_types(T)] pub struct $n<T>(naga::$t<T>); )* } }

opaque1!{ ExHandle = Handle; ExRange = Range; ExArena = Arena; ExUniqueArena = UniqueArena; }

#[verifier::external_type_specification]
#[verifier::external_body]
#[verifier::accept_recursive_types(K)]
#[verifier::accept_recursive_types(V)]
#[verifier::accept_recursive_types(S)]
pub struct ExIndexMap<K, V, S>(indexmap::IndexMap<K, V, S>);

#[verifier::external_type_specification]
#[verifier::external_body]
#[verifier::accept_recursive_types(H)]
pub struct ExBuildHasherDefault<H>(core::hash::BuildHasherDefault<H>);

#[verifier::external_type_specification]
#[verifier::external_body]
#[verifier::reject_recursive_types(K)]
#[verifier::reject_recursive_types(V)]
#[verifier::reject_recursive_types(A)]
pub struct ExEntry<'a, K: 'a, V: 'a, A: core::alloc::Allocator + Clone>(Entry<'a, K, V, A>);

pub uninterp spec fn ekey<'a, K, V, A: core::alloc::Allocator + Clone>(e: Entry<'a, K, V, A>) -> K;
pub uninterp spec fn evalue<'a, K, V, A: core::alloc::Allocator + Clone>(e: Entry<'a, K, V, A>) -> Option<V>;
pub uninterp spec fn efinal<'a, K, V, A: core::alloc::Allocator + Clone>(e: Entry<'a, K, V, A>) -> Option<V>;

pub assume_specification<'a, K: Ord, V, A: core::alloc::Allocator + Clone>[ BTreeMap::<K, V, A>::entry ](m: &'a mut BTreeMap<K, V, A>, key: K) -> (e: Entry<'a, K, V, A>)
    ensures
        ekey(e) == key,
        evalue(e) == old(m)@.get(key),
        final(m)@ == (match efinal(e) { Some(v) => old(m)@.insert(key, v), None => old(m)@.remove(key) });

pub assume_specification<'a, K: Ord, V, A: core::alloc::Allocator + Clone>[ Entry::<'a, K, V, A>::or_insert ](e: Entry<'a, K, V, A>, default: V) -> (r: &'a mut V)
    ensures
        *r == (match evalue(e) { Some(v) => v, None => default }),
        efinal(e) == Some(*final(r));

pub uninterp spec fn arena_seq<T>(a: &naga::Arena<T>) -> Seq<T>;
pub uninterp spec fn handle_index<T>(h: naga::Handle<T>) -> int;

pub assume_specification<'a, T>[ naga::Arena::<T>::iter ](a: &'a naga::Arena<T>) -> (r: impl DoubleEndedIterator<Item = (naga::Handle<T>, &'a T)>)
    ensures r.obeys_prophetic_iter_laws(), r.decrease() is Some,
            r.remaining().len() == arena_seq(a).len(),
            forall|i: int| 0 <= i < arena_seq(a).len() ==> handle_index((#[trigger] r.remaining()[i]).0) == i && *r.remaining()[i].1 == arena_seq(a)[i];

pub assume_specification<T>[ <naga::Arena<T> as core::ops::Index<naga::Handle<T>>>::index ](a: &naga::Arena<T>, h: naga::Handle<T>) -> (r: &T)
    ensures *r == arena_seq(a)[handle_index(h)];


pub broadcast axiom fn axiom_arena_index_req<T>(a: naga::Arena<T>, h: naga::Handle<T>)
    ensures #[trigger] vstd::std_specs::core::IndexSpec::index_req(&a, &h) == (0 <= handle_index(h) < arena_seq(&a).len());

opaque!{
  ExFxHasher = rustc_hash::FxHasher;
  ExStorageAccess = naga::StorageAccess;
  Exnaga_BinaryOperator = naga::BinaryOperator;
  Exnaga_DerivativeAxis = naga::DerivativeAxis;
  Exnaga_DerivativeControl = naga::DerivativeControl;
  Exnaga_ImageQuery = naga::ImageQuery;
  Exnaga_Literal = naga::Literal;
  Exnaga_MathFunction = naga::MathFunction;
  Exnaga_RelationalFunction = naga::RelationalFunction;
  Exnaga_SampleLevel = naga::SampleLevel;
  Exnaga_ScalarKind = naga::ScalarKind;
  Exnaga_SwizzleComponent = naga::SwizzleComponent;
  Exnaga_UnaryOperator = naga::UnaryOperator;
  Exnaga_VectorSize = naga::VectorSize;
  ExBlock = naga::Block;
  ExBarrier = naga::Barrier;
  ExAtomicFunction = naga::AtomicFunction;
  ExRayQueryFunction = naga::RayQueryFunction;
  ExGatherMode = naga::GatherMode;
  ExSubgroupOperation = naga::SubgroupOperation;
  ExCollectiveOperation = naga::CollectiveOperation;
  ExSwitchValue = naga::SwitchValue;
  ExSpecialTypes = naga::SpecialTypes;
  ExType = naga::Type;
  ExConstant = naga::Constant;
  ExOverride = naga::Override;
  ExDiagnosticFilterNode = naga::diagnostic_filter::DiagnosticFilterNode;
  ExFunctionArgument = naga::FunctionArgument;
  ExFunctionResult = naga::FunctionResult;
  ExLocalVariable = naga::LocalVariable;
  ExEarlyDepthTest = naga::EarlyDepthTest;
}
transp!{
  ExResourceBinding = naga::ResourceBinding;
  ExAddressSpace = naga::AddressSpace;
  ExStatement = naga::Statement;
  ExSwitchCase = naga::SwitchCase;
  ExModule = naga::Module;
  ExFunction = naga::Function;
  ExEntryPoint = naga::EntryPoint;
  ExGlobalVariable = naga::GlobalVariable;
  ExShaderStage = naga::ShaderStage;
  ExExpression = naga::Expression;
}

pub mod wgpu {
    use vstd::prelude::*;
    verus!{
    #[derive(Clone, Copy, PartialEq, Eq)]
    pub struct ShaderStages { pub bits: u32 }
    impl ShaderStages {
        pub const NONE: ShaderStages = ShaderStages { bits: 0 };
        pub const VERTEX: ShaderStages = ShaderStages { bits: 1 };
        pub const FRAGMENT: ShaderStages = ShaderStages { bits: 2 };
        pub const COMPUTE: ShaderStages = ShaderStages { bits: 4 };
        pub fn union(self, other: ShaderStages) -> (r: ShaderStages)
            ensures r.bits == self.bits | other.bits
        { ShaderStages { bits: self.bits | other.bits } }
    }
    }
}




// ---------------- handles ----------------
pub broadcast axiom fn axiom_handle_key_model<T>()
    ensures #[trigger] vstd::std_specs::hash::obeys_key_model::<naga::Handle<T>>();
pub uninterp spec fn mk_handle<T>(i: int) -> naga::Handle<T>;
pub broadcast axiom fn axiom_mk_handle<T>(h: naga::Handle<T>)
    ensures #[trigger] mk_handle::<T>(handle_index(h)) == h;

// ---------------- blocks ----------------
pub uninterp spec fn block_stmts(b: &naga::Block) -> Seq<naga::Statement>;
pub uninterp spec fn block_height(b: &naga::Block) -> nat;
pub assume_specification[ <naga::Block as core::ops::Deref>::deref ](b: &naga::Block) -> (r: &[naga::Statement])
    ensures r@ == block_stmts(b);

pub open spec fn sub_blocks(s: &naga::Statement) -> Seq<naga::Block> {
    match s {
        naga::Statement::Block(b) => seq![*b],
        naga::Statement::If { accept, reject, .. } => seq![*accept, *reject],
        naga::Statement::Switch { cases, .. } => cases@.map_values(|c: naga::SwitchCase| c.body),
        naga::Statement::Loop { body, continuing, .. } => seq![*body, *continuing],
        _ => Seq::empty(),
    }
}
pub broadcast axiom fn axiom_block_height(b: &naga::Block, i: int, k: int)
    requires 0 <= i < block_stmts(b).len(), 0 <= k < sub_blocks(&block_stmts(b)[i]).len(),
    ensures #[trigger] block_height(&sub_blocks(&block_stmts(b)[i])[k]) < block_height(b);

pub open spec fn stmt_call(s: &naga::Statement, c: int) -> bool {
    match s { naga::Statement::Call { function, .. } => handle_index(*function) == c, _ => false }
}
pub open spec fn stmt_at(b: &naga::Block, i: int) -> naga::Statement { block_stmts(b)[i] }
pub open spec fn nsub(b: &naga::Block, i: int) -> int { sub_blocks(&block_stmts(b)[i]).len() as int }
pub open spec fn subblk(b: &naga::Block, i: int, k: int) -> naga::Block { sub_blocks(&block_stmts(b)[i])[k] }

pub open spec fn block_calls(b: &naga::Block, c: int) -> bool
    decreases block_height(b)
{
    ||| exists|i: int| 0 <= i < block_stmts(b).len() && stmt_call(&#[trigger] stmt_at(b, i), c)
    ||| exists|i: int, k: int| 0 <= i < block_stmts(b).len() && 0 <= k < nsub(b, i)
            && block_height(&#[trigger] subblk(b, i, k)) < block_height(b) && block_calls(&subblk(b, i, k), c)
}
pub open spec fn calls_sub(b: &naga::Block, i: int, k: int, c: int) -> bool {
    0 <= i < block_stmts(b).len() && 0 <= k < nsub(b, i) && block_calls(&subblk(b, i, k), c)
}
pub open spec fn calls_at(b: &naga::Block, i: int, c: int) -> bool {
    0 <= i < block_stmts(b).len() && (stmt_call(&stmt_at(b, i), c) || exists|k: int| #[trigger] calls_sub(b, i, k, c))
}
pub proof fn lemma_block_calls(b: &naga::Block, c: int)
    ensures block_calls(b, c) <==> exists|i: int| #[trigger] calls_at(b, i, c),
{
    if block_calls(b, c) {
        if exists|i: int| 0 <= i < block_stmts(b).len() && stmt_call(&#[trigger] stmt_at(b, i), c) {
            let i = choose|i: int| 0 <= i < block_stmts(b).len() && stmt_call(&#[trigger] stmt_at(b, i), c);
            assert(calls_at(b, i, c));
        } else {
            let (i, k) = choose|i: int, k: int| 0 <= i < block_stmts(b).len() && 0 <= k < nsub(b, i)
                && block_height(&#[trigger] subblk(b, i, k)) < block_height(b) && block_calls(&subblk(b, i, k), c);
            assert(calls_sub(b, i, k, c));
            assert(calls_at(b, i, c));
        }
    }
    if exists|i: int| #[trigger] calls_at(b, i, c) {
        let i = choose|i: int| #[trigger] calls_at(b, i, c);
        if stmt_call(&stmt_at(b, i), c) {
        } else {
            let k = choose|k: int| #[trigger] calls_sub(b, i, k, c);
            axiom_block_height(b, i, k);
            assert(block_height(&subblk(b, i, k)) < block_height(b));
        }
    }
}

// ---------------- functions ----------------
pub open spec fn nfun(m: &naga::Module) -> int { arena_seq(&m.functions).len() as int }
pub open spec fn fun(m: &naga::Module, i: int) -> naga::Function { arena_seq(&m.functions)[i] }
pub open spec fn nglob(m: &naga::Module) -> int { arena_seq(&m.global_variables).len() as int }
pub open spec fn gname(m: &naga::Module, g: int) -> Option<String> { arena_seq(&m.global_variables)[g].name }
pub open spec fn exprs(f: &naga::Function) -> Seq<naga::Expression> { arena_seq(&f.expressions) }

pub open spec fn expr_call(e: &naga::Expression, c: int) -> bool {
    match e { naga::Expression::CallResult(f) => handle_index(*f) == c, _ => false }
}
pub open spec fn expr_global(e: &naga::Expression, g: int) -> bool {
    match e { naga::Expression::GlobalVariable(h) => handle_index(*h) == g, _ => false }
}
pub open spec fn fn_calls(f: &naga::Function, c: int) -> bool {
    block_calls(&f.body, c) || exists|i: int| 0 <= i < exprs(f).len() && #[trigger] expr_call(&exprs(f)[i], c)
}
pub open spec fn fn_uses(f: &naga::Function, g: int) -> bool {
    exists|i: int| 0 <= i < exprs(f).len() && #[trigger] expr_global(&exprs(f)[i], g)
}
pub open spec fn reach_idx(m: &naga::Module, i: int, g: int) -> bool
    decreases i
{
    0 <= i < nfun(m) && (fn_uses(&fun(m, i), g)
        || exists|c: int| 0 <= c < i && #[trigger] fn_calls(&fun(m, i), c) && reach_idx(m, c, g))
}
pub open spec fn reach_top(m: &naga::Module, f: &naga::Function, g: int) -> bool {
    fn_uses(f, g) || exists|c: int| 0 <= c < nfun(m) && #[trigger] fn_calls(f, c) && reach_idx(m, c, g)
}
pub open spec fn desc_idx(m: &naga::Module, i: int, d: int) -> bool
    decreases i
{
    0 <= i < nfun(m) && exists|c: int| 0 <= c < i && #[trigger] fn_calls(&fun(m, i), c) && (c == d || desc_idx(m, c, d))
}

pub open spec fn fn_ok(m: &naga::Module, f: &naga::Function, bound: int) -> bool {
    &&& forall|c: int| #[trigger] fn_calls(f, c) ==> 0 <= c < bound
    &&& forall|g: int| #[trigger] fn_uses(f, g) ==> 0 <= g < nglob(m)
}
pub open spec fn wf(m: &naga::Module) -> bool {
    &&& forall|i: int| 0 <= i < nfun(m) ==> #[trigger] fn_ok(m, &fun(m, i), i)
}

// ---------------- stage map ----------------
pub open spec fn sub(a: u32, b: u32) -> bool { a & b == a }
pub open spec fn has(gs: Map<String, wgpu::ShaderStages>, name: String, stage: wgpu::ShaderStages) -> bool {
    gs.contains_key(name) && sub(stage.bits, gs[name].bits)
}
pub open spec fn mono(a: Map<String, wgpu::ShaderStages>, b: Map<String, wgpu::ShaderStages>) -> bool {
    forall|n: String| #[trigger] a.contains_key(n) ==> b.contains_key(n) && sub(a[n].bits, b[n].bits)
}
pub open spec fn done(m: &naga::Module, gs: Map<String, wgpu::ShaderStages>, stage: wgpu::ShaderStages, i: int) -> bool {
    forall|g: int| #[trigger] reach_idx(m, i, g) && gname(m, g) is Some ==> has(gs, gname(m, g)->0, stage)
}
pub open spec fn vis(v: Set<naga::Handle<naga::Function>>, d: int) -> bool { v.contains(mk_handle(d)) }
pub open spec fn vmono(a: Set<naga::Handle<naga::Function>>, b: Set<naga::Handle<naga::Function>>) -> bool {
    forall|d: int| #[trigger] vis(a, d) ==> vis(b, d)
}
pub open spec fn new_done(m: &naga::Module, a: Set<naga::Handle<naga::Function>>, b: Set<naga::Handle<naga::Function>>, gs: Map<String, wgpu::ShaderStages>, stage: wgpu::ShaderStages) -> bool {
    forall|d: int| #[trigger] vis(b, d) && !vis(a, d) ==> done(m, gs, stage, d)
}
// every visited descendant (through a callee c satisfying P) is done
pub open spec fn callee_inv(m: &naga::Module, c: int, v: Set<naga::Handle<naga::Function>>, gs: Map<String, wgpu::ShaderStages>, stage: wgpu::ShaderStages) -> bool {
    &&& vis(v, c) ==> done(m, gs, stage, c)
    &&& forall|d: int| #[trigger] desc_idx(m, c, d) && vis(v, d) ==> done(m, gs, stage, d)
}
pub open spec fn block_inv(m: &naga::Module, b: &naga::Block, v: Set<naga::Handle<naga::Function>>, gs: Map<String, wgpu::ShaderStages>, stage: wgpu::ShaderStages) -> bool {
    forall|c: int| #[trigger] block_calls(b, c) ==> 0 <= c < nfun(m) && callee_inv(m, c, v, gs, stage)
}
pub open spec fn fn_inv(m: &naga::Module, f: &naga::Function, v: Set<naga::Handle<naga::Function>>, gs: Map<String, wgpu::ShaderStages>, stage: wgpu::ShaderStages) -> bool {
    forall|c: int| #[trigger] fn_calls(f, c) ==> 0 <= c < nfun(m) && callee_inv(m, c, v, gs, stage)
}
pub open spec fn callee_post(m: &naga::Module, c: int, v: Set<naga::Handle<naga::Function>>, gs: Map<String, wgpu::ShaderStages>, stage: wgpu::ShaderStages) -> bool {
    vis(v, c) && done(m, gs, stage, c)
}


// ---------------- lemmas ----------------
pub proof fn lemma_bits()
    ensures
        forall|a: u32, b: u32| #[trigger] sub(a, a | b) && sub(b, a | b),
        forall|a: u32| #[trigger] sub(a, a),
        forall|a: u32, b: u32, c: u32| #[trigger] sub(a, b) && #[trigger] sub(b, c) ==> sub(a, c),
        forall|b: u32| (0u32 | b) == b,
{
    assert(forall|a: u32, b: u32| (a & (a | b)) == a && (b & (a | b)) == b) by(bit_vector);
    assert(forall|a: u32| (a & a) == a) by(bit_vector);
    assert(forall|a: u32, b: u32, c: u32| (a & b) == a && (b & c) == b ==> (a & c) == a) by(bit_vector);
    assert(forall|b: u32| (0u32 | b) == b) by(bit_vector);
}

pub proof fn lemma_done_mono(m: &naga::Module, a: Map<String, wgpu::ShaderStages>, b: Map<String, wgpu::ShaderStages>, stage: wgpu::ShaderStages, i: int)
    requires mono(a, b), done(m, a, stage, i),
    ensures done(m, b, stage, i),
{
    lemma_bits();
    assert forall|g: int| #[trigger] reach_idx(m, i, g) && gname(m, g) is Some implies has(b, gname(m, g)->0, stage) by {
        let n = gname(m, g)->0;
        assert(has(a, n, stage));
        assert(a.contains_key(n));
    }
}

pub proof fn lemma_vmono_trans(a: Set<naga::Handle<naga::Function>>, b: Set<naga::Handle<naga::Function>>, c: Set<naga::Handle<naga::Function>>)
    requires vmono(a, b), vmono(b, c),
    ensures vmono(a, c),
{
    assert forall|d: int| #[trigger] vis(a, d) implies vis(c, d) by { assert(vis(b, d)); }
}
pub proof fn lemma_mono_trans(a: Map<String, wgpu::ShaderStages>, b: Map<String, wgpu::ShaderStages>, c: Map<String, wgpu::ShaderStages>)
    requires mono(a, b), mono(b, c),
    ensures mono(a, c),
{
    lemma_bits();
    assert forall|n: String| #[trigger] a.contains_key(n) implies c.contains_key(n) && sub(a[n].bits, c[n].bits) by {
        assert(b.contains_key(n));
    }
}

pub proof fn lemma_callee_inv_step(m: &naga::Module, c: int, v: Set<naga::Handle<naga::Function>>, v2: Set<naga::Handle<naga::Function>>, gs: Map<String, wgpu::ShaderStages>, gs2: Map<String, wgpu::ShaderStages>, stage: wgpu::ShaderStages)
    requires callee_inv(m, c, v, gs, stage), mono(gs, gs2), vmono(v, v2), new_done(m, v, v2, gs2, stage),
    ensures callee_inv(m, c, v2, gs2, stage),
{
    if vis(v2, c) {
        if vis(v, c) { lemma_done_mono(m, gs, gs2, stage, c); }
    }
    assert forall|d: int| #[trigger] desc_idx(m, c, d) && vis(v2, d) implies done(m, gs2, stage, d) by {
        if vis(v, d) { lemma_done_mono(m, gs, gs2, stage, d); }
    }
}

pub proof fn lemma_desc_lt(m: &naga::Module, i: int, d: int)
    requires desc_idx(m, i, d),
    ensures 0 <= d < i,
    decreases i,
{
    let c = choose|c: int| 0 <= c < i && #[trigger] fn_calls(&fun(m, i), c) && (c == d || desc_idx(m, c, d));
    if c != d { lemma_desc_lt(m, c, d); }
}

pub proof fn lemma_new_done_trans(m: &naga::Module, v0: Set<naga::Handle<naga::Function>>, v1: Set<naga::Handle<naga::Function>>, v2: Set<naga::Handle<naga::Function>>, gs1: Map<String, wgpu::ShaderStages>, gs2: Map<String, wgpu::ShaderStages>, stage: wgpu::ShaderStages)
    requires new_done(m, v0, v1, gs1, stage), new_done(m, v1, v2, gs2, stage), mono(gs1, gs2), vmono(v0, v1), vmono(v1, v2),
    ensures new_done(m, v0, v2, gs2, stage), vmono(v0, v2),
{
    assert forall|d: int| #[trigger] vis(v2, d) && !vis(v0, d) implies done(m, gs2, stage, d) by {
        if vis(v1, d) { lemma_done_mono(m, gs1, gs2, stage, d); }
    }
}



pub proof fn lemma_fn_inv_step(m: &naga::Module, f: &naga::Function, v: Set<naga::Handle<naga::Function>>, v2: Set<naga::Handle<naga::Function>>, gs: Map<String, wgpu::ShaderStages>, gs2: Map<String, wgpu::ShaderStages>, stage: wgpu::ShaderStages)
    requires fn_inv(m, f, v, gs, stage), mono(gs, gs2), vmono(v, v2), new_done(m, v, v2, gs2, stage),
    ensures fn_inv(m, f, v2, gs2, stage),
{
    assert forall|c: int| #[trigger] fn_calls(f, c) implies 0 <= c < nfun(m) && callee_inv(m, c, v2, gs2, stage) by {
        lemma_callee_inv_step(m, c, v, v2, gs, gs2, stage);
    }
}
pub proof fn lemma_block_inv_step(m: &naga::Module, b: &naga::Block, v: Set<naga::Handle<naga::Function>>, v2: Set<naga::Handle<naga::Function>>, gs: Map<String, wgpu::ShaderStages>, gs2: Map<String, wgpu::ShaderStages>, stage: wgpu::ShaderStages)
    requires block_inv(m, b, v, gs, stage), mono(gs, gs2), vmono(v, v2), new_done(m, v, v2, gs2, stage),
    ensures block_inv(m, b, v2, gs2, stage),
{
    assert forall|c: int| #[trigger] block_calls(b, c) implies 0 <= c < nfun(m) && callee_inv(m, c, v2, gs2, stage) by {
        lemma_callee_inv_step(m, c, v, v2, gs, gs2, stage);
    }
}
pub proof fn lemma_post_mono(m: &naga::Module, c: int, v: Set<naga::Handle<naga::Function>>, v2: Set<naga::Handle<naga::Function>>, gs: Map<String, wgpu::ShaderStages>, gs2: Map<String, wgpu::ShaderStages>, stage: wgpu::ShaderStages)
    requires callee_post(m, c, v, gs, stage), mono(gs, gs2), vmono(v, v2),
    ensures callee_post(m, c, v2, gs2, stage),
{
    lemma_done_mono(m, gs, gs2, stage, c);
}

// the precondition needed to expand callee c right after inserting it into the visited set
pub proof fn lemma_enter_callee(m: &naga::Module, c: int, v: Set<naga::Handle<naga::Function>>, gs: Map<String, wgpu::ShaderStages>, stage: wgpu::ShaderStages)
    requires wf(m), 0 <= c < nfun(m), callee_inv(m, c, v, gs, stage),
    ensures fn_inv(m, &fun(m, c), v.insert(mk_handle(c)), gs, stage), fn_ok(m, &fun(m, c), nfun(m)),
{
    broadcast use axiom_mk_handle;
    let f = fun(m, c);
    let v2 = v.insert(mk_handle(c));
    assert(fn_ok(m, &fun(m, c), c));
    assert forall|c2: int| #[trigger] fn_calls(&f, c2) implies 0 <= c2 < nfun(m) && callee_inv(m, c2, v2, gs, stage) by {
        assert(0 <= c2 < c);
        assert(desc_idx(m, c, c2));
        assert(handle_index(mk_handle::<naga::Function>(c2)) == c2) by { axiom_mk_handle_idx::<naga::Function>(c2); }
        assert(handle_index(mk_handle::<naga::Function>(c)) == c) by { axiom_mk_handle_idx::<naga::Function>(c); }
        assert(vis(v2, c2) ==> vis(v, c2));
        assert forall|d: int| #[trigger] desc_idx(m, c2, d) && vis(v2, d) implies done(m, gs, stage, d) by {
            lemma_desc_lt(m, c2, d);
            assert(desc_idx(m, c, d));
            assert(handle_index(mk_handle::<naga::Function>(d)) == d) by { axiom_mk_handle_idx::<naga::Function>(d); }
            assert(vis(v, d));
        }
    }
}
pub axiom fn axiom_mk_handle_idx<T>(i: int)
    ensures handle_index(mk_handle::<T>(i)) == i;

pub proof fn lemma_done_from_top(m: &naga::Module, c: int, gs: Map<String, wgpu::ShaderStages>, stage: wgpu::ShaderStages)
    requires 0 <= c < nfun(m),
        forall|g: int| #[trigger] reach_top(m, &fun(m, c), g) && gname(m, g) is Some ==> has(gs, gname(m, g)->0, stage),
    ensures done(m, gs, stage, c),
{
    assert forall|g: int| #[trigger] reach_idx(m, c, g) && gname(m, g) is Some implies has(gs, gname(m, g)->0, stage) by {
        assert(reach_top(m, &fun(m, c), g));
    }
}

pub open spec fn fn_post(m: &naga::Module, f: &naga::Function, gs: Map<String, wgpu::ShaderStages>, stage: wgpu::ShaderStages) -> bool {
    forall|g: int| #[trigger] reach_top(m, f, g) && gname(m, g) is Some ==> has(gs, gname(m, g)->0, stage)
}



// ---------------- termination / cost measure: number of function handles not yet visited ----------------
pub open spec fn vset(m: &naga::Module, v: Set<naga::Handle<naga::Function>>) -> Set<int> {
    Set::<int>::range(0, nfun(m)).filter(|d: int| vis(v, d))
}
pub open spec fn unvisited(m: &naga::Module, v: Set<naga::Handle<naga::Function>>) -> nat {
    (nfun(m) - vset(m, v).len()) as nat
}
pub proof fn lemma_vset_bounds(m: &naga::Module, v: Set<naga::Handle<naga::Function>>)
    ensures vset(m, v).finite(), vset(m, v).len() <= nfun(m),
{
    let r = Set::<int>::range(0, nfun(m));
    r.lemma_len_filter(|d: int| vis(v, d));
    assert(r.len() == nfun(m));
}
pub proof fn lemma_unvisited_mono(m: &naga::Module, v: Set<naga::Handle<naga::Function>>, v2: Set<naga::Handle<naga::Function>>)
    requires vmono(v, v2),
    ensures unvisited(m, v2) <= unvisited(m, v),
{
    lemma_vset_bounds(m, v); lemma_vset_bounds(m, v2);
    assert(vset(m, v).subset_of(vset(m, v2)));
    vstd::set_lib::lemma_len_subset(vset(m, v), vset(m, v2));
}
pub proof fn lemma_unvisited_insert(m: &naga::Module, v: Set<naga::Handle<naga::Function>>, c: int)
    requires 0 <= c < nfun(m), !vis(v, c),
    ensures unvisited(m, v.insert(mk_handle(c))) < unvisited(m, v),
{
    let v2 = v.insert(mk_handle::<naga::Function>(c));
    lemma_vset_bounds(m, v); lemma_vset_bounds(m, v2);
    assert forall|d: int| vset(m, v2).contains(d) == vset(m, v).insert(c).contains(d) by {
        axiom_mk_handle_idx::<naga::Function>(d);
        axiom_mk_handle_idx::<naga::Function>(c);
    }
    assert(vset(m, v2) =~= vset(m, v).insert(c));
}

pub proof fn lemma_sub_calls(m: &naga::Module, b: &naga::Block, i: int, k: int, c: int)
    requires 0 <= i < block_stmts(b).len(), 0 <= k < sub_blocks(&block_stmts(b)[i]).len(),
        block_calls(&sub_blocks(&block_stmts(b)[i])[k], c),
    ensures calls_sub(b, i, k, c), calls_at(b, i, c), block_calls(b, c),
{
    assert(calls_sub(b, i, k, c));
    assert(calls_at(b, i, c));
    lemma_block_calls(b, c);
}
pub proof fn lemma_sub_inv(m: &naga::Module, b: &naga::Block, i: int, k: int, v: Set<naga::Handle<naga::Function>>, gs: Map<String, wgpu::ShaderStages>, stage: wgpu::ShaderStages)
    requires block_inv(m, b, v, gs, stage), 0 <= i < block_stmts(b).len(), 0 <= k < sub_blocks(&block_stmts(b)[i]).len(),
    ensures block_inv(m, &sub_blocks(&block_stmts(b)[i])[k], v, gs, stage),
{
    let sb = sub_blocks(&block_stmts(b)[i])[k];
    assert forall|c: int| #[trigger] block_calls(&sb, c) implies 0 <= c < nfun(m) && callee_inv(m, c, v, gs, stage) by {
        lemma_sub_calls(m, b, i, k, c);
    }
}
pub open spec fn sub_post(m: &naga::Module, sb: &naga::Block, v: Set<naga::Handle<naga::Function>>, gs: Map<String, wgpu::ShaderStages>, stage: wgpu::ShaderStages) -> bool {
    forall|c: int| #[trigger] block_calls(sb, c) ==> callee_post(m, c, v, gs, stage)
}
pub proof fn lemma_sub_post_mono(m: &naga::Module, sb: &naga::Block, v: Set<naga::Handle<naga::Function>>, v2: Set<naga::Handle<naga::Function>>, gs: Map<String, wgpu::ShaderStages>, gs2: Map<String, wgpu::ShaderStages>, stage: wgpu::ShaderStages)
    requires sub_post(m, sb, v, gs, stage), mono(gs, gs2), vmono(v, v2),
    ensures sub_post(m, sb, v2, gs2, stage),
{
    assert forall|c: int| #[trigger] block_calls(sb, c) implies callee_post(m, c, v2, gs2, stage) by {
        lemma_post_mono(m, c, v, v2, gs, gs2, stage);
    }
}
// bookkeeping after one statement: everything established for earlier statements survives
pub proof fn lemma_stmt_step(m: &naga::Module, b: &naga::Block, j: int,
    v0: Set<naga::Handle<naga::Function>>, v1: Set<naga::Handle<naga::Function>>, v2: Set<naga::Handle<naga::Function>>,
    gs0: Map<String, wgpu::ShaderStages>, gs1: Map<String, wgpu::ShaderStages>, gs2: Map<String, wgpu::ShaderStages>, stage: wgpu::ShaderStages)
    requires
        mono(gs0, gs1), vmono(v0, v1), new_done(m, v0, v1, gs1, stage),
        mono(gs1, gs2), vmono(v1, v2), new_done(m, v1, v2, gs2, stage),
        block_inv(m, b, v1, gs1, stage),
        forall|jj: int, c: int| 0 <= jj < j && #[trigger] calls_at(b, jj, c) ==> callee_post(m, c, v1, gs1, stage),
        forall|c: int| #[trigger] calls_at(b, j, c) ==> callee_post(m, c, v2, gs2, stage),
    ensures
        mono(gs0, gs2), vmono(v0, v2), new_done(m, v0, v2, gs2, stage),
        block_inv(m, b, v2, gs2, stage),
        forall|jj: int, c: int| 0 <= jj < j + 1 && #[trigger] calls_at(b, jj, c) ==> callee_post(m, c, v2, gs2, stage),
{
    lemma_mono_trans(gs0, gs1, gs2);
    lemma_new_done_trans(m, v0, v1, v2, gs1, gs2, stage);
    lemma_block_inv_step(m, b, v1, v2, gs1, gs2, stage);
    assert forall|jj: int, c: int| 0 <= jj < j + 1 && #[trigger] calls_at(b, jj, c) implies callee_post(m, c, v2, gs2, stage) by {
        if jj < j { lemma_post_mono(m, c, v1, v2, gs1, gs2, stage); }
    }
}

fn update_stages_blocks(
    module: &naga::Module,
    block: &naga::Block,
    global_stages: &mut BTreeMap<String, wgpu::ShaderStages>,
    stage: wgpu::ShaderStages,
    visited: &mut HashSet<naga::Handle<naga::Function>>,
)
    requires wf(module), block_inv(module, block, old(visited)@, old(global_stages)@, stage),
    ensures
        mono(old(global_stages)@, final(global_stages)@),
        vmono(old(visited)@, final(visited)@),
        new_done(module, old(visited)@, final(visited)@, final(global_stages)@, stage),
        forall|c: int| #[trigger] block_calls(block, c) ==> callee_post(module, c, final(visited)@, final(global_stages)@, stage),
    decreases unvisited(module, old(visited)@), 0nat, block_height(block),
{
    proof { lemma_bits(); }
    let ghost v0 = visited@;
    let ghost gs0 = global_stages@;
    let ghost b0 = *block;
    for statement in it: block.iter()
        invariant
            v0 == old(visited)@,
            b0 == *block,
            it.seq().len() == block_stmts(&b0).len(),
            forall|j: int| 0 <= j < it.seq().len() ==> *(#[trigger] it.seq()[j]) == block_stmts(&b0)[j],
            wf(module),
            mono(gs0, global_stages@), vmono(v0, visited@), new_done(module, v0, visited@, global_stages@, stage),
            block_inv(module, &b0, visited@, global_stages@, stage),
            forall|jj: int, c: int| 0 <= jj < it.index@ && #[trigger] calls_at(&b0, jj, c) ==> callee_post(module, c, visited@, global_stages@, stage),
    {
        broadcast use axiom_arena_index_req, axiom_handle_key_model, axiom_mk_handle;
        proof { lemma_bits(); }
        let ghost j = it.index@;
        let ghost v1 = visited@;
        let ghost gs1 = global_stages@;
        assert(*it.seq()[j] == block_stmts(&b0)[j]);
        let ghost st = block_stmts(&b0)[j];
        match statement {
            naga::Statement::Block(block) => {
                proof {
                    assert(sub_blocks(&st) =~= seq![*block]);
                    lemma_sub_inv(module, &b0, j, 0, v1, gs1, stage);
                }
                proof { lemma_unvisited_mono(module, v0, visited@); axiom_block_height(&b0, j, 0); }
                update_stages_blocks(module, block, global_stages, stage, visited);
                proof {
                    assert forall|c: int| #[trigger] calls_at(&b0, j, c) implies callee_post(module, c, visited@, global_stages@, stage) by {
                        let k = choose|k: int| #[trigger] calls_sub(&b0, j, k, c);
                        assert(k == 0);
                    }
                }
            }
            naga::Statement::If { accept, reject, .. } => {
                proof {
                    assert(sub_blocks(&st) =~= seq![*accept, *reject]);
                    lemma_sub_inv(module, &b0, j, 0, v1, gs1, stage);
                }
                proof { lemma_unvisited_mono(module, v0, visited@); axiom_block_height(&b0, j, 0); }
                update_stages_blocks(module, accept, global_stages, stage, visited);
                let ghost v2 = visited@;
                let ghost gs2 = global_stages@;
                proof {
                    lemma_block_inv_step(module, &b0, v1, v2, gs1, gs2, stage);
                    lemma_sub_inv(module, &b0, j, 1, v2, gs2, stage);
                }
                proof { lemma_unvisited_mono(module, v0, visited@); axiom_block_height(&b0, j, 1); }
                update_stages_blocks(module, reject, global_stages, stage, visited);
                proof {
                    lemma_sub_post_mono(module, accept, v2, visited@, gs2, global_stages@, stage);
                    lemma_mono_trans(gs1, gs2, global_stages@);
                    lemma_new_done_trans(module, v1, v2, visited@, gs2, global_stages@, stage);
                    assert forall|c: int| #[trigger] calls_at(&b0, j, c) implies callee_post(module, c, visited@, global_stages@, stage) by {
                        let k = choose|k: int| #[trigger] calls_sub(&b0, j, k, c);
                        assert(k == 0 || k == 1);
                    }
                }
            }
            naga::Statement::Switch { cases, .. } => {
                proof { assert(sub_blocks(&st) =~= cases@.map_values(|c: naga::SwitchCase| c.body)); }
                for c in it2: cases
                    invariant
                        v0 == old(visited)@, b0 == *block, vmono(v0, v1), mono(gs0, gs1),
                        it2.seq().len() == cases@.len(),
                        forall|k: int| 0 <= k < it2.seq().len() ==> *(#[trigger] it2.seq()[k]) == cases@[k],
                        sub_blocks(&st) =~= cases@.map_values(|c: naga::SwitchCase| c.body),
                        st == block_stmts(&b0)[j], 0 <= j < block_stmts(&b0).len(),
                        wf(module),
                        mono(gs1, global_stages@), vmono(v1, visited@), new_done(module, v1, visited@, global_stages@, stage),
                        block_inv(module, &b0, visited@, global_stages@, stage),
                        forall|k: int| 0 <= k < it2.index@ ==> sub_post(module, &#[trigger] sub_blocks(&st)[k], visited@, global_stages@, stage),
                {
                    proof { lemma_bits(); }
                    let ghost k = it2.index@;
                    let ghost v2 = visited@;
                    let ghost gs2 = global_stages@;
                    assert(*it2.seq()[k] == cases@[k]);
                    proof {
                        assert(sub_blocks(&st)[k] == c.body);
                        lemma_sub_inv(module, &b0, j, k, v2, gs2, stage);
                    }
                    proof { lemma_mono_trans(gs0, gs1, gs2); lemma_vmono_trans(v0, v1, v2); lemma_unvisited_mono(module, v0, visited@); axiom_block_height(&b0, j, k); }
                    update_stages_blocks(module, &c.body, global_stages, stage, visited);
                    proof {
                        lemma_mono_trans(gs1, gs2, global_stages@);
                        lemma_new_done_trans(module, v1, v2, visited@, gs2, global_stages@, stage);
                        lemma_block_inv_step(module, &b0, v2, visited@, gs2, global_stages@, stage);
                        assert forall|kk: int| 0 <= kk < k + 1 implies sub_post(module, &#[trigger] sub_blocks(&st)[kk], visited@, global_stages@, stage) by {
                            if kk < k { lemma_sub_post_mono(module, &sub_blocks(&st)[kk], v2, visited@, gs2, global_stages@, stage); }
                        }
                    }
                }
                proof {
                    assert forall|c: int| #[trigger] calls_at(&b0, j, c) implies callee_post(module, c, visited@, global_stages@, stage) by {
                        let k = choose|k: int| #[trigger] calls_sub(&b0, j, k, c);
                        assert(sub_post(module, &sub_blocks(&st)[k], visited@, global_stages@, stage));
                    }
                }
            }
            naga::Statement::Loop {
                body, continuing, ..
            } => {
                proof {
                    assert(sub_blocks(&st) =~= seq![*body, *continuing]);
                    lemma_sub_inv(module, &b0, j, 0, v1, gs1, stage);
                }
                proof { lemma_unvisited_mono(module, v0, visited@); axiom_block_height(&b0, j, 0); }
                update_stages_blocks(module, body, global_stages, stage, visited);
                let ghost v2 = visited@;
                let ghost gs2 = global_stages@;
                proof {
                    lemma_block_inv_step(module, &b0, v1, v2, gs1, gs2, stage);
                    lemma_sub_inv(module, &b0, j, 1, v2, gs2, stage);
                }
                proof { lemma_unvisited_mono(module, v0, visited@); axiom_block_height(&b0, j, 1); }
                update_stages_blocks(module, continuing, global_stages, stage, visited);
                proof {
                    lemma_sub_post_mono(module, body, v2, visited@, gs2, global_stages@, stage);
                    lemma_mono_trans(gs1, gs2, global_stages@);
                    lemma_new_done_trans(module, v1, v2, visited@, gs2, global_stages@, stage);
                    assert forall|c: int| #[trigger] calls_at(&b0, j, c) implies callee_post(module, c, visited@, global_stages@, stage) by {
                        let k = choose|k: int| #[trigger] calls_sub(&b0, j, k, c);
                        assert(k == 0 || k == 1);
                    }
                }
            }
            naga::Statement::Call { function, .. } => {
                let ghost c = handle_index(*function);
                proof {
                    assert(stmt_call(&st, c));
                    assert(calls_at(&b0, j, c));
                    lemma_block_calls(&b0, c);
                    assert(block_calls(&b0, c));
                    assert(callee_inv(module, c, v1, gs1, stage));
                    assert(sub_blocks(&st) =~= Seq::<naga::Block>::empty());
                }
                if visited.insert(*function) {
                    proof {
                        lemma_enter_callee(module, c, v1, gs1, stage);
                        assert(visited@ =~= v1.insert(mk_handle(c)));
                    }
                    let ghost v2 = visited@;
                    assert(vmono(v1, v2));
                    proof { lemma_unvisited_mono(module, v0, v1); lemma_unvisited_insert(module, v1, c); }
                    update_stages(
                        module,
                        &module.functions[*function],
                        global_stages,
                        stage,
                        visited,
                    );
                    proof {
                        lemma_done_from_top(module, c, global_stages@, stage);
                        assert(vis(v2, c));
                        assert forall|d: int| #[trigger] vis(visited@, d) && !vis(v1, d) implies done(module, global_stages@, stage, d) by {
                            if vis(v2, d) {
                                axiom_mk_handle_idx::<naga::Function>(d);
                                axiom_mk_handle_idx::<naga::Function>(c);
                                assert(d == c);
                            }
                        }
                    }
                } else {
                    assert(vis(v1, c));
                }
                proof {
                    assert(callee_post(module, c, visited@, global_stages@, stage));
                    assert forall|c2: int| #[trigger] calls_at(&b0, j, c2) implies callee_post(module, c2, visited@, global_stages@, stage) by {
                        assert(c2 == c);
                    }
                }
            }
            _ => {
                proof {
                    assert(sub_blocks(&st) =~= Seq::<naga::Block>::empty());
                    assert forall|c: int| #[trigger] calls_at(&b0, j, c) implies callee_post(module, c, visited@, global_stages@, stage) by {
                        assert(!stmt_call(&st, c));
                    }
                }
            },
        }
        proof {
            lemma_stmt_step(module, &b0, j, v0, v1, visited@, gs0, gs1, global_stages@, stage);
        }
    }
    proof {
        assert forall|c: int| #[trigger] block_calls(&b0, c) implies callee_post(module, c, visited@, global_stages@, stage) by {
            lemma_block_calls(&b0, c);
            let i = choose|i: int| #[trigger] calls_at(&b0, i, c);
        }
    }
}

fn update_stages(
    module: &naga::Module,
    function: &naga::Function,
    global_stages: &mut BTreeMap<String, wgpu::ShaderStages>,
    stage: wgpu::ShaderStages,
    visited: &mut HashSet<naga::Handle<naga::Function>>,
)
    requires wf(module), fn_ok(module, function, nfun(module)),
        fn_inv(module, function, old(visited)@, old(global_stages)@, stage),
    ensures
        mono(old(global_stages)@, final(global_stages)@),
        vmono(old(visited)@, final(visited)@),
        new_done(module, old(visited)@, final(visited)@, final(global_stages)@, stage),
        fn_post(module, function, final(global_stages)@, stage),
    decreases unvisited(module, old(visited)@), 1nat, 0nat,
{
    broadcast use axiom_arena_index_req, axiom_handle_key_model, axiom_mk_handle;
    proof { lemma_bits(); }
    let ghost v0 = visited@;
    let ghost gs0 = global_stages@;
    assert forall|c: int| #[trigger] block_calls(&function.body, c) implies 0 <= c < nfun(module) && callee_inv(module, c, v0, gs0, stage) by {
        assert(fn_calls(function, c));
    }
    // Search the function body to find function call statements
    update_stages_blocks(module, &function.body, global_stages, stage, visited);
    proof { lemma_fn_inv_step(module, function, v0, visited@, gs0, global_stages@, stage); }

    // Search the function body to find used globals.
    for (_, e) in it: function.expressions.iter()
        invariant
            v0 == old(visited)@,
            it.iter.obeys_prophetic_iter_laws(),
            it.seq().len() == exprs(function).len(),
            forall|j: int| 0 <= j < it.seq().len() ==> *(#[trigger] it.seq()[j]).1 == exprs(function)[j],
            wf(module), fn_ok(module, function, nfun(module)),
            mono(gs0, global_stages@), vmono(v0, visited@), new_done(module, v0, visited@, global_stages@, stage),
            fn_inv(module, function, visited@, global_stages@, stage),
            forall|c: int| #[trigger] block_calls(&function.body, c) ==> callee_post(module, c, visited@, global_stages@, stage),
            forall|j: int, c: int| 0 <= j < it.index@ && #[trigger] expr_call(&exprs(function)[j], c) ==> callee_post(module, c, visited@, global_stages@, stage),
            forall|j: int, g: int| 0 <= j < it.index@ && #[trigger] expr_global(&exprs(function)[j], g) && gname(module, g) is Some ==> has(global_stages@, gname(module, g)->0, stage),
    {
        broadcast use axiom_arena_index_req, axiom_handle_key_model, axiom_mk_handle;
        proof { lemma_bits(); }
        let ghost j = it.index@;
        let ghost v1 = visited@;
        let ghost gs1 = global_stages@;
        assert(*it.seq()[j].1 == exprs(function)[j]);
        match e {
            naga::Expression::GlobalVariable(g) => {
                assert(expr_global(&exprs(function)[j], handle_index(*g)));
                assert(fn_uses(function, handle_index(*g)));
                let global = &module.global_variables[*g];
                if let Some(name) = &global.name {
                    let stages = global_stages
                        .entry(name.clone())
                        .or_insert(wgpu::ShaderStages::NONE);
                    *stages = stages.union(stage);
                }
                proof {
                    assert(mono(gs1, global_stages@));
                    lemma_mono_trans(gs0, gs1, global_stages@);
                    lemma_fn_inv_step(module, function, v1, visited@, gs1, global_stages@, stage);
                    assert forall|c: int| #[trigger] block_calls(&function.body, c) implies callee_post(module, c, visited@, global_stages@, stage) by {
                        lemma_post_mono(module, c, v1, visited@, gs1, global_stages@, stage);
                    }
                    assert forall|jj: int, c: int| 0 <= jj < j + 1 && #[trigger] expr_call(&exprs(function)[jj], c) implies callee_post(module, c, visited@, global_stages@, stage) by {
                        lemma_post_mono(module, c, v1, visited@, gs1, global_stages@, stage);
                    }
                    assert forall|d: int| #[trigger] vis(visited@, d) && !vis(v0, d) implies done(module, global_stages@, stage, d) by {
                        lemma_done_mono(module, gs1, global_stages@, stage, d);
                    }
                }
            }
            naga::Expression::CallResult(f) => {
                // Function call expressions
                let ghost c = handle_index(*f);
                assert(expr_call(&exprs(function)[j], c));
                assert(fn_calls(function, c));
                assert(callee_inv(module, c, v1, gs1, stage));
                if visited.insert(*f) {
                    proof {
                        lemma_enter_callee(module, c, v1, gs1, stage);
                        assert(visited@ =~= v1.insert(mk_handle(c)));
                    }
                    let ghost v2 = visited@;
                    assert(vmono(v1, v2));
                    proof { lemma_unvisited_mono(module, v0, v1); lemma_unvisited_insert(module, v1, c); }
                    update_stages(module, &module.functions[*f], global_stages, stage, visited);
                    proof {
                        lemma_done_from_top(module, c, global_stages@, stage);
                        assert(vis(v2, c));
                        // new_done from v1: c itself and everything visited during the call
                        assert forall|d: int| #[trigger] vis(visited@, d) && !vis(v1, d) implies done(module, global_stages@, stage, d) by {
                            if vis(v2, d) {
                                axiom_mk_handle_idx::<naga::Function>(d);
                                axiom_mk_handle_idx::<naga::Function>(c);
                                assert(d == c);
                            }
                        }
                        assert(vmono(v1, visited@));
                    }
                } else {
                    assert(vis(v1, c));
                }
                proof {
                    assert(callee_post(module, c, visited@, global_stages@, stage));
                    lemma_mono_trans(gs0, gs1, global_stages@);
                    lemma_new_done_trans(module, v0, v1, visited@, gs1, global_stages@, stage);
                    lemma_fn_inv_step(module, function, v1, visited@, gs1, global_stages@, stage);
                    assert forall|c2: int| #[trigger] block_calls(&function.body, c2) implies callee_post(module, c2, visited@, global_stages@, stage) by {
                        lemma_post_mono(module, c2, v1, visited@, gs1, global_stages@, stage);
                    }
                    assert forall|jj: int, c2: int| 0 <= jj < j + 1 && #[trigger] expr_call(&exprs(function)[jj], c2) implies callee_post(module, c2, visited@, global_stages@, stage) by {
                        if jj < j { lemma_post_mono(module, c2, v1, visited@, gs1, global_stages@, stage); }
                    }
                    assert forall|jj: int, g: int| 0 <= jj < j + 1 && #[trigger] expr_global(&exprs(function)[jj], g) && gname(module, g) is Some implies has(global_stages@, gname(module, g)->0, stage) by {
                        assert(has(gs1, gname(module, g)->0, stage));
                    }
                }
            }
            _ => (),
        }
    }
    proof {
        assert forall|g: int| #[trigger] reach_top(module, function, g) && gname(module, g) is Some implies has(global_stages@, gname(module, g)->0, stage) by {
            if fn_uses(function, g) {
                let i = choose|i: int| 0 <= i < exprs(function).len() && #[trigger] expr_global(&exprs(function)[i], g);
            } else {
                let c = choose|c: int| 0 <= c < nfun(module) && #[trigger] fn_calls(function, c) && reach_idx(module, c, g);
                if block_calls(&function.body, c) {
                    assert(callee_post(module, c, visited@, global_stages@, stage));
                } else {
                    let i = choose|i: int| 0 <= i < exprs(function).len() && #[trigger] expr_call(&exprs(function)[i], c);
                    assert(callee_post(module, c, visited@, global_stages@, stage));
                }
                assert(done(module, global_stages@, stage, c));
            }
        }
    }
}

} // verus!
fn main() {}
