use vstd::prelude::*;
extern crate proc_macro2;
use proc_macro2::{TokenStream, Literal, Span, Ident};

verus! {

pub enum Tok { T(&'static str), Id(Seq<char>), LitU(int), LitS(Seq<char>) }

#[verifier::external_type_specification] #[verifier::external_body] pub struct ExTokenStream(TokenStream);
#[verifier::external_type_specification] #[verifier::external_body] pub struct ExLiteral(Literal);
#[verifier::external_type_specification] #[verifier::external_body] pub struct ExSpan(Span);
#[verifier::external_type_specification] #[verifier::external_body] pub struct ExIdent(Ident);

pub uninterp spec fn ts_view(t: &TokenStream) -> Seq<Tok>;
pub uninterp spec fn lit_view(t: &Literal) -> Tok;
pub uninterp spec fn id_view(t: &Ident) -> Seq<char>;

pub assume_specification[ Span::call_site ]() -> Span;
pub assume_specification[ Ident::new ](s: &str, span: Span) -> (r: Ident)
    ensures id_view(&r) == s@;
pub assume_specification[ Literal::usize_unsuffixed ](n: usize) -> (r: Literal)
    ensures lit_view(&r) == Tok::LitU(n as int);

pub trait Interp {
    spec fn toks(&self) -> Seq<Tok>;
    fn interp(&self, s: &mut TokenStream)
        ensures ts_view(final(s)) == ts_view(old(s)) + self.toks();
}
impl Interp for TokenStream {
    open spec fn toks(&self) -> Seq<Tok> { ts_view(self) }
    #[verifier::external_body]
    fn interp(&self, s: &mut TokenStream) { unimplemented!() }
}
impl Interp for Literal {
    open spec fn toks(&self) -> Seq<Tok> { seq![lit_view(self)] }
    #[verifier::external_body]
    fn interp(&self, s: &mut TokenStream) { unimplemented!() }
}
impl Interp for Ident {
    open spec fn toks(&self) -> Seq<Tok> { seq![Tok::Id(id_view(self))] }
    #[verifier::external_body]
    fn interp(&self, s: &mut TokenStream) { unimplemented!() }
}
impl<T: Interp> Interp for Option<T> {
    open spec fn toks(&self) -> Seq<Tok> { match self { Some(x) => x.toks(), None => Seq::empty() } }
    #[verifier::external_body]
    fn interp(&self, s: &mut TokenStream) { unimplemented!() }
}

pub open spec fn flat(items: Seq<Seq<Tok>>, pre: Seq<Tok>, post: Seq<Tok>, sep: Seq<Tok>) -> Seq<Tok>
    decreases items.len()
{
    if items.len() == 0 { Seq::empty() }
    else if items.len() == 1 { pre + items[0] + post }
    else { flat(items.drop_last(), pre, post, sep) + sep + pre + items.last() + post }
}

pub mod shim {
    use super::*;
    #[verifier::external_body]
    pub fn new() -> (r: TokenStream) ensures ts_view(&r) == Seq::<Tok>::empty() { unimplemented!() }
    #[verifier::external_body]
    pub fn t(s: &mut TokenStream, x: &'static str) ensures ts_view(final(s)) == ts_view(old(s)).push(Tok::T(x)) { unimplemented!() }
    #[verifier::external_body]
    pub fn rep<T: Interp>(s: &mut TokenStream, v: &Vec<T>, pre: &TokenStream, post: &TokenStream, sep: &TokenStream)
        ensures ts_view(final(s)) == ts_view(old(s)) + flat(Seq::new(v@.len(), |i: int| v@[i].toks()), ts_view(pre), ts_view(post), ts_view(sep))
    { unimplemented!() }
}


pub trait RepSrc { type Item: Interp; fn as_rep_slice(&self) -> (r: &[Self::Item]) ensures r@ == self.rep_view(); spec fn rep_view(&self) -> Seq<Self::Item>; }
impl<T: Interp> RepSrc for Vec<T> { type Item = T; open spec fn rep_view(&self) -> Seq<T> { self@ } #[verifier::external_body] fn as_rep_slice(&self) -> (r: &[T]) { self.as_slice() } }
impl<'a, T: Interp> RepSrc for &'a [T] { type Item = T; open spec fn rep_view(&self) -> Seq<T> { (*self)@ } #[verifier::external_body] fn as_rep_slice(&self) -> (r: &[T]) { *self } }
pub mod shim2 {
    use super::*;
    #[verifier::external_body]
    pub fn rep_slice<T: Interp>(s: &mut TokenStream, v: &[T], pre: &TokenStream, post: &TokenStream, sep: &TokenStream)
        ensures ts_view(final(s)) == ts_view(old(s)) + flat(Seq::new(v@.len(), |i: int| v@[i].toks()), ts_view(pre), ts_view(post), ts_view(sep))
    { unimplemented!() }
}
impl<'a, T: Interp> Interp for &'a T {
    open spec fn toks(&self) -> Seq<Tok> { (**self).toks() }
    #[verifier::external_body]
    fn interp(&self, s: &mut TokenStream) { unimplemented!() }
}

pub mod wgpu {
    use vstd::prelude::*;
    verus!{
    #[derive(Clone, Copy)]
    pub struct ShaderStages { pub bits: u32 }
    impl ShaderStages {
        pub const NONE: ShaderStages = ShaderStages { bits: 0 };
        pub const VERTEX: ShaderStages = ShaderStages { bits: 1 };
        pub const FRAGMENT: ShaderStages = ShaderStages { bits: 2 };
        pub const COMPUTE: ShaderStages = ShaderStages { bits: 4 };
        pub const VERTEX_FRAGMENT: ShaderStages = ShaderStages { bits: 3 };
        pub fn all() -> (r: ShaderStages) ensures r.bits == 7 { ShaderStages { bits: 7 } }
        pub fn contains(&self, other: ShaderStages) -> (r: bool) ensures r == (self.bits & other.bits == other.bits) { self.bits & other.bits == other.bits }
        pub fn union(self, other: ShaderStages) -> (r: ShaderStages) ensures r.bits == self.bits | other.bits { ShaderStages { bits: self.bits | other.bits } }
    }
    impl vstd::std_specs::cmp::PartialEqSpecImpl for ShaderStages {
        open spec fn obeys_eq_spec() -> bool { true }
        open spec fn eq_spec(&self, other: &ShaderStages) -> bool { self.bits == other.bits }
    }
    impl PartialEq for ShaderStages {
        fn eq(&self, other: &ShaderStages) -> (r: bool) ensures r == (self.bits == other.bits) { self.bits == other.bits }
    }
    }
}
} // verus!

macro_rules! quote {
    ($($tt:tt)*) => {{ let mut _s = shim::new(); quote_each!(_s $($tt)*); _s }};
}
macro_rules! quote_each {
    ($s:ident) => {};
    // repetition with separator / without
    ($s:ident # ( $($inner:tt)* ) * $($rest:tt)*) => { quote_rep!($s [] [$($inner)*] []); quote_each!($s $($rest)*); };
    ($s:ident # ( $($inner:tt)* ) $sep:tt * $($rest:tt)*) => { quote_rep!($s [] [$($inner)*] [$sep]); quote_each!($s $($rest)*); };
    ($s:ident # $v:ident $($rest:tt)*) => { Interp::interp(&$v, &mut $s); quote_each!($s $($rest)*); };
    ($s:ident __LP__ $($rest:tt)*) => { shim::t(&mut $s, "("); quote_each!($s $($rest)*); };
    ($s:ident __RP__ $($rest:tt)*) => { shim::t(&mut $s, ")"); quote_each!($s $($rest)*); };
    ($s:ident __LB__ $($rest:tt)*) => { shim::t(&mut $s, "["); quote_each!($s $($rest)*); };
    ($s:ident __RB__ $($rest:tt)*) => { shim::t(&mut $s, "]"); quote_each!($s $($rest)*); };
    ($s:ident __LC__ $($rest:tt)*) => { shim::t(&mut $s, "{"); quote_each!($s $($rest)*); };
    ($s:ident __RC__ $($rest:tt)*) => { shim::t(&mut $s, "}"); quote_each!($s $($rest)*); };
    ($s:ident ( $($inner:tt)* ) $($rest:tt)*) => { shim::t(&mut $s, "("); quote_each!($s $($inner)*); shim::t(&mut $s, ")"); quote_each!($s $($rest)*); };
    ($s:ident [ $($inner:tt)* ] $($rest:tt)*) => { shim::t(&mut $s, "["); quote_each!($s $($inner)*); shim::t(&mut $s, "]"); quote_each!($s $($rest)*); };
    ($s:ident { $($inner:tt)* } $($rest:tt)*) => { shim::t(&mut $s, "{"); quote_each!($s $($inner)*); shim::t(&mut $s, "}"); quote_each!($s $($rest)*); };
    ($s:ident $t:tt $($rest:tt)*) => { shim::t(&mut $s, stringify!($t)); quote_each!($s $($rest)*); };
}
// split inner template around the single interpolated variable: pre tokens, var, post tokens
macro_rules! quote_rep {
    ($s:ident [$($pre:tt)*] [# $v:ident $($post:tt)*] [$($sep:tt)*]) => {{
        let mut _pre = shim::new(); quote_each!(_pre $($pre)*);
        let mut _post = shim::new(); quote_each!(_post $($post)*);
        let mut _sep = shim::new(); quote_each!(_sep $($sep)*);
        shim2::rep_slice(&mut $s, RepSrc::as_rep_slice(&$v), &_pre, &_post, &_sep);
    }};
    ($s:ident [$($pre:tt)*] [( $($g:tt)* ) $($more:tt)*] [$($sep:tt)*]) => { quote_rep!($s [$($pre)*] [__LP__ $($g)* __RP__ $($more)*] [$($sep)*]) };
    ($s:ident [$($pre:tt)*] [[ $($g:tt)* ] $($more:tt)*] [$($sep:tt)*]) => { quote_rep!($s [$($pre)*] [__LB__ $($g)* __RB__ $($more)*] [$($sep)*]) };
    ($s:ident [$($pre:tt)*] [{ $($g:tt)* } $($more:tt)*] [$($sep:tt)*]) => { quote_rep!($s [$($pre)*] [__LC__ $($g)* __RC__ $($more)*] [$($sep)*]) };
    ($s:ident [$($pre:tt)*] [$t:tt $($more:tt)*] [$($sep:tt)*]) => { quote_rep!($s [$($pre)* $t] [$($more)*] [$($sep)*]) };
}
macro_rules! ts {
    ($($tt:tt)*) => { ts_each!([Seq::<Tok>::empty()] $($tt)*) };
}
macro_rules! ts_each {
    ([$acc:expr]) => { $acc };
    ([$acc:expr] # $v:ident $($rest:tt)*) => { ts_each!([$acc.add($v)] $($rest)*) };
    ([$acc:expr] ( $($inner:tt)* ) $($rest:tt)*) => { ts_each!([ts_each!([$acc.push(Tok::T("("))] $($inner)*).push(Tok::T(")"))] $($rest)*) };
    ([$acc:expr] [ $($inner:tt)* ] $($rest:tt)*) => { ts_each!([ts_each!([$acc.push(Tok::T("["))] $($inner)*).push(Tok::T("]"))] $($rest)*) };
    ([$acc:expr] { $($inner:tt)* } $($rest:tt)*) => { ts_each!([ts_each!([$acc.push(Tok::T("{"))] $($inner)*).push(Tok::T("}"))] $($rest)*) };
    ([$acc:expr] $t:tt $($rest:tt)*) => { ts_each!([$acc.push(Tok::T(stringify!($t)))] $($rest)*) };
}

verus! {

pub open spec fn denotes_stages(t: Seq<Tok>, bits: u32) -> bool {
    ||| t =~= ts!(wgpu::ShaderStages::all()) && bits == 7
    ||| t =~= ts!(wgpu::ShaderStages::VERTEX_FRAGMENT) && bits == 3
    ||| t =~= ts!(wgpu::ShaderStages::NONE) && bits == 0
    ||| t =~= ts!(wgpu::ShaderStages::VERTEX) && bits == 1
    ||| t =~= ts!(wgpu::ShaderStages::FRAGMENT) && bits == 2
    ||| t =~= ts!(wgpu::ShaderStages::COMPUTE) && bits == 4
    ||| t =~= ts!(wgpu::ShaderStages::VERTEX.union(wgpu::ShaderStages::COMPUTE)) && bits == 5
    ||| t =~= ts!(wgpu::ShaderStages::FRAGMENT.union(wgpu::ShaderStages::COMPUTE)) && bits == 6
}

fn quote_shader_stages(stages: wgpu::ShaderStages) -> (r: TokenStream)
    requires stages.bits < 8,
    ensures denotes_stages(ts_view(&r), stages.bits),
{
    if stages == wgpu::ShaderStages::all() {
        quote!(wgpu::ShaderStages::all())
    } else if stages == wgpu::ShaderStages::VERTEX_FRAGMENT {
        quote!(wgpu::ShaderStages::VERTEX_FRAGMENT)
    } else {
        let mut components = Vec::new();
        if stages.contains(wgpu::ShaderStages::VERTEX) {
            components.push(quote!(wgpu::ShaderStages::VERTEX));
        }
        if stages.contains(wgpu::ShaderStages::FRAGMENT) {
            components.push(quote!(wgpu::ShaderStages::FRAGMENT));
        }
        if stages.contains(wgpu::ShaderStages::COMPUTE) {
            components.push(quote!(wgpu::ShaderStages::COMPUTE));
        }

        proof {
            let b = stages.bits;
            assert(b < 8 ==> ((b & 1 == 1) == (b == 1 || b == 3 || b == 5 || b == 7))
                && ((b & 2 == 2) == (b == 2 || b == 3 || b == 6 || b == 7))
                && ((b & 4 == 4) == (b == 4 || b == 5 || b == 6 || b == 7))) by(bit_vector);
            reveal_with_fuel(flat, 3);
        }
        if let Some((first, remaining)) = components.split_first() {
            quote!(#first #(.union(#remaining))*)
        } else {
            quote!(wgpu::ShaderStages::NONE)
        }
    }
}
} // verus!
fn main() {}
