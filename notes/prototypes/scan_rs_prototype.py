#!/usr/bin/env python3
"""Prototype of the extractor's scanner: finds fn items, `for` loops and closures in Rust source without regex-guessing bodies."""
import sys,re
def lex(src):
    """yield (kind, text, pos): kinds: ws, comment, str, char, lifetime, ident, num, punct"""
    i=0; n=len(src)
    while i<n:
        c=src[i]
        if c.isspace():
            j=i
            while j<n and src[j].isspace(): j+=1
            yield ('ws',src[i:j],i); i=j
        elif src.startswith('//',i):
            j=src.find('\n',i); j=n if j<0 else j
            yield ('comment',src[i:j],i); i=j
        elif src.startswith('/*',i):
            depth=1; j=i+2
            while j<n and depth:
                if src.startswith('/*',j): depth+=1; j+=2
                elif src.startswith('*/',j): depth-=1; j+=2
                else: j+=1
            yield ('comment',src[i:j],i); i=j
        elif c=='"' or (c=='r' and re.match(r'r#*"',src[i:])) or (c=='b' and re.match(r'b(r#*)?"',src[i:])):
            m=re.match(r'b?r(#*)"',src[i:])
            if m:
                end='"'+m.group(1); j=src.find(end,i+len(m.group(0)))+len(end)
            else:
                j=i+1+(1 if c=='b' else 0)
                while src[j]!='"':
                    j+=2 if src[j]=='\\' else 1
                j+=1
            yield ('str',src[i:j],i); i=j
        elif c=="'":
            m=re.match(r"'(\\.[^']*|[^'\\])'",src[i:])
            if m: yield ('char',m.group(0),i); i+=len(m.group(0))
            else:
                m=re.match(r"'[A-Za-z_][A-Za-z0-9_]*",src[i:]); yield ('lifetime',m.group(0),i); i+=len(m.group(0))
        elif c.isalpha() or c=='_':
            m=re.match(r'[A-Za-z_][A-Za-z0-9_]*',src[i:]); yield ('ident',m.group(0),i); i+=len(m.group(0))
        elif c.isdigit():
            m=re.match(r'[0-9][A-Za-z0-9_.]*',src[i:]); yield ('num',m.group(0),i); i+=len(m.group(0))
        else:
            yield ('punct',c,i); i+=1
def toks(src): return [t for t in lex(src) if t[0] not in('ws','comment')]
def match_close(ts,k):
    op=ts[k][1]; cl={'(':')','[':']','{':'}'}[op]; d=0
    for j in range(k,len(ts)):
        if ts[j][0]=='punct':
            if ts[j][1]==op: d+=1
            elif ts[j][1]==cl:
                d-=1
                if d==0: return j
    raise Exception('unbalanced')
def functions(src):
    ts=toks(src); out=[]; k=0; test_start=None
    m=re.search(r'#\[cfg\(test\)\]',src)
    limit=m.start() if m else len(src)
    while k<len(ts):
        if ts[k]==('ident','fn',ts[k][2]) and ts[k][2]<limit and ts[k+1][0]=='ident':
            name=ts[k+1][1]
            j=k+2
            while not (ts[j][0]=='punct' and ts[j][1]=='{'):
                if ts[j][0]=='punct' and ts[j][1] in '([': j=match_close(ts,j)
                j+=1
            e=match_close(ts,j)
            out.append((name,k,j,e)); k=j+1   # nested fns are found too (we continue inside)
        else: k+=1
    return ts,out
def closures_and_loops(ts,b,e):
    cl=[]; lo=[]
    k=b
    while k<e:
        kind,t,pos=ts[k]
        if kind=='ident' and t in('for','while','loop') and not (ts[k-1][0]=='punct' and ts[k-1][1]=='.'):
            if t=='for' and ts[k+1][1]=='<': k+=1; continue   # for<'a> bounds
            lo.append((t,pos))
        if kind=='punct' and t=='|':
            prev=ts[k-1]
            starts = (prev[0]=='punct' and prev[1] in '(,=') or (prev[0]=='ident' and prev[1] in ('move','return'))
            if starts:
                # zero-arg closure `||` or `|args|`
                if ts[k+1][0]=='punct' and ts[k+1][1]=='|' and ts[k+1][2]==pos+1:
                    cl.append((pos,'||')); k+=2; continue
                j=k+1; depth=0
                while not (ts[j][0]=='punct' and ts[j][1]=='|' and depth==0):
                    if ts[j][0]=='punct' and ts[j][1] in '([': depth+=1
                    if ts[j][0]=='punct' and ts[j][1] in ')]': depth-=1
                    j+=1
                cl.append((pos,''.join(x[1] for x in ts[k:j+1]))); k=j+1; continue
        k+=1
    return cl,lo
if __name__=='__main__':
    for f in sys.argv[1:]:
        src=open(f).read()
        ts,fns=functions(src)
        line=lambda p: src.count('\n',0,p)+1
        print('==',f)
        for name,k,b,e in fns:
            cl,lo=closures_and_loops(ts,b,e)
            print(f'  fn {name} L{line(ts[k][2])}-{line(ts[e][2])}: loops={[(t,line(p)) for t,p in lo]} closures={[(line(p),h) for p,h in cl]}')
