use vstd::prelude::*;
extern crate proc_macro2;
use proc_macro2::{TokenStream, Literal, Span, Ident};

verus! {

pub enum Tok { T(&'static str), Id(Seq<char>), LitU(int), LitS(Seq<char>) }

#[verifier::external_type_specification] #[verifier::external_body] pub struct ExTokenStream(TokenStream);
#[verifier::external_type_specification] #[verifier::external_body] pub struct ExLiteral(Literal);
#[verifier::external_type_specification] #[verifier::external_body] pub struct ExSpan(Span);
#[verifier::external_type_specification] #[verifier::external_body] pub struct ExIdent(Ident);

pub uninterp spec fn ts_view(t: &TokenStream) -> Seq<Tok>;
pub uninterp spec fn lit_view(t: &Literal) -> Tok;
pub uninterp spec fn id_view(t: &Ident) -> Seq<char>;

pub assume_specification[ Span::call_site ]() -> Span;
pub assume_specification[ Ident::new ](s: &str, span: Span) -> (r: Ident)
    ensures id_view(&r) == s@;
pub assume_specification[ Literal::usize_unsuffixed ](n: usize) -> (r: Literal)
    ensures lit_view(&r) == Tok::LitU(n as int);

pub trait Interp {
    spec fn toks(&self) -> Seq<Tok>;
    fn interp(&self, s: &mut TokenStream)
        ensures ts_view(final(s)) == ts_view(old(s)) + self.toks();
}
impl Interp for TokenStream {
    open spec fn toks(&self) -> Seq<Tok> { ts_view(self) }
    #[verifier::external_body]
    fn interp(&self, s: &mut TokenStream) { unimplemented!() }
}
impl Interp for Literal {
    open spec fn toks(&self) -> Seq<Tok> { seq![lit_view(self)] }
    #[verifier::external_body]
    fn interp(&self, s: &mut TokenStream) { unimplemented!() }
}
impl Interp for Ident {
    open spec fn toks(&self) -> Seq<Tok> { seq![Tok::Id(id_view(self))] }
    #[verifier::external_body]
    fn interp(&self, s: &mut TokenStream) { unimplemented!() }
}
impl<T: Interp> Interp for Option<T> {
    open spec fn toks(&self) -> Seq<Tok> { match self { Some(x) => x.toks(), None => Seq::empty() } }
    #[verifier::external_body]
    fn interp(&self, s: &mut TokenStream) { unimplemented!() }
}

pub open spec fn flat(items: Seq<Seq<Tok>>, pre: Seq<Tok>, post: Seq<Tok>, sep: Seq<Tok>) -> Seq<Tok>
    decreases items.len()
{
    if items.len() == 0 { Seq::empty() }
    else if items.len() == 1 { pre + items[0] + post }
    else { flat(items.drop_last(), pre, post, sep) + sep + pre + items.last() + post }
}

pub mod shim {
    use super::*;
    #[verifier::external_body]
    pub fn new() -> (r: TokenStream) ensures ts_view(&r) == Seq::<Tok>::empty() { unimplemented!() }
    #[verifier::external_body]
    pub fn t(s: &mut TokenStream, x: &'static str) ensures ts_view(final(s)) == ts_view(old(s)).push(Tok::T(x)) { unimplemented!() }
    #[verifier::external_body]
    pub fn rep<T: Interp>(s: &mut TokenStream, v: &Vec<T>, pre: &TokenStream, post: &TokenStream, sep: &TokenStream)
        ensures ts_view(final(s)) == ts_view(old(s)) + flat(Seq::new(v@.len(), |i: int| v@[i].toks()), ts_view(pre), ts_view(post), ts_view(sep))
    { unimplemented!() }
}

} // verus!

macro_rules! quote {
    ($($tt:tt)*) => {{ let mut _s = shim::new(); quote_each!(_s $($tt)*); _s }};
}
macro_rules! quote_each {
    ($s:ident) => {};
    // repetition with separator / without
    ($s:ident # ( $($inner:tt)* ) * $($rest:tt)*) => { quote_rep!($s [] [$($inner)*] []); quote_each!($s $($rest)*); };
    ($s:ident # ( $($inner:tt)* ) $sep:tt * $($rest:tt)*) => { quote_rep!($s [] [$($inner)*] [$sep]); quote_each!($s $($rest)*); };
    ($s:ident # $v:ident $($rest:tt)*) => { Interp::interp(&$v, &mut $s); quote_each!($s $($rest)*); };
    ($s:ident ( $($inner:tt)* ) $($rest:tt)*) => { shim::t(&mut $s, "("); quote_each!($s $($inner)*); shim::t(&mut $s, ")"); quote_each!($s $($rest)*); };
    ($s:ident [ $($inner:tt)* ] $($rest:tt)*) => { shim::t(&mut $s, "["); quote_each!($s $($inner)*); shim::t(&mut $s, "]"); quote_each!($s $($rest)*); };
    ($s:ident { $($inner:tt)* } $($rest:tt)*) => { shim::t(&mut $s, "{"); quote_each!($s $($inner)*); shim::t(&mut $s, "}"); quote_each!($s $($rest)*); };
    ($s:ident $t:tt $($rest:tt)*) => { shim::t(&mut $s, stringify!($t)); quote_each!($s $($rest)*); };
}
// split inner template around the single interpolated variable: pre tokens, var, post tokens
macro_rules! quote_rep {
    ($s:ident [$($pre:tt)*] [# $v:ident $($post:tt)*] [$($sep:tt)*]) => {{
        let mut _pre = shim::new(); quote_each!(_pre $($pre)*);
        let mut _post = shim::new(); quote_each!(_post $($post)*);
        let mut _sep = shim::new(); quote_each!(_sep $($sep)*);
        shim::rep(&mut $s, &$v, &_pre, &_post, &_sep);
    }};
    ($s:ident [$($pre:tt)*] [$t:tt $($more:tt)*] [$($sep:tt)*]) => { quote_rep!($s [$($pre)* $t] [$($more)*] [$($sep)*]) };
}
macro_rules! ts {
    ($($tt:tt)*) => { ts_each!([Seq::<Tok>::empty()] $($tt)*) };
}
macro_rules! ts_each {
    ([$acc:expr]) => { $acc };
    ([$acc:expr] # $v:ident $($rest:tt)*) => { ts_each!([$acc.add($v)] $($rest)*) };
    ([$acc:expr] ( $($inner:tt)* ) $($rest:tt)*) => { ts_each!([ts_each!([$acc.push(Tok::T("("))] $($inner)*).push(Tok::T(")"))] $($rest)*) };
    ([$acc:expr] [ $($inner:tt)* ] $($rest:tt)*) => { ts_each!([ts_each!([$acc.push(Tok::T("["))] $($inner)*).push(Tok::T("]"))] $($rest)*) };
    ([$acc:expr] { $($inner:tt)* } $($rest:tt)*) => { ts_each!([ts_each!([$acc.push(Tok::T("{"))] $($inner)*).push(Tok::T("}"))] $($rest)*) };
    ([$acc:expr] $t:tt $($rest:tt)*) => { ts_each!([$acc.push(Tok::T(stringify!($t)))] $($rest)*) };
}

verus! {

pub struct B { pub idx: u32, pub name: String }

pub open spec fn entry_toks(b: &B) -> Seq<Tok> {
    let i = seq![Tok::LitU(b.idx as int)];
    let n = seq![Tok::Id(b.name@)];
    ts!(wgpu::BindGroupEntry { binding: #i, resource: wgpu::BindingResource::Buffer(bindings.#n), })
}

fn entries(v: &Vec<B>) -> (r: TokenStream)
    ensures ts_view(&r) == ts!(entries: &) + seq![Tok::T("[")] + flat(Seq::new(v@.len(), |i: int| entry_toks(&v@[i])), Seq::empty(), Seq::empty(), ts!(,)) + seq![Tok::T("]")]
{
    let entries: Vec<TokenStream> = v.iter().map(|b| -> (o: TokenStream) ensures ts_view(&o) == entry_toks(b) {
        let binding_index = Literal::usize_unsuffixed(b.idx as usize);
        let field_name = Ident::new(&b.name, Span::call_site());
        quote! {
            wgpu::BindGroupEntry {
                binding: #binding_index,
                resource: wgpu::BindingResource::Buffer(bindings.#field_name),
            }
        }
    }).collect();
    let r = quote!(entries: &[ #(#entries),* ]);
    assert(Seq::new(entries@.len(), |i: int| entries@[i].toks()) =~= Seq::new(v@.len(), |i: int| entry_toks(&v@[i])));
    r
}

} // verus!
fn main() {}
