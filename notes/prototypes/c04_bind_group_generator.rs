#![feature(allocator_api)]
#![recursion_limit = "4096"]
use vstd::prelude::*;
use vstd::std_specs::iter::IteratorSpec;
use std::collections::{BTreeMap, HashSet};
extern crate naga;
extern crate proc_macro2;
use proc_macro2::{TokenStream, Literal, Span, Ident};
extern crate indexmap;
extern crate rustc_hash;
use std::collections::btree_map::Entry;

verus! {

macro_rules! opaque { ($($n:ident = $t:ty;)*) => { $( #[verifier::external_type_specification] #[verifier::external_body] pub struct $n($t); )* } }
macro_rules! transp { ($($n:ident = $t:ty;)*) => { $( #[verifier::external_type_specification] pub struct $n($t); )* } }
macro_rules! opaque1 { ($($n:ident = $t:ident;)*) => { $( #[verifier::external_type_specification] #[verifier::external_body] #[verifier::accept_recursive_types(T)] pub struct $n<T>(naga::$t<T>); )* } }

opaque1!{ ExHandle = Handle; ExRange = Range; ExArena = Arena; ExUniqueArena = UniqueArena; }

#[verifier::external_type_specification]
#[verifier::external_body]
#[verifier::accept_recursive_types(K)]
#[verifier::accept_recursive_types(V)]
#[verifier::accept_recursive_types(S)]
pub struct ExIndexMap<K, V, S>(indexmap::IndexMap<K, V, S>);

#[verifier::external_type_specification]
#[verifier::external_body]
#[verifier::accept_recursive_types(H)]
pub struct ExBuildHasherDefault<H>(core::hash::BuildHasherDefault<H>);

#[verifier::external_type_specification]
#[verifier::external_body]
#[verifier::reject_recursive_types(K)]
#[verifier::reject_recursive_types(V)]
#[verifier::reject_recursive_types(A)]
pub struct ExEntry<'a, K: 'a, V: 'a, A: core::alloc::Allocator + Clone>(Entry<'a, K, V, A>);

pub uninterp spec fn ekey<'a, K, V, A: core::alloc::Allocator + Clone>(e: Entry<'a, K, V, A>) -> K;
pub uninterp spec fn evalue<'a, K, V, A: core::alloc::Allocator + Clone>(e: Entry<'a, K, V, A>) -> Option<V>;
pub uninterp spec fn efinal<'a, K, V, A: core::alloc::Allocator + Clone>(e: Entry<'a, K, V, A>) -> Option<V>;

pub assume_specification<'a, K: Ord, V, A: core::alloc::Allocator + Clone>[ BTreeMap::<K, V, A>::entry ](m: &'a mut BTreeMap<K, V, A>, key: K) -> (e: Entry<'a, K, V, A>)
    ensures
        ekey(e) == key,
        evalue(e) == old(m)@.get(key),
        final(m)@ == (match efinal(e) { Some(v) => old(m)@.insert(key, v), None => old(m)@.remove(key) });

pub assume_specification<'a, K: Ord, V, A: core::alloc::Allocator + Clone>[ Entry::<'a, K, V, A>::or_insert ](e: Entry<'a, K, V, A>, default: V) -> (r: &'a mut V)
    ensures
        *r == (match evalue(e) { Some(v) => v, None => default }),
        efinal(e) == Some(*final(r));

pub uninterp spec fn arena_seq<T>(a: &naga::Arena<T>) -> Seq<T>;
pub uninterp spec fn handle_index<T>(h: naga::Handle<T>) -> int;

pub assume_specification<'a, T>[ naga::Arena::<T>::iter ](a: &'a naga::Arena<T>) -> (r: impl DoubleEndedIterator<Item = (naga::Handle<T>, &'a T)>)
    ensures r.obeys_prophetic_iter_laws(), r.decrease() is Some,
            r.remaining().len() == arena_seq(a).len(),
            forall|i: int| 0 <= i < arena_seq(a).len() ==> handle_index((#[trigger] r.remaining()[i]).0) == i && *r.remaining()[i].1 == arena_seq(a)[i];

pub assume_specification<T>[ <naga::Arena<T> as core::ops::Index<naga::Handle<T>>>::index ](a: &naga::Arena<T>, h: naga::Handle<T>) -> (r: &T)
    ensures *r == arena_seq(a)[handle_index(h)];


pub broadcast axiom fn axiom_arena_index_req<T>(a: naga::Arena<T>, h: naga::Handle<T>)
    ensures #[trigger] vstd::std_specs::core::IndexSpec::index_req(&a, &h) == (0 <= handle_index(h) < arena_seq(&a).len());

opaque!{
  Exnaga_ArraySize = naga::ArraySize;
  Exnaga_Binding = naga::Binding;
  Exnaga_ImageClass = naga::ImageClass;
  Exnaga_ImageDimension = naga::ImageDimension;
  Exnaga_Scalar = naga::Scalar;
  ExFxHasher = rustc_hash::FxHasher;
  ExStorageAccess = naga::StorageAccess;
  Exnaga_BinaryOperator = naga::BinaryOperator;
  Exnaga_DerivativeAxis = naga::DerivativeAxis;
  Exnaga_DerivativeControl = naga::DerivativeControl;
  Exnaga_ImageQuery = naga::ImageQuery;
  Exnaga_Literal = naga::Literal;
  Exnaga_MathFunction = naga::MathFunction;
  Exnaga_RelationalFunction = naga::RelationalFunction;
  Exnaga_SampleLevel = naga::SampleLevel;
  Exnaga_ScalarKind = naga::ScalarKind;
  Exnaga_SwizzleComponent = naga::SwizzleComponent;
  Exnaga_UnaryOperator = naga::UnaryOperator;
  Exnaga_VectorSize = naga::VectorSize;
  ExBlock = naga::Block;
  ExBarrier = naga::Barrier;
  ExAtomicFunction = naga::AtomicFunction;
  ExRayQueryFunction = naga::RayQueryFunction;
  ExGatherMode = naga::GatherMode;
  ExSubgroupOperation = naga::SubgroupOperation;
  ExCollectiveOperation = naga::CollectiveOperation;
  ExSwitchValue = naga::SwitchValue;
  ExSpecialTypes = naga::SpecialTypes;
  ExConstant = naga::Constant;
  ExOverride = naga::Override;
  ExDiagnosticFilterNode = naga::diagnostic_filter::DiagnosticFilterNode;
  ExLocalVariable = naga::LocalVariable;
  ExEarlyDepthTest = naga::EarlyDepthTest;
}
transp!{
  ExType = naga::Type;
  ExTypeInner = naga::TypeInner;
  ExStructMember = naga::StructMember;
  ExFunctionArgument = naga::FunctionArgument;
  ExFunctionResult = naga::FunctionResult;
  ExResourceBinding = naga::ResourceBinding;
  ExAddressSpace = naga::AddressSpace;
  ExStatement = naga::Statement;
  ExSwitchCase = naga::SwitchCase;
  ExModule = naga::Module;
  ExFunction = naga::Function;
  ExEntryPoint = naga::EntryPoint;
  ExGlobalVariable = naga::GlobalVariable;
  ExShaderStage = naga::ShaderStage;
  ExExpression = naga::Expression;
}







pub uninterp spec fn uarena_seq<T>(a: &naga::UniqueArena<T>) -> Seq<T>;
pub enum Tok { T(&'static str), Id(Seq<char>), LitU(int), LitS(Seq<char>) }

#[verifier::external_type_specification] #[verifier::external_body] pub struct ExTokenStream(TokenStream);
#[verifier::external_type_specification] #[verifier::external_body] pub struct ExLiteral(Literal);
#[verifier::external_type_specification] #[verifier::external_body] pub struct ExSpan(Span);
#[verifier::external_type_specification] #[verifier::external_body] pub struct ExIdent(Ident);

pub uninterp spec fn ts_view(t: &TokenStream) -> Seq<Tok>;
pub uninterp spec fn lit_view(t: &Literal) -> Tok;
pub uninterp spec fn id_view(t: &Ident) -> Seq<char>;

pub assume_specification[ Span::call_site ]() -> Span;
pub assume_specification[ Ident::new ](s: &str, span: Span) -> (r: Ident)
    ensures id_view(&r) == s@;
pub assume_specification[ Literal::usize_unsuffixed ](n: usize) -> (r: Literal)
    ensures lit_view(&r) == Tok::LitU(n as int);

pub trait Interp {
    spec fn toks(&self) -> Seq<Tok>;
    fn interp(&self, s: &mut TokenStream)
        ensures ts_view(final(s)) == ts_view(old(s)) + self.toks();
}
impl Interp for TokenStream {
    open spec fn toks(&self) -> Seq<Tok> { ts_view(self) }
    #[verifier::external_body]
    fn interp(&self, s: &mut TokenStream) { unimplemented!() }
}
impl Interp for Literal {
    open spec fn toks(&self) -> Seq<Tok> { seq![lit_view(self)] }
    #[verifier::external_body]
    fn interp(&self, s: &mut TokenStream) { unimplemented!() }
}
impl Interp for Ident {
    open spec fn toks(&self) -> Seq<Tok> { seq![Tok::Id(id_view(self))] }
    #[verifier::external_body]
    fn interp(&self, s: &mut TokenStream) { unimplemented!() }
}
impl<T: Interp> Interp for Option<T> {
    open spec fn toks(&self) -> Seq<Tok> { match self { Some(x) => x.toks(), None => Seq::empty() } }
    #[verifier::external_body]
    fn interp(&self, s: &mut TokenStream) { unimplemented!() }
}

pub open spec fn flat(items: Seq<Seq<Tok>>, pre: Seq<Tok>, post: Seq<Tok>, sep: Seq<Tok>) -> Seq<Tok>
    decreases items.len()
{
    if items.len() == 0 { Seq::empty() }
    else if items.len() == 1 { pre + items[0] + post }
    else { flat(items.drop_last(), pre, post, sep) + sep + pre + items.last() + post }
}

pub mod shim {
    use super::*;
    #[verifier::external_body]
    pub fn new() -> (r: TokenStream) ensures ts_view(&r) == Seq::<Tok>::empty() { unimplemented!() }
    #[verifier::external_body]
    pub fn t(s: &mut TokenStream, x: &'static str) ensures ts_view(final(s)) == ts_view(old(s)).push(Tok::T(x)) { unimplemented!() }
    #[verifier::external_body]
    pub fn rep<T: Interp>(s: &mut TokenStream, v: &Vec<T>, pre: &TokenStream, post: &TokenStream, sep: &TokenStream)
        ensures ts_view(final(s)) == ts_view(old(s)) + flat(Seq::new(v@.len(), |i: int| v@[i].toks()), ts_view(pre), ts_view(post), ts_view(sep))
    { unimplemented!() }
}


pub trait RepSrc { type Item: Interp; fn as_rep_slice(&self) -> (r: &[Self::Item]) ensures r@ == self.rep_view(); spec fn rep_view(&self) -> Seq<Self::Item>; }
impl<T: Interp> RepSrc for Vec<T> { type Item = T; open spec fn rep_view(&self) -> Seq<T> { self@ } #[verifier::external_body] fn as_rep_slice(&self) -> (r: &[T]) { self.as_slice() } }
impl<'a, T: Interp> RepSrc for &'a [T] { type Item = T; open spec fn rep_view(&self) -> Seq<T> { (*self)@ } #[verifier::external_body] fn as_rep_slice(&self) -> (r: &[T]) { *self } }
pub mod shim2 {
    use super::*;
    #[verifier::external_body]
    pub fn rep_slice<T: Interp>(s: &mut TokenStream, v: &[T], pre: &TokenStream, post: &TokenStream, sep: &TokenStream)
        ensures ts_view(final(s)) == ts_view(old(s)) + flat(Seq::new(v@.len(), |i: int| v@[i].toks()), ts_view(pre), ts_view(post), ts_view(sep))
    { unimplemented!() }
}
impl<'a, T: Interp> Interp for &'a T {
    open spec fn toks(&self) -> Seq<Tok> { (**self).toks() }
    #[verifier::external_body]
    fn interp(&self, s: &mut TokenStream) { unimplemented!() }
}

pub mod wgpu {
    use vstd::prelude::*;
    verus!{
    #[derive(Clone, Copy)]
    pub struct ShaderStages { pub bits: u32 }
    impl ShaderStages {
        pub const NONE: ShaderStages = ShaderStages { bits: 0 };
        pub const VERTEX: ShaderStages = ShaderStages { bits: 1 };
        pub const FRAGMENT: ShaderStages = ShaderStages { bits: 2 };
        pub const COMPUTE: ShaderStages = ShaderStages { bits: 4 };
        pub const VERTEX_FRAGMENT: ShaderStages = ShaderStages { bits: 3 };
        pub fn all() -> (r: ShaderStages) ensures r.bits == 7 { ShaderStages { bits: 7 } }
        pub fn contains(&self, other: ShaderStages) -> (r: bool) ensures r == (self.bits & other.bits == other.bits) { self.bits & other.bits == other.bits }
        pub fn union(self, other: ShaderStages) -> (r: ShaderStages) ensures r.bits == self.bits | other.bits { ShaderStages { bits: self.bits | other.bits } }
    }
    impl vstd::std_specs::cmp::PartialEqSpecImpl for ShaderStages {
        open spec fn obeys_eq_spec() -> bool { true }
        open spec fn eq_spec(&self, other: &ShaderStages) -> bool { self.bits == other.bits }
    }
    impl PartialEq for ShaderStages {
        fn eq(&self, other: &ShaderStages) -> (r: bool) ensures r == (self.bits == other.bits) { self.bits == other.bits }
    }
    }
}
} // verus!

macro_rules! quote {
    ($($tt:tt)*) => {{ let mut _s = shim::new(); quote_each!(_s $($tt)*); _s }};
}
macro_rules! quote_each {
    ($s:ident) => {};
    // repetition with separator / without
    ($s:ident # ( $($inner:tt)* ) * $($rest:tt)*) => { quote_rep!($s [] [$($inner)*] []); quote_each!($s $($rest)*); };
    ($s:ident # ( $($inner:tt)* ) $sep:tt * $($rest:tt)*) => { quote_rep!($s [] [$($inner)*] [$sep]); quote_each!($s $($rest)*); };
    ($s:ident # $v:ident $($rest:tt)*) => { Interp::interp(&$v, &mut $s); quote_each!($s $($rest)*); };
    ($s:ident __LP__ $($rest:tt)*) => { shim::t(&mut $s, "("); quote_each!($s $($rest)*); };
    ($s:ident __RP__ $($rest:tt)*) => { shim::t(&mut $s, ")"); quote_each!($s $($rest)*); };
    ($s:ident __LB__ $($rest:tt)*) => { shim::t(&mut $s, "["); quote_each!($s $($rest)*); };
    ($s:ident __RB__ $($rest:tt)*) => { shim::t(&mut $s, "]"); quote_each!($s $($rest)*); };
    ($s:ident __LC__ $($rest:tt)*) => { shim::t(&mut $s, "{"); quote_each!($s $($rest)*); };
    ($s:ident __RC__ $($rest:tt)*) => { shim::t(&mut $s, "}"); quote_each!($s $($rest)*); };
    ($s:ident ( $($inner:tt)* ) $($rest:tt)*) => { shim::t(&mut $s, "("); quote_each!($s $($inner)*); shim::t(&mut $s, ")"); quote_each!($s $($rest)*); };
    ($s:ident [ $($inner:tt)* ] $($rest:tt)*) => { shim::t(&mut $s, "["); quote_each!($s $($inner)*); shim::t(&mut $s, "]"); quote_each!($s $($rest)*); };
    ($s:ident { $($inner:tt)* } $($rest:tt)*) => { shim::t(&mut $s, "{"); quote_each!($s $($inner)*); shim::t(&mut $s, "}"); quote_each!($s $($rest)*); };
    ($s:ident $t:tt $($rest:tt)*) => { shim::t(&mut $s, stringify!($t)); quote_each!($s $($rest)*); };
}
// split inner template around the single interpolated variable: pre tokens, var, post tokens
macro_rules! quote_rep {
    ($s:ident [$($pre:tt)*] [# $v:ident $($post:tt)*] [$($sep:tt)*]) => {{
        let mut _pre = shim::new(); quote_each!(_pre $($pre)*);
        let mut _post = shim::new(); quote_each!(_post $($post)*);
        let mut _sep = shim::new(); quote_each!(_sep $($sep)*);
        shim2::rep_slice(&mut $s, RepSrc::as_rep_slice(&$v), &_pre, &_post, &_sep);
    }};
    ($s:ident [$($pre:tt)*] [( $($g:tt)* ) $($more:tt)*] [$($sep:tt)*]) => { quote_rep!($s [$($pre)*] [__LP__ $($g)* __RP__ $($more)*] [$($sep)*]) };
    ($s:ident [$($pre:tt)*] [[ $($g:tt)* ] $($more:tt)*] [$($sep:tt)*]) => { quote_rep!($s [$($pre)*] [__LB__ $($g)* __RB__ $($more)*] [$($sep)*]) };
    ($s:ident [$($pre:tt)*] [{ $($g:tt)* } $($more:tt)*] [$($sep:tt)*]) => { quote_rep!($s [$($pre)*] [__LC__ $($g)* __RC__ $($more)*] [$($sep)*]) };
    ($s:ident [$($pre:tt)*] [$t:tt $($more:tt)*] [$($sep:tt)*]) => { quote_rep!($s [$($pre)* $t] [$($more)*] [$($sep)*]) };
}
macro_rules! ts {
    ($($tt:tt)*) => { ts_each!([Seq::<Tok>::empty()] $($tt)*) };
}
macro_rules! ts_each {
    ([$acc:expr]) => { $acc };
    ([$acc:expr] # $v:ident $($rest:tt)*) => { ts_each!([$acc.add($v)] $($rest)*) };
    ([$acc:expr] ( $($inner:tt)* ) $($rest:tt)*) => { ts_each!([ts_each!([$acc.push(Tok::T("("))] $($inner)*).push(Tok::T(")"))] $($rest)*) };
    ([$acc:expr] [ $($inner:tt)* ] $($rest:tt)*) => { ts_each!([ts_each!([$acc.push(Tok::T("["))] $($inner)*).push(Tok::T("]"))] $($rest)*) };
    ([$acc:expr] { $($inner:tt)* } $($rest:tt)*) => { ts_each!([ts_each!([$acc.push(Tok::T("{"))] $($inner)*).push(Tok::T("}"))] $($rest)*) };
    ([$acc:expr] $t:tt $($rest:tt)*) => { ts_each!([$acc.push(Tok::T(stringify!($t)))] $($rest)*) };
}


// ---- format!/panic! stand-ins ----
macro_rules! format {
    ($fmt:literal, $a:expr $(,)?) => { fmt_shim::format1($fmt, FmtArg::view_of(&$a)) };
    ($fmt:literal, $a:expr, $b:expr $(,)?) => { fmt_shim::format2($fmt, FmtArg::view_of(&$a), FmtArg::view_of(&$b)) };
}
macro_rules! panic {
    ($($t:tt)*) => { fmt_shim::panic_shim() };
}

verus! {

pub enum FmtV { U(int), S(Seq<char>) }
pub struct FmtHandle { pub v: Ghost<FmtV> }
pub trait FmtArg { spec fn fview(&self) -> FmtV; fn view_of(&self) -> (r: FmtHandle) ensures r.v@ == self.fview(); }
impl FmtArg for u32 { open spec fn fview(&self) -> FmtV { FmtV::U(*self as int) } fn view_of(&self) -> (r: FmtHandle) { FmtHandle { v: Ghost(self.fview()) } } }
impl FmtArg for usize { open spec fn fview(&self) -> FmtV { FmtV::U(*self as int) } fn view_of(&self) -> (r: FmtHandle) { FmtHandle { v: Ghost(self.fview()) } } }
impl FmtArg for String { open spec fn fview(&self) -> FmtV { FmtV::S(self@) } fn view_of(&self) -> (r: FmtHandle) { FmtHandle { v: Ghost(self.fview()) } } }
impl FmtArg for Literal { open spec fn fview(&self) -> FmtV { FmtV::S(Seq::empty()) } fn view_of(&self) -> (r: FmtHandle) { FmtHandle { v: Ghost(self.fview()) } } }
impl<'a> FmtArg for &'a str { open spec fn fview(&self) -> FmtV { FmtV::S((*self)@) } fn view_of(&self) -> (r: FmtHandle) { FmtHandle { v: Ghost(self.fview()) } } }
pub uninterp spec fn fmt1(tpl: &str, a: FmtV) -> Seq<char>;
pub uninterp spec fn fmt2(tpl: &str, a: FmtV, b: FmtV) -> Seq<char>;
pub mod fmt_shim {
    use super::*;
    #[verifier::external_body]
    pub fn format1(tpl: &'static str, a: FmtHandle) -> (r: String) ensures r@ == fmt1(tpl, a.v@) { unimplemented!() }
    #[verifier::external_body]
    pub fn format2(tpl: &'static str, a: FmtHandle, b: FmtHandle) -> (r: String) ensures r@ == fmt2(tpl, a.v@, b.v@) { unimplemented!() }
    #[verifier::external_body]
    pub fn panic_shim() -> ! requires false { unimplemented!() }
}
impl Interp for String {
    open spec fn toks(&self) -> Seq<Tok> { seq![Tok::LitS(self@)] }
    #[verifier::external_body]
    fn interp(&self, s: &mut TokenStream) { unimplemented!() }
}

pub struct GroupData<'a> {
    pub bindings: Vec<GroupBinding<'a>>,
}
pub struct GroupBinding<'a> {
    pub name: Option<String>,
    pub binding_index: u32,
    pub binding_type: &'a naga::Type,
    pub address_space: naga::AddressSpace,
}

fn indexed_name_to_ident(name: &str, index: u32) -> (r: Ident)
    ensures id_view(&r) == fmt2("{}{}", FmtV::S(name@), FmtV::U(index as int)),
{
    Ident::new(&format!("{}{}", name, index), Span::call_site())
}

// ---------------- spec for bind_group (C04) ----------------
pub enum Kind { Buffer, Texture, Sampler, Unsupported }
pub open spec fn kind_of(t: &naga::Type) -> Kind {
    match t.inner {
        naga::TypeInner::Struct { .. } | naga::TypeInner::Array { .. } | naga::TypeInner::Scalar { .. }
        | naga::TypeInner::Vector { .. } | naga::TypeInner::Matrix { .. } => Kind::Buffer,
        naga::TypeInner::Image { .. } => Kind::Texture,
        naga::TypeInner::Sampler { .. } => Kind::Sampler,
        _ => Kind::Unsupported,
    }
}
pub open spec fn binding_ok(b: &GroupBinding) -> bool { b.name is Some && kind_of(b.binding_type) != Kind::Unsupported }
pub open spec fn resource_toks(b: &GroupBinding) -> Seq<Tok> {
    let n = seq![Tok::Id(b.name->0@)];
    match kind_of(b.binding_type) {
        Kind::Buffer => ts!(wgpu::BindingResource::Buffer(bindings.#n)),
        Kind::Texture => ts!(wgpu::BindingResource::TextureView(bindings.#n)),
        _ => ts!(wgpu::BindingResource::Sampler(bindings.#n)),
    }
}
pub open spec fn entry_toks(b: &GroupBinding) -> Seq<Tok> {
    let i = seq![Tok::LitU(b.binding_index as int)];
    let r = resource_toks(b);
    ts!(wgpu::BindGroupEntry { binding: #i, resource: #r, })
}
pub open spec fn name_id(prefix: &str, n: u32) -> Seq<Tok> { seq![Tok::Id(fmt2("{}{}", FmtV::S(prefix@), FmtV::U(n as int)))] }
pub open spec fn bind_group_toks(group_no: u32, bs: Seq<GroupBinding>) -> Seq<Tok> {
    let bg = name_id("BindGroup", group_no);
    let bgl = name_id("BindGroupLayout", group_no);
    let ld = name_id("LAYOUT_DESCRIPTOR", group_no);
    let label = seq![Tok::LitS(fmt1("BindGroup{}", FmtV::U(group_no as int)))];
    let no = seq![Tok::LitU(group_no as int)];
    let entries = flat(Seq::new(bs.len(), |i: int| entry_toks(&bs[i])), Seq::empty(), Seq::empty(), ts!(,));
    ts!(
        impl #bg {
            pub fn get_bind_group_layout(device: &wgpu::Device) -> wgpu::BindGroupLayout {
                device.create_bind_group_layout(&#ld)
            }

            pub fn from_bindings(device: &wgpu::Device, bindings: #bgl) -> Self {
                let bind_group_layout = device.create_bind_group_layout(&#ld);
                let bind_group = device.create_bind_group(&wgpu::BindGroupDescriptor {
                    layout: &bind_group_layout,
                    entries: &[
                        #entries
                    ],
                    label: Some(#label),
                });
                Self(bind_group)
            }

            pub fn set<P: SetBindGroup>(&self, pass: &mut P) {
                pass.set_bind_group(#no, &self.0, &[]);
            }
        }
    )
}

fn bind_group(group_no: u32, group: &GroupData) -> (r: TokenStream)
    requires forall|i: int| 0 <= i < group.bindings@.len() ==> binding_ok(&#[trigger] group.bindings@[i]),
    ensures ts_view(&r) == bind_group_toks(group_no, group.bindings@),
{
    let entries: Vec<_> = group
        .bindings
        .iter()
        .map(|binding| -> (o: TokenStream) requires binding_ok(binding) ensures ts_view(&o) == entry_toks(binding) {
            let binding_index = Literal::usize_unsuffixed(binding.binding_index as usize);
            let binding_name = binding.name.as_ref().unwrap();
            let field_name = Ident::new(binding.name.as_ref().unwrap(), Span::call_site());
            let resource_type = match binding.binding_type.inner {
                naga::TypeInner::Struct { .. }
                | naga::TypeInner::Array { .. }
                | naga::TypeInner::Scalar { .. }
                | naga::TypeInner::Vector { .. }
                | naga::TypeInner::Matrix { .. } => {
                    quote!(wgpu::BindingResource::Buffer(bindings.#field_name))
                }
                naga::TypeInner::Image { .. } => {
                    quote!(wgpu::BindingResource::TextureView(bindings.#field_name))
                }
                naga::TypeInner::Sampler { .. } => {
                    quote!(wgpu::BindingResource::Sampler(bindings.#field_name))
                }
                // TODO: Better error handling.
                ref inner => panic!(
                    "Failed to generate BindingType for `{inner:?}` of '{binding_name}' at index {binding_index}.",
                ),
            };

            quote! {
                wgpu::BindGroupEntry {
                    binding: #binding_index,
                    resource: #resource_type,
                }
            }
        })
        .collect();

    proof {
        assert(Seq::new(entries@.len(), |i: int| entries@[i].toks()) =~= Seq::new(group.bindings@.len(), |i: int| entry_toks(&group.bindings@[i])));
    }
    let bind_group_name = indexed_name_to_ident("BindGroup", group_no);
    let bind_group_layout_name = indexed_name_to_ident("BindGroupLayout", group_no);

    let layout_descriptor_name = indexed_name_to_ident("LAYOUT_DESCRIPTOR", group_no);

    let label = format!("BindGroup{}", group_no);

    let group_no = Literal::usize_unsuffixed(group_no as usize);

    quote! {
        impl #bind_group_name {
            pub fn get_bind_group_layout(device: &wgpu::Device) -> wgpu::BindGroupLayout {
                device.create_bind_group_layout(&#layout_descriptor_name)
            }

            pub fn from_bindings(device: &wgpu::Device, bindings: #bind_group_layout_name) -> Self {
                let bind_group_layout = device.create_bind_group_layout(&#layout_descriptor_name);
                let bind_group = device.create_bind_group(&wgpu::BindGroupDescriptor {
                    layout: &bind_group_layout,
                    entries: &[
                        #(#entries),*
                    ],
                    label: Some(#label),
                });
                Self(bind_group)
            }

            pub fn set<P: SetBindGroup>(&self, pass: &mut P) {
                pass.set_bind_group(#group_no, &self.0, &[]);
            }
        }
    }
}

} // verus!
fn main() {}
