#![feature(allocator_api)]
use vstd::prelude::*;
use std::collections::BTreeMap;
use std::collections::btree_map::Entry;
verus! {

#[verifier::external_type_specification]
#[verifier::external_body]
#[verifier::reject_recursive_types(K)]
#[verifier::reject_recursive_types(V)]
#[verifier::reject_recursive_types(A)]
pub struct ExEntry<'a, K: 'a, V: 'a, A: core::alloc::Allocator + Clone>(Entry<'a, K, V, A>);

pub uninterp spec fn ekey<'a, K, V, A: core::alloc::Allocator + Clone>(e: Entry<'a, K, V, A>) -> K;
pub uninterp spec fn evalue<'a, K, V, A: core::alloc::Allocator + Clone>(e: Entry<'a, K, V, A>) -> Option<V>;
pub uninterp spec fn efinal<'a, K, V, A: core::alloc::Allocator + Clone>(e: Entry<'a, K, V, A>) -> Option<V>;

pub assume_specification<'a, K: Ord, V, A: core::alloc::Allocator + Clone>[ BTreeMap::<K, V, A>::entry ](m: &'a mut BTreeMap<K, V, A>, key: K) -> (e: Entry<'a, K, V, A>)
    ensures
        ekey(e) == key,
        evalue(e) == old(m)@.get(key),
        final(m)@ == (match efinal(e) { Some(v) => old(m)@.insert(key, v), None => old(m)@.remove(key) });

pub assume_specification<'a, K: Ord, V, A: core::alloc::Allocator + Clone>[ Entry::<'a, K, V, A>::or_insert ](e: Entry<'a, K, V, A>, default: V) -> (r: &'a mut V)
    ensures
        *r == (match evalue(e) { Some(v) => v, None => default }),
        efinal(e) == Some(*final(r));

fn f(m: &mut BTreeMap<u32, u32>, k: u32)
    ensures final(m)@.contains_key(k),
            final(m)@[k] == (if old(m)@.contains_key(k) { old(m)@[k] | 4 } else { 4u32 }),
            forall|j: u32| j != k ==> (final(m)@.contains_key(j) == old(m)@.contains_key(j)) && (old(m)@.contains_key(j) ==> final(m)@[j] == old(m)@[j]),
{
    let e = m.entry(k).or_insert(0);
    *e = *e | 4;
    assert(0u32 | 4 == 4) by(bit_vector);
}
}
fn main() {}
