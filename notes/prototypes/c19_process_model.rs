use vstd::prelude::*;
verus! {

// ---- environment model of std::process / std::io used by pretty_print_rustfmt ----
pub mod process_model {
    use vstd::prelude::*;
    verus!{
    pub struct Stdio { pub k: u8 }
    impl Stdio {
        pub fn piped() -> Stdio { Stdio { k: 0 } }
        pub fn null() -> Stdio { Stdio { k: 1 } }
    }
    #[derive(Debug)]
    pub struct IoError { pub code: i32 }
    pub struct ExitStatus { pub ok: bool }
    impl ExitStatus { pub fn success(&self) -> (r: bool) ensures r == self.ok { self.ok } }
    pub struct Output { pub status: ExitStatus, pub stdout: Vec<u8>, pub stderr: Vec<u8> }
    pub struct ChildStdin { pub fd: i32 }
    impl ChildStdin {
        // may fail (e.g. EPIPE) -- nothing is promised
        #[verifier::external_body]
        pub fn write_all(&mut self, buf: &[u8]) -> Result<(), IoError> { unimplemented!() }
    }
    pub struct Child { pub stdin: Option<ChildStdin> }
    impl Child {
        #[verifier::external_body]
        pub fn wait_with_output(self) -> Result<Output, IoError> { unimplemented!() }
    }
    pub struct Command { pub stdin_piped: bool }
    impl Command {
        #[verifier::external_body]
        pub fn new(program: &str) -> (r: Command) ensures !r.stdin_piped { unimplemented!() }
        #[verifier::external_body]
        pub fn arg(&mut self, a: &str) -> (r: &mut Command) ensures *r == *old(self), *final(self) == *final(r) { unimplemented!() }
        #[verifier::external_body]
        pub fn stdin(&mut self, s: Stdio) -> (r: &mut Command) ensures *final(self) == *final(r) { unimplemented!() }
        #[verifier::external_body]
        pub fn stdout(&mut self, s: Stdio) -> (r: &mut Command) ensures *r == *old(self), *final(self) == *final(r) { unimplemented!() }
        #[verifier::external_body]
        pub fn stderr(&mut self, s: Stdio) -> (r: &mut Command) ensures *r == *old(self), *final(self) == *final(r) { unimplemented!() }
        // may fail (formatter missing)
        #[verifier::external_body]
        pub fn spawn(&mut self) -> Result<Child, IoError> { unimplemented!() }
    }
    }
}
use process_model::{Command, Stdio};
pub assume_specification [String::as_bytes] (s: &String) -> &[u8];

pub struct TokenStream { pub x: u8 }
pub uninterp spec fn ts_string(t: &TokenStream) -> Seq<char>;
impl TokenStream {
    #[verifier::external_body]
    pub fn to_string(&self) -> (r: String) ensures r@ == ts_string(self) { unimplemented!() }
}
pub uninterp spec fn utf8(b: Seq<u8>) -> Option<Seq<char>>;
#[verifier::external_body]
pub fn string_from_utf8(v: Vec<u8>) -> (r: Result<String, ()>)
    ensures match r { Ok(s) => utf8(v@) == Some(s@), Err(_) => utf8(v@) is None }
{ unimplemented!() }

// candidate repaired text (the pinned text has write_all(..).unwrap(), wait_with_output().unwrap(), from_utf8(..).unwrap())
fn pretty_print_rustfmt(tokens: TokenStream) -> (r: String)
    ensures r@ == ts_string(&tokens) || (exists|out: Seq<u8>| out.len() > 0 && utf8(out) == Some(r@)),
{
    let value = tokens.to_string();
    // TODO: Return errors?
    if let Ok(mut proc) = Command::new("rustfmt")
        .arg("--emit=stdout")
        .stdin(Stdio::piped())
        .stdout(Stdio::piped())
        .stderr(Stdio::null())
        .spawn()
    {
        // The formatter may exit without reading its input, so ignore write errors.
        let written = match proc.stdin.as_mut() {
            Some(stdin) => stdin.write_all(value.as_bytes()).is_ok(),
            None => false,
        };
        if let Ok(output) = proc.wait_with_output() {
            if written && output.status.success() && !output.stdout.is_empty() {
                if let Ok(formatted) = string_from_utf8(output.stdout) {
                    return formatted;
                }
            }
        }
    }
    value
}
}
fn main() {}
