use vstd::prelude::*;
use vstd::std_specs::iter::IteratorSpec;
use std::collections::BTreeMap;
verus! {

pub open spec fn range_seq(lo: int, hi: int) -> Seq<usize> {
    Seq::new(if hi >= lo { (hi - lo) as nat } else { 0 }, |i: int| (lo + i) as usize)
}

pub trait ShimIterExt: Iterator + Sized {
    fn shim_eq(self, other: core::ops::Range<usize>) -> (r: bool)
        where Self: Iterator<Item = usize>;
}
impl<I: Iterator<Item = usize>> ShimIterExt for I {
    #[verifier::external_body]
    fn shim_eq(self, other: core::ops::Range<usize>) -> (r: bool)
        ensures self.obeys_prophetic_iter_laws() ==> r == (self.remaining() =~= range_seq(other.start as int, other.end as int))
    { self.eq(other) }
}

fn dense(groups: &BTreeMap<u32, u8>) -> (r: bool)
    ensures r ==> (forall|k: u32| groups@.contains_key(k) ==> (k as int) < groups@.len())
{
    groups.keys().map(|i: &u32| -> (o: usize) ensures o == *i as usize { *i as usize }).shim_eq(0..groups.len())
}
}
fn main() {}
