// Globals that are only *mentioned* (no load/store recorded by naga): the library may report the
// mentioning stage, naga's GlobalUse is empty. The oracle must not flag these (see c03.rs has_silent_reference).
@group(0) @binding(0) var tex: texture_2d<f32>;
@group(0) @binding(1) var<storage, read_write> buf: array<f32>;
@group(0) @binding(2) var<uniform> u: vec4<f32>;

fn keep() { _ = tex; }

@fragment
fn fs_main() -> @location(0) vec4<f32> {
    keep();
    let p = &buf;
    return u;
}

@compute @workgroup_size(1)
fn cs_main() {
    buf[0] = u.x;
}
