// The only access to `counter` sits in a helper that is called only from a `continuing` block of a
// helper that is itself called only from the update clause of a for loop.
@group(0) @binding(5) var<storage, read_write> counter: array<atomic<u32>, 2>;
@group(0) @binding(1) var<uniform> limit: vec4<f32>;
@group(1) @binding(0) var<uniform> unused_everywhere: vec4<f32>;

fn bump() -> u32 { return atomicAdd(&counter[0], 1u); }

fn spin() {
    var i = 0u;
    loop {
        if i > 4u { break; }
        continuing { i = i + bump(); }
    }
}

@vertex
fn vs_main() -> @builtin(position) vec4<f32> {
    var k = 0;
    for (var i = 0; i < 2; spin()) { i = i + 1; k = k + 1; }
    return vec4<f32>(f32(k));
}

@fragment
fn fs_main() -> @location(0) vec4<f32> {
    switch i32(limit.x) {
        case 1: { return vec4<f32>(0.0); }
        case 2, 3: { return limit; }
        default: { return vec4<f32>(1.0); }
    }
}
