// Hand-written extremes for C15 (every line is accepted by naga 24's front end).
const F64_A: f64 = 1.5lf;
const F64_NEG_ZERO = f64(-0.0);
const F64_NEG = f64(-1.5);
const F64_NEG_SUB: f64 = f64(-4.9e-324);
const F64_MAX = 1.7976931348623157e308lf;
const F64_MIN_SUB = 4.9e-324lf;
const F32_NEG_ZERO: f32 = -0.0;
const F32_MAX = 3.4028234e38f;
const F32_MIN_SUB = 1e-45f;
const F32_THIRD = 1.0 / 3.0;
const I32_MIN: i32 = -2147483648;
const I32_MAX = 2147483647;
const U32_MAX = 4294967295u;
const I64_MIN1 = -9223372036854775807li;
const U64_MAX = 18446744073709551615lu;
const FLAG = true;
const NOT_FLAG = !FLAG;
const DERIVED = I32_MAX - 1;
const VEC = vec3<f32>(1.0, 2.0, 3.0);
const FROM_VEC = VEC.z;
const ARR = array<u32, 3>(7u, 8u, 9u);
const FROM_ARR = ARR[1];
const MAT = mat2x2<f32>(1.0, 0.0, 0.0, 1.0);
const ZERO_I = i32();
const ZERO_U: u32 = u32();
const ZERO_F = f32();
const ZERO_B = bool();
const ZERO_VEC = vec3<u32>();

@compute @workgroup_size(1)
fn main() {}
