//! Assumption conformance: the naga invariants that the Verus contracts take as PRECONDITIONS (`wf`, `wf_entries`,
//! `types_wf` / `arrays_wf`, `module_wf` / `globals_wf`, `consts_wf`, arena iteration order = handle order, `UniqueArena`
//! holds each type once, entry-point argument / result handles in range, bound members of input structs, push-constant
//! sizes a multiple of 4) are evaluated on EVERY module the oracles parse (hook in `common::naga_parse`).
//! A violation is not a failure of the library: it means a proved contract says nothing about that input, and the check
//! that reads the report answers UNDECIDED (reason `assumption-nonconformance`).  Hand-written transcription of the spec
//! predicates in /verif/spec/lib/{model_stages,model_reach,model_types,model_c11,model_consts,model_vertex}.rs - a test, not a proof.
use std::sync::Mutex;

pub static SEEN: Mutex<(u64, Vec<String>)> = Mutex::new((0, Vec::new()));

fn calls_in_block(b: &naga::Block, out: &mut Vec<usize>) {
    for s in b.iter() {
        match s {
            naga::Statement::Block(b) => calls_in_block(b, out),
            naga::Statement::If { accept, reject, .. } => {
                calls_in_block(accept, out);
                calls_in_block(reject, out);
            }
            naga::Statement::Switch { cases, .. } => {
                for c in cases {
                    calls_in_block(&c.body, out);
                }
            }
            naga::Statement::Loop { body, continuing, .. } => {
                calls_in_block(body, out);
                calls_in_block(continuing, out);
            }
            naga::Statement::Call { function, .. } => out.push(function.index()),
            _ => {}
        }
    }
}

/// model_stages::fn_ok(m, f, bound): every callee index < bound, every global handle in range
fn fn_ok(m: &naga::Module, f: &naga::Function, bound: usize, what: &str, bad: &mut Vec<String>) {
    let mut calls = Vec::new();
    calls_in_block(&f.body, &mut calls);
    for (k, (h, e)) in f.expressions.iter().enumerate() {
        if h.index() != k {
            bad.push(format!("{what}: expression arena iteration order is not handle order at {k}"));
        }
        match e {
            naga::Expression::CallResult(c) => calls.push(c.index()),
            naga::Expression::GlobalVariable(g) => {
                if g.index() >= m.global_variables.len() {
                    bad.push(format!("{what}: global handle {} out of range", g.index()));
                }
            }
            _ => {}
        }
    }
    for c in calls {
        if c >= bound {
            bad.push(format!("wf: {what} calls function #{c}, not below {bound} (functions arena not in dependency order)"));
        }
    }
    for a in &f.arguments {
        if a.ty.index() >= m.types.len() {
            bad.push(format!("{what}: argument type handle out of range"));
        }
    }
    if let Some(r) = &f.result {
        if r.ty.index() >= m.types.len() {
            bad.push(format!("{what}: result type handle out of range"));
        }
    }
}

pub fn check(m: &naga::Module) -> Vec<String> {
    let mut bad = Vec::new();
    // arena iteration order == handle order (prelude.rs: Arena::iter / UniqueArena::iter contracts)
    for (k, (h, _)) in m.functions.iter().enumerate() {
        if h.index() != k {
            bad.push(format!("functions arena: position {k} has handle {}", h.index()));
        }
    }
    for (k, (h, _)) in m.global_variables.iter().enumerate() {
        if h.index() != k {
            bad.push(format!("global_variables arena: position {k} has handle {}", h.index()));
        }
    }
    for (k, (h, _)) in m.constants.iter().enumerate() {
        if h.index() != k {
            bad.push(format!("constants arena: position {k} has handle {}", h.index()));
        }
    }
    for (k, (h, _)) in m.overrides.iter().enumerate() {
        if h.index() != k {
            bad.push(format!("overrides arena: position {k} has handle {}", h.index()));
        }
    }
    // types: bottom-up (model_reach::types_wf, model_types::arrays_wf), each value once (axiom_uarena_unique), iteration order
    let tys: Vec<&naga::Type> = m.types.iter().map(|(_, t)| t).collect();
    for (k, (h, t)) in m.types.iter().enumerate() {
        if h.index() != k {
            bad.push(format!("types arena: position {k} has handle {}", h.index()));
        }
        let mut kids = Vec::new();
        match &t.inner {
            naga::TypeInner::Pointer { base, .. } | naga::TypeInner::Array { base, .. } | naga::TypeInner::BindingArray { base, .. } => kids.push(base.index()),
            naga::TypeInner::Struct { members, .. } => kids.extend(members.iter().map(|x| x.ty.index())),
            _ => {}
        }
        for c in kids {
            if c >= k {
                bad.push(format!("types_wf: type #{k} contains type #{c} (UniqueArena not bottom-up)"));
            }
        }
        if matches!(t.inner, naga::TypeInner::Struct { .. }) && t.name.is_none() {
            bad.push(format!("type #{k}: struct without a name"));
        }
    }
    for a in 0..tys.len() {
        for b in a + 1..tys.len() {
            if tys[a] == tys[b] {
                bad.push(format!("UniqueArena holds the same type twice (#{a}, #{b})"));
            }
        }
    }
    // functions in dependency order (model_stages::wf), entry points may call any arena function (wf_entries)
    for (k, (_, f)) in m.functions.iter().enumerate() {
        fn_ok(m, f, k, &format!("function #{k}"), &mut bad);
    }
    for e in &m.entry_points {
        fn_ok(m, &e.function, m.functions.len(), &format!("entry point {}", e.name), &mut bad);
        // model_vertex::entry_args_wf: members of a struct argument are bound
        for a in &e.function.arguments {
            if a.binding.is_none() {
                if let Some(t) = m.types.get_handle(a.ty).ok() {
                    if let naga::TypeInner::Struct { members, .. } = &t.inner {
                        if members.iter().any(|x| x.binding.is_none()) {
                            bad.push(format!("entry point {}: a member of an input struct has no binding", e.name));
                        }
                    } else {
                        bad.push(format!("entry point {}: an unbound argument that is not a struct", e.name));
                    }
                }
            }
        }
    }
    // globals (model_c11::module_wf, model_lib::globals_wf): type handles in range; push constant sizes a multiple of 4
    for (_, g) in m.global_variables.iter() {
        if g.ty.index() >= m.types.len() {
            bad.push("global variable: type handle out of range".into());
        } else if g.space == naga::AddressSpace::PushConstant {
            let sz = m.types[g.ty].inner.size(m.to_ctx());
            if sz % 4 != 0 {
                bad.push(format!("push constant of size {sz}: not a multiple of 4"));
            }
        }
    }
    // constants / overrides (model_consts::{consts_wf, overrides_supported} - the naga part)
    for (_, c) in m.constants.iter() {
        if c.init.index() >= m.global_expressions.len() {
            bad.push("constant: init handle out of range".into());
        }
        if c.ty.index() >= m.types.len() {
            bad.push("constant: type handle out of range".into());
        }
    }
    for (k, (h, e)) in m.global_expressions.iter().enumerate() {
        if h.index() != k {
            bad.push(format!("global_expressions arena: position {k} has handle {}", h.index()));
        }
        if let naga::Expression::ZeroValue(t) = e {
            if t.index() >= m.types.len() {
                bad.push("global expression ZeroValue: type handle out of range".into());
            }
        }
    }
    for (_, o) in m.overrides.iter() {
        if o.name.is_none() {
            bad.push("override without a name".into());
        }
        if o.ty.index() >= m.types.len() {
            bad.push("override: type handle out of range".into());
        } else if !matches!(m.types[o.ty].inner, naga::TypeInner::Scalar(_)) {
            bad.push("override of non-scalar type".into());
        }
    }
    bad
}

/// called for every module an oracle parses
pub fn observe(m: &naga::Module) {
    let bad = check(m);
    if let Ok(mut g) = SEEN.lock() {
        g.0 += 1;
        for b in bad {
            if g.1.len() < 20 && !g.1.contains(&b) {
                g.1.push(b);
            }
        }
    }
}
