//! C05 — bytemuck layout assertions carry the WGSL numbers.
//!
//! Oracle: naga's Layouter size and StructMember::offset for every host-shareable emitted struct,
//! cross-checked when the cases are built against the generator's own implementation of the WGSL
//! alignment / size rules (sgen::World::layout).

use super::structs::*;
use crate::common::*;
use std::collections::BTreeMap;

pub struct C05;

const HAND: [&str; 3] = [
    "struct Material { weight: f32, _reserved: vec2<f32>, color: vec4<f32>, _pad0: u32, _pad1: u32 }\nstruct Light { _pad: vec3<f32>, intensity: f32, _unused: mat2x2<f32> }\n@group(0) @binding(0) var<uniform> material: Material;\n@group(0) @binding(1) var<storage, read> lights: array<Light>;\n@compute @workgroup_size(1)\nfn main() { var x = material.weight + lights[0].intensity; }\n",
    "struct VertexInput { @location(0) position: vec3<f32>, @location(1) uv: vec2<f32>, @location(2) weight: f32 }\nvar<private> current: VertexInput;\n@vertex\nfn vs_main(v: VertexInput) -> @builtin(position) vec4<f32> { current = v; return vec4<f32>(current.position, current.weight); }\n",
    "struct Particle { position: vec4<f32>, @builtin(instance_index) index: u32, lifetime: f32, seed: u32 }\nstruct Emitter { @builtin(vertex_index) vi: u32, origin: vec3<f32>, rate: f32 }\n@group(0) @binding(0) var<storage, read_write> particles: array<Particle, 4>;\n@group(0) @binding(1) var<uniform> emitter: Emitter;\n@compute @workgroup_size(1)\nfn main() { particles[0].lifetime = emitter.rate; }\n",
];

/// ("S", None) -> size ; ("S", Some("m")) -> offset
type Numbers = BTreeMap<(String, Option<String>), Vec<String>>;

fn observed(items: &[Item]) -> Result<Numbers, String> {
    let mut n = Numbers::new();
    for it in items.iter().filter(|i| i.kind == Kind::Const && i.name == "_") {
        let v = &it.value;
        if let Some(rest) = v.strip_prefix("assert!(std::mem::size_of::<") {
            let (name, after) = rest.split_once(">()==").ok_or_else(|| format!("unrecognised assertion {v}"))?;
            let num = after.split(',').next().unwrap_or("");
            n.entry((name.to_string(), None)).or_default().push(num.to_string());
        } else if let Some(rest) = v.strip_prefix("assert!(std::mem::offset_of!(") {
            let (args, after) = rest.split_once(")==").ok_or_else(|| format!("unrecognised assertion {v}"))?;
            let (name, field) = args.split_once(',').ok_or_else(|| format!("unrecognised assertion {v}"))?;
            let num = after.split(',').next().unwrap_or("");
            n.entry((name.to_string(), Some(field.to_string()))).or_default().push(num.to_string());
        } else {
            return Err(format!("unrecognised `const _` item {v}"));
        }
    }
    Ok(n)
}

fn expected(m: &naga::Module) -> Numbers {
    let mut layouter = naga::proc::Layouter::default();
    let mut n = Numbers::new();
    if layouter.update(m.to_ctx()).is_err() {
        return n;
    }
    let host = host_closure(m);
    for h in expected_emitted(m) {
        if !host.contains(&h) {
            continue;
        }
        let name = m.types[h].name.clone().unwrap_or_default();
        n.entry((name.clone(), None)).or_default().push(layouter[h].size.to_string());
        if let naga::TypeInner::Struct { members, .. } = &m.types[h].inner {
            for mem in members {
                if matches!(mem.binding, Some(naga::Binding::BuiltIn(_))) {
                    continue;
                }
                n.entry((name.clone(), mem.name.clone())).or_default().push(mem.offset.to_string());
            }
        }
    }
    n
}

impl Property for C05 {
    fn id(&self) -> &'static str {
        "C05"
    }
    fn rule(&self) -> &'static str {
        "Seeded struct worlds without runtime arrays (scalars, vec2-4, all matrix shapes in f32/f64, fixed arrays incl. of vec3/matrices/structs, nested structs, atomics, vec3-then-scalar packing) x 3 representations, bytemuck host-shareable derive on (and off as control); oracle = naga Layouter size and StructMember::offset (cross-checked against an independent implementation of the WGSL alignment/size rules in the generator): every host-shareable emitted struct carries exactly one size assertion and one offset assertion per non-builtin member with those numbers; other structs and the switch-off case carry none."
    }

    fn cases(&self, seed: u64, tier: Tier) -> Vec<Case> {
        let n = if tier == Tier::Quick { 300 } else { 3000 };
        let mut out = vec![];
        for i in 0..n {
            let mut rng = Rng::new(seed, 0xC05_0000 + i as u64);
            let mut spec = spec_for(i, &mut rng);
            spec.allow_runtime = false;
            let w = crate::sgen::world(&spec, &mut rng);
            // independent layout computation vs naga
            if let Ok(m) = naga_parse(&w.wgsl) {
                let want = expected(&m);
                let mut agree = true;
                for ((sname, field), nums) in &want {
                    let Some(si) = w.index_of(sname) else { continue };
                    let mine = match field {
                        None => w.layout(&crate::sgen::Ty::Struct(si)).1,
                        Some(f) => {
                            let offs = w.member_offsets(si);
                            match w.structs[si].members.iter().position(|mm| &mm.name == f) {
                                Some(p) => offs[p],
                                None => continue,
                            }
                        }
                    };
                    if nums != &vec![mine.to_string()] {
                        note(format!("WGSL layout rules give {mine} for {sname}.{field:?}, naga gives {nums:?} (case {i}); case dropped"));
                        agree = false;
                    }
                }
                if !agree {
                    continue;
                }
            }
            let mvt = [MatrixVectorTypes::Rust, MatrixVectorTypes::Glam, MatrixVectorTypes::Nalgebra][i % 3];
            let opts = WriteOptions {
                derive_bytemuck_host_shareable: i % 6 != 5,
                derive_bytemuck_vertex: (i / 6) % 2 == 0,
                derive_encase_host_shareable: i % 4 == 0,
                matrix_vector_types: mvt,
                validate: if i % 3 == 2 { Some(Default::default()) } else { None },
                ..Default::default()
            };
            out.push(Case::new(format!("world{i}/{mvt:?}/bytemuck_host={}", opts.derive_bytemuck_host_shareable), w.wgsl, Params::with_opts(opts)));
        }
        // hand-written shapes (round 7/8 seeds): `_`-prefixed members (explicit padding / reserved fields), a struct-typed
        // var<private> whose struct is also a vertex input, a @builtin member that is not the last member of a host struct
        for (k, src) in HAND.iter().enumerate() {
            for mvt in [MatrixVectorTypes::Rust, MatrixVectorTypes::Glam, MatrixVectorTypes::Nalgebra] {
                for vertex in [false, true] {
                    let opts = WriteOptions { derive_bytemuck_host_shareable: true, derive_bytemuck_vertex: vertex, matrix_vector_types: mvt, ..Default::default() };
                    out.push(Case::new(format!("hand{k}/{mvt:?}/vertex={vertex}"), src.to_string(), Params::with_opts(opts)));
                }
            }
        }
        out
    }

    fn check(&self, case: &Case) -> Outcome {
        let (m, items) = match generate(case) {
            Ok(x) => x,
            Err(o) => return o,
        };
        let mut o = Outcome::default();
        let got = match observed(&items) {
            Ok(g) => g,
            Err(e) => {
                o.fail(case, "shape of layout assertions", "size_of / offset_of! assertions", e);
                return o;
            }
        };
        let want = if case.params.opts.derive_bytemuck_host_shareable { expected(&m) } else { Numbers::new() };
        for (k, w) in &want {
            let what = match &k.1 {
                None => format!("size assertion of `{}`", k.0),
                Some(f) => format!("offset assertion of `{}.{f}`", k.0),
            };
            match got.get(k) {
                Some(g) if g == w => {}
                Some(g) => o.fail(case, what, format!("{w:?}"), format!("{g:?}")),
                None => o.fail(case, what, format!("{w:?}"), "no assertion"),
            }
        }
        for (k, g) in &got {
            if !want.contains_key(k) {
                o.fail(case, format!("assertion for `{}{}`", k.0, k.1.as_ref().map(|f| format!(".{f}")).unwrap_or_default()), "none (not host-shareable, or the bytemuck host switch is off)", format!("{g:?}"));
            }
        }
        o
    }
}
