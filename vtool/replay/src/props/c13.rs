//! C13 — push constant range covers the variable, from offset 0, once.
//!
//! Oracle: naga's `TypeInner::size` of the push-constant variable's type (cross-checked at
//! generation time against hand-computed WGSL sizes), and naga's validator for the stage set.

use crate::common::*;

pub struct C13;

const HAND: [(&str, u8); 4] = [
    ("var<push_constant> consts: vec4<f32>;\n@vertex\nfn vs_main() -> @builtin(position) vec4<f32> { return consts; }\n@fragment\nfn fs_main() -> @location(0) vec4<f32> { let p = &consts; return vec4<f32>(1.0); }\n", 3),
    ("struct Pc { a: vec4<f32>, b: f32 }\nvar<push_constant> consts: Pc;\nfn touch() { let p = &consts.b; }\n@vertex\nfn vs_main() -> @builtin(position) vec4<f32> { return consts.a; }\n@compute @workgroup_size(1)\nfn cs_main() { touch(); }\n", 5),
    ("var<push_constant> consts: vec4<f32>;\n@fragment\nfn fs_main() -> @location(0) vec4<f32> { let p = &consts; return vec4<f32>(1.0); }\n@compute @workgroup_size(1)\nfn cs_main() { }\n", 2),
    ("var<push_constant> consts: mat4x4<f32>;\nfn fetch() -> vec4<f32> { return consts[0]; }\n@vertex\nfn vs_main() -> @builtin(position) vec4<f32> { return fetch(); }\n@fragment\nfn fs_main() -> @location(0) vec4<f32> { return fetch(); }\n@compute @workgroup_size(1)\nfn cs_main() { }\n", 3),
];

/// (prelude declarations, type, hand-computed WGSL byte size)
const TYPES: [(&str, &str, u32); 30] = [
    ("", "f32", 4),
    ("", "i32", 4),
    ("", "u32", 4),
    ("", "vec2<f32>", 8),
    ("", "vec3<f32>", 12),
    ("", "vec4<f32>", 16),
    ("", "vec2<u32>", 8),
    ("", "vec3<i32>", 12),
    ("", "vec4<u32>", 16),
    ("", "mat2x2<f32>", 16),
    ("", "mat3x3<f32>", 48),
    ("", "mat4x4<f32>", 64),
    ("", "mat2x3<f32>", 32),
    ("", "mat3x2<f32>", 24),
    ("", "mat4x3<f32>", 64),
    ("", "mat2x4<f32>", 32),
    ("", "mat4x2<f32>", 32),
    ("", "array<f32, 5>", 20),
    ("", "array<vec3<f32>, 2>", 32),
    ("", "array<vec4<f32>, 3>", 48),
    ("", "array<vec2<u32>, 7>", 56),
    ("", "array<mat2x2<f32>, 2>", 32),
    ("struct PC { a: f32, b: vec3<f32>, c: f32 }\n", "PC", 32),
    ("struct PC { a: vec3<f32>, b: f32 }\n", "PC", 16),
    ("struct PC { m: mat3x3<f32>, f: f32 }\n", "PC", 64),
    ("struct Inner { x: vec2<f32>, y: f32 }\nstruct PC { a: f32, inner: Inner }\n", "PC", 24),
    ("struct PC { a: u32, arr: array<vec2<f32>, 3> }\n", "PC", 32),
    ("struct PC { a: f32 }\n", "PC", 4),
    ("struct PC { a: vec4<f32>, b: vec2<f32> }\n", "PC", 32),
    ("struct PC { a: f32, b: f32, c: f32, d: vec2<f32>, e: array<f32, 3> }\n", "PC", 40),
];

/// an f32 expression reading the push constant `pc` of the given type
fn read_expr(ty: &str, prelude: &str) -> String {
    if ty == "PC" {
        let first = prelude.rsplit("struct PC {").next().unwrap_or("").trim();
        let field = first.split(':').next().unwrap_or("a").trim();
        let fty = first.split(':').nth(1).unwrap_or("f32").split(|c| c == ',' || c == '}').next().unwrap_or("f32").trim().to_string();
        return read_of(&format!("pc.{field}"), &fty);
    }
    read_of("pc", ty)
}

fn read_of(place: &str, ty: &str) -> String {
    if ty.starts_with("array<") {
        let inner = ty.trim_start_matches("array<");
        let elem = &inner[..inner.rfind(',').unwrap_or(inner.len())];
        return read_of(&format!("{place}[0]"), elem.trim());
    }
    if ty.starts_with("mat") {
        return format!("f32({place}[0].x)");
    }
    if ty.starts_with("vec") {
        return format!("f32({place}.x)");
    }
    format!("f32({place})")
}

fn shader(seed: u64, i: usize) -> (String, Option<u32>) {
    let mut rng = Rng::new(seed, 0xC13_0000 + i as u64);
    let mut s = String::new();
    let with_pc = i % 6 != 5;
    let (prelude, ty, size) = TYPES[if i < TYPES.len() * 2 { i % TYPES.len() } else { rng.below(TYPES.len()) }];
    // some ordinary bindings around it
    let n_bind = rng.below(3);
    if with_pc {
        s.push_str(prelude);
    }
    for b in 0..n_bind {
        s.push_str(&format!("@group(0) @binding({b}) var<uniform> u{b}: vec4<f32>;\n"));
    }
    if with_pc {
        s.push_str(&format!("var<push_constant> pc: {ty};\n"));
    }
    let read = if with_pc { read_expr(ty, prelude) } else { "1.0".to_string() };
    // usage pattern: which stages touch it, directly or through a helper
    let usage = rng.below(8);
    let via_helper = rng.chance(1, 2);
    if via_helper {
        s.push_str(&format!("fn helper() -> f32 {{ return {read}; }}\n"));
    }
    let touch = if via_helper { "helper()".to_string() } else { read.clone() };
    let pick = |used: bool| if used { touch.clone() } else { "0.5".to_string() };
    let (v, f, c) = (usage & 1 != 0, usage & 2 != 0, usage & 4 != 0);
    let entries = rng.below(8) | if usage == 0 { 0 } else { usage }; // stages that exist (a using stage must exist)
    if entries & 1 != 0 {
        s.push_str(&format!("@vertex\nfn vs_main() -> @builtin(position) vec4<f32> {{ return vec4<f32>({}); }}\n", pick(v)));
    }
    if entries & 2 != 0 {
        s.push_str(&format!("@fragment\nfn fs_main() -> @location(0) vec4<f32> {{ return vec4<f32>({}); }}\n", pick(f)));
    }
    if entries & 4 != 0 {
        s.push_str(&format!("@compute @workgroup_size(1)\nfn cs_main() {{ var x = {}; x = x + 1.0; }}\n", pick(c)));
    }
    (s, if with_pc { Some(size) } else { None })
}

impl Property for C13 {
    fn id(&self) -> &'static str {
        "C13"
    }
    fn rule(&self) -> &'static str {
        "Seeded shaders with or without a var<push_constant> of 30 types (scalars, vectors, all matrix shapes, arrays, structs with padding / nested structs / arrays), read directly or through a helper by every subset of stages (incl. unused), next to ordinary bindings; oracle = naga: SIZE = TypeInner::size of the variable's type (cross-checked against hand-computed WGSL sizes when generating), stages = validator GlobalUse per entry point (unused: all stages with an entry point): exactly one `wgpu::PushConstantRange { stages: PUSH_CONSTANT_STAGES, range: 0..SIZE }` and one PUSH_CONSTANT_STAGES constant iff the variable exists, else `push_constant_ranges: &[]` and no constant."
    }

    fn cases(&self, seed: u64, tier: Tier) -> Vec<Case> {
        let n = if tier == Tier::Quick { 300 } else { 3000 };
        let mut out = vec![];
        for i in 0..n {
            let (wgsl, truth) = shader(seed, i);
            if let Ok(m) = naga_parse(&wgsl) {
                let naga_size = m.global_variables.iter().find(|(_, g)| g.space == naga::AddressSpace::PushConstant).map(|(_, g)| m.types[g.ty].inner.size(m.to_ctx()));
                if naga_size != truth {
                    note(format!("hand-computed size {truth:?} and naga size {naga_size:?} disagree on case {i}; case dropped"));
                    continue;
                }
            }
            out.push(Case::new(format!("gen{i}"), wgsl, Params::default().validated(i % 3 == 0)));
        }
        // hand-written shapes (round 8 seeds): WGSL counts a mention of the variable as a static access even when nothing is loaded
        // through it, naga's GlobalUse does not - so the expected stage set is written down by hand (`pc_stages`, bit 1 = vertex,
        // 2 = fragment, 4 = compute), and it must not depend on whether validation runs
        for (k, (src, bits)) in HAND.iter().enumerate() {
            for v in [false, true] {
                out.push(Case::new(format!("hand{k}/validate={v}"), src.to_string(), Params::default().validated(v).extra("pc_stages", bits.to_string())));
            }
        }
        out
    }

    fn check(&self, case: &Case) -> Outcome {
        let m = match naga_parse(&case.wgsl) {
            Ok(m) => m,
            Err(e) => return Outcome::skip(format!("shader does not parse: {e}")),
        };
        let info = match naga_validate(&m) {
            Ok(i) => i,
            Err(e) => return Outcome::skip(format!("shader does not validate: {e}")),
        };
        let text = match run_lib(&case.wgsl, &case.params) {
            LibResult::Ok(t) => t,
            LibResult::Panic(msg) if super::c03::is_documented_panic(&msg) => return Outcome::skip(format!("unsupported input: {msg}")),
            LibResult::Panic(msg) => {
                let mut o = Outcome::default();
                o.fail(case, "generation of a valid, supported shader", "Ok(text)", format!("panic: {msg}"));
                return o;
            }
            LibResult::Err(k, d) => return Outcome::skip(format!("not accepted: {k:?} {d}")),
        };
        let mut o = Outcome::default();
        let items = match outline(&text) {
            Ok(i) => i,
            Err(e) => {
                o.fail(case, "output is Rust", "parsable module", e);
                return o;
            }
        };
        let pcs: Vec<_> = m.global_variables.iter().filter(|(_, g)| g.space == naga::AddressSpace::PushConstant).collect();
        if pcs.len() > 1 {
            return Outcome::skip("more than one push constant variable");
        }
        let ranges = match one(&items, Kind::Fn, "create_pipeline_layout") {
            Ok(f) => match regions_after(&f.value, "push_constant_ranges:&[").as_slice() {
                [r] => r.to_string(),
                other => {
                    o.fail(case, "push_constant_ranges", "one list", format!("{} lists", other.len()));
                    return o;
                }
            },
            Err(e) => {
                o.fail(case, "fn create_pipeline_layout", "exactly one", e);
                return o;
            }
        };
        let consts = find(&items, Kind::Const, "PUSH_CONSTANT_STAGES");
        match pcs.first() {
            None => {
                if ranges != "[]" {
                    o.fail(case, "push_constant_ranges without a push constant", "&[]", ranges);
                }
                if !consts.is_empty() {
                    o.fail(case, "PUSH_CONSTANT_STAGES without a push constant", "absent", consts[0].text.clone());
                }
            }
            Some((h, g)) => {
                let size = m.types[g.ty].inner.size(m.to_ctx());
                let want = format!("[wgpu::PushConstantRange{{stages:PUSH_CONSTANT_STAGES,range:0..{size}}}]");
                // the stage set may be spelled as the constant or as an expression denoting the same set
                let const_bits = consts.first().and_then(|c| parse_stages(&c.value));
                let ok = ranges == want || {
                    let rs = regions_after(&ranges, "wgpu::PushConstantRange{");
                    let elems = split_top(&ranges[1..ranges.len() - 1]);
                    rs.len() == 1 && elems.len() == 1 && elems[0] == format!("wgpu::PushConstantRange{}", rs[0]) && {
                        let f = literal_fields(rs[0]);
                        let get = |k: &str| f.iter().find(|(a, _)| a == k).map(|(_, v)| v.clone()).unwrap_or_default();
                        f.len() == 2 && get("range") == format!("0..{size}") && const_bits.is_some() && parse_stages(&get("stages")) == const_bits
                    }
                };
                if !ok {
                    o.fail(case, "push constant range", want, ranges);
                }
                let bits = super::c03::naga_stage_bits(&m, &info);
                let used = bits[h];
                let entry_bits = m.entry_points.iter().fold(0u8, |a, e| a | stage_bit(e.stage));
                let by_hand = case.params.get("pc_stages").and_then(|b| b.parse::<u8>().ok());
                let want_bits = by_hand.unwrap_or(if used != 0 { used } else { entry_bits });
                match consts.as_slice() {
                    [c] if c.ty == "wgpu::ShaderStages" => match parse_stages(&c.value) {
                        Some(got) if got == want_bits => {}
                        Some(got) if by_hand.is_none() && got & used == used && super::c03::has_silent_reference(&m, &info, *h) => {}
                        Some(got) => o.fail(case, "PUSH_CONSTANT_STAGES", stages_name(want_bits), format!("{} ({})", stages_name(got), c.value)),
                        None => o.fail(case, "PUSH_CONSTANT_STAGES", stages_name(want_bits), c.value.clone()),
                    },
                    other => o.fail(case, "PUSH_CONSTANT_STAGES", "exactly one constant of type wgpu::ShaderStages", format!("{} constants", other.len())),
                }
            }
        }
        o
    }
}
