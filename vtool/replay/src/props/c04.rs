//! C04 — named bind group fields reach their own slot; groups bind at their own index.
//!
//! Oracle: the naga module (which variable has which @group/@binding and which resource class),
//! compared with the generated `bind_groups` module, `set_bind_groups` and `create_pipeline_layout`.

use crate::common::*;
use crate::gen;
use std::collections::{BTreeMap, BTreeSet};

pub struct C04;

#[derive(Debug, Clone, Copy, PartialEq, Eq)]
enum Class {
    Buffer,
    Texture,
    Sampler,
}

impl Class {
    fn field_ty(self) -> &'static str {
        match self {
            Class::Buffer => "wgpu::BufferBinding<'a>",
            Class::Texture => "&'awgpu::TextureView",
            Class::Sampler => "&'awgpu::Sampler",
        }
    }
    fn ctor(self) -> &'static str {
        match self {
            Class::Buffer => "wgpu::BindingResource::Buffer",
            Class::Texture => "wgpu::BindingResource::TextureView",
            Class::Sampler => "wgpu::BindingResource::Sampler",
        }
    }
}

fn class_of(m: &naga::Module, ty: naga::Handle<naga::Type>) -> Option<Class> {
    match m.types[ty].inner {
        naga::TypeInner::Image { .. } => Some(Class::Texture),
        naga::TypeInner::Sampler { .. } => Some(Class::Sampler),
        naga::TypeInner::Struct { .. } | naga::TypeInner::Array { .. } | naga::TypeInner::Scalar(_) | naga::TypeInner::Vector { .. } | naga::TypeInner::Matrix { .. } => Some(Class::Buffer),
        _ => None,
    }
}

/// statements of a block `{a;b;}` -> ["a;", "b;"]
fn statements(block: &str) -> Vec<String> {
    let inner = block.strip_prefix('{').and_then(|b| b.strip_suffix('}')).unwrap_or(block);
    inner.split_inclusive(';').map(|s| s.to_string()).filter(|s| !s.is_empty()).collect()
}

/// Shapes of one binding that can be declared in several ways without changing its WGSL type.
/// (type text, declaration variants `(address space / access prefix)`, access expression yielding f32 or None)
const TWIN_TYPES: [(&str, &[&str]); 9] = [
    ("vec4<f32>", &["var<uniform>", "var<storage, read>", "var<storage, read_write>"]),
    ("array<vec4<f32>>", &["var<storage, read>", "var<storage, read_write>"]),
    ("Params", &["var<uniform>", "var<storage, read>", "var<storage, read_write>", "var<storage>"]),
    ("mat4x4<f32>", &["var<uniform>", "var<storage, read_write>"]),
    ("array<vec4<f32>, 4>", &["var<uniform>", "var<storage, read>"]),
    ("array<u32>", &["var<storage, read>", "var<storage, read_write>"]),
    ("texture_2d<f32>", &["var"]),
    ("sampler", &["var"]),
    ("f32", &["var<uniform>", "var<storage, read_write>"]),
];

fn twin_access(ty: &str, name: &str) -> Option<String> {
    Some(match ty {
        "vec4<f32>" => format!("{name}.x"),
        "array<vec4<f32>>" => format!("{name}[0].y"),
        "Params" => format!("{name}.scale"),
        "mat4x4<f32>" => format!("{name}[0].x"),
        "array<vec4<f32>, 4>" => format!("{name}[1].z"),
        "array<u32>" => format!("f32({name}[0])"),
        "texture_2d<f32>" => format!("textureLoad({name}, vec2<i32>(0, 0), 0).x"),
        "f32" => name.to_string(),
        _ => return None,
    })
}

fn twin_case(i: usize, rng: &mut Rng) -> Case {
    let n_groups = rng.range(2, 4);
    let n_b = rng.range(1, 3);
    // the shared shape: (binding index, type)
    let mut shape: Vec<(u32, usize)> = vec![];
    for _ in 0..n_b {
        let mut b = rng.below(6) as u32;
        while shape.iter().any(|(x, _)| *x == b) {
            b += 1;
        }
        shape.push((b, rng.below(TWIN_TYPES.len())));
    }
    // an optional odd group in front / between / behind with another shape
    let odd_at = if rng.chance(1, 3) { Some(rng.below(n_groups + 1)) } else { None };
    let mut per_group: Vec<Vec<String>> = vec![];
    let mut names: Vec<Vec<(String, &str)>> = vec![];
    let mut g = 0u32;
    let same_space = i % 4 == 3; // identical declarations: the groups differ only in the stages that use them
    for k in 0..=n_groups {
        if odd_at == Some(k) {
            per_group.push(vec![format!("@group({g}) @binding(0) var<uniform> odd{g}: vec2<f32>;"), format!("@group({g}) @binding(7) var odd_s{g}: sampler_comparison;")]);
            names.push(vec![]);
            g += 1;
        }
        if k == n_groups {
            break;
        }
        let mut decls = vec![];
        let mut ns = vec![];
        for (j, (b, t)) in shape.iter().enumerate() {
            let (ty, variants) = TWIN_TYPES[*t];
            let v = if same_space { variants[0] } else { variants[(k + rng.below(2)) % variants.len()] };
            let name = format!("v{g}_{j}");
            decls.push(format!("@group({g}) @binding({b}) {v} {name}: {ty};"));
            ns.push((name, ty));
        }
        per_group.push(decls);
        names.push(ns);
        g += 1;
    }
    let mut s = String::from("struct Params { scale: f32, offset: vec3<f32> }\n");
    if rng.chance(1, 3) {
        // interleaved: first binding of every group, then the second ... (relative order inside a group kept)
        let longest = per_group.iter().map(|d| d.len()).max().unwrap_or(0);
        for j in 0..longest {
            for d in &per_group {
                if let Some(l) = d.get(j) {
                    s.push_str(l);
                    s.push('\n');
                }
            }
        }
    } else {
        let mut order: Vec<usize> = (0..per_group.len()).collect();
        if rng.chance(1, 3) {
            rng.shuffle(&mut order);
        }
        for gi in order {
            for l in &per_group[gi] {
                s.push_str(l);
                s.push('\n');
            }
        }
    }
    // entry points: stage (group index mod 3) reads the variables of its groups
    let mut bodies = [String::new(), String::new(), String::new()];
    for (gi, ns) in names.iter().enumerate() {
        for (n, ty) in ns {
            if let Some(e) = twin_access(ty, n) {
                bodies[if same_space { gi % 2 } else { gi % 3 }].push_str(&format!("  acc = acc + {e};\n"));
            }
        }
    }
    s.push_str(&format!("@vertex\nfn vs_main() -> @builtin(position) vec4<f32> {{\n  var acc = 0.0;\n{}  return vec4<f32>(acc);\n}}\n", bodies[0]));
    s.push_str(&format!("@fragment\nfn fs_main() -> @location(0) vec4<f32> {{\n  var acc = 0.0;\n{}  return vec4<f32>(acc);\n}}\n", bodies[1]));
    if !same_space {
        s.push_str(&format!("@compute @workgroup_size(1)\nfn cs_main() {{\n  var acc = 0.0;\n{}}}\n", bodies[2]));
    }
    Case::new(format!("twin{i}/groups={g}/shape={n_b}{}", if same_space { "/same-space" } else { "" }), s, Params::default().validated(i % 5 == 0))
}

impl Property for C04 {
    fn id(&self) -> &'static str {
        "C04"
    }
    fn rule(&self) -> &'static str {
        "Seeded shaders with 1-8 dense groups (every 4th case with 1-3 var<private>/var<workgroup>/var<push_constant> declarations between the resource variables; 60 more cases with 2-4 groups of EQUAL (@binding, type) lists that differ in address space / access or only in the using stages) (every 24th case: 11-16 groups of 1-2 bindings, i.e. two-digit group indices), 1-6 bindings per group at sparse/unordered/extreme @binding indices, declaration order shuffled across groups, 22 resource kinds (uniform/storage buffers, sampled/depth/multisampled/storage textures, samplers), look-alike names (x1/x10/x1_), plus shaders without any binding; oracle = naga module: BindGroupLayout{g} has exactly one field per variable of the group with the type of its resource class, from_bindings passes bindings.x to binding = @binding(x) with the matching BindingResource constructor and supplies exactly the indices of LAYOUT_DESCRIPTOR{g}, uses that descriptor (which exists once per group and whose entries have the binding type of the group's own variables: resource class, uniform / read-only / writable storage), set() binds at index g once, set_bind_groups / BindGroups::set call each group's set once, the three SetBindGroup impls forward (index, bind_group, offsets), create_pipeline_layout lists BindGroup0..n-1 layouts in order."
    }

    fn cases(&self, seed: u64, tier: Tier) -> Vec<Case> {
        let n = if tier == Tier::Quick { 400 } else { 4000 };
        let mut out = vec![];
        out.push(Case::new("no-bindings", "@compute @workgroup_size(1)\nfn main() {}\n", Params::default()));
        for i in 0..n {
            let mut rng = Rng::new(seed, 0xC04_0000 + i as u64);
            // two-digit group indices ("BindGroup10" sorts before "BindGroup2" as text): 11-16 small dense groups
            let many = i % 24 == 10;
            let n_groups = if many {
                rng.range(11, 16) as u32
            } else if i % 10 == 0 {
                8
            } else {
                rng.range(1, 8) as u32
            };
            let mut slots = gen::slots(n_groups, if many { 2 } else if i % 7 == 0 { 12 } else { 6 }, &mut rng);
            // module-scope variables WITHOUT a resource binding between the resource variables (every 4th case):
            // two of three such cases declare the groups in index order so that every prefix of the declarations
            // has dense groups
            let unbound = i % 4 == 1;
            if unbound && i % 3 != 0 {
                slots.sort_by_key(|s| s.group);
            }
            let mut decls: Vec<String> = slots.iter().map(|sl| sl.decl()).collect();
            let mut tag = String::new();
            if unbound {
                let mut pool: Vec<&str> = vec![
                    "var<private> acc_priv: vec4<f32>;",
                    "var<workgroup> tile: array<f32, 64>;",
                    "var<push_constant> pc: vec4<f32>;",
                    "var<private> counter: u32 = 0u;",
                    "var<workgroup> flag: atomic<u32>;",
                ];
                rng.shuffle(&mut pool);
                let k = rng.range(1, 3);
                for (j, d) in pool.iter().take(k).enumerate() {
                    // the first one always stands in front of at least one resource variable
                    let at = if j == 0 { rng.below(decls.len()) } else { rng.below(decls.len() + 1) };
                    decls.insert(at, d.to_string());
                }
                tag = format!("/unbound={k}");
            }
            let mut s = String::new();
            for d in &decls {
                s.push_str(d);
                s.push('\n');
            }
            s.push_str(match i % 3 {
                0 => "@compute @workgroup_size(1)\nfn main() {}\n",
                1 => "@fragment\nfn fs_main() -> @location(0) vec4<f32> { return vec4<f32>(1.0); }\n",
                _ => "@vertex\nfn vs_main() -> @builtin(position) vec4<f32> { return vec4<f32>(1.0); }\n@fragment\nfn fs_main() {}\n",
            });
            out.push(Case::new(format!("gen{i}/groups={n_groups}/vars={}{tag}", slots.len()), s, Params::default().validated(i % 5 == 0)));
        }
        // --- groups of the same shape: equal (@binding, WGSL type) lists in 2-4 groups that differ in address space /
        // access (uniform, storage read, storage read_write) or only in the stages that use them
        let n_twins = if tier == Tier::Quick { 60 } else { 600 };
        for i in 0..n_twins {
            let mut rng = Rng::new(seed, 0xC04_7000 + i as u64);
            out.push(twin_case(i, &mut rng));
        }
        out
    }

    fn check(&self, case: &Case) -> Outcome {
        let m = match naga_parse(&case.wgsl) {
            Ok(m) => m,
            Err(e) => return Outcome::skip(format!("shader does not parse: {e}")),
        };
        // group -> [(name, binding, class)]
        let mut groups: BTreeMap<u32, Vec<(String, u32, Class)>> = BTreeMap::new();
        for (_, g) in m.global_variables.iter() {
            if let (Some(b), Some(name)) = (&g.binding, &g.name) {
                match class_of(&m, g.ty) {
                    Some(c) => groups.entry(b.group).or_default().push((name.clone(), b.binding, c)),
                    None => return Outcome::skip("resource type outside the supported set"),
                }
            }
        }
        // (group, binding) -> leading text of the layout entry's `ty:` for that variable (wgpu's BindingType for the
        // variable's resource class; buffers: uniform / read-only storage / writable storage from the address space)
        let mut kinds: BTreeMap<(u32, u32), String> = BTreeMap::new();
        for (_, g) in m.global_variables.iter() {
            if let Some(b) = &g.binding {
                let k = match (class_of(&m, g.ty), g.space) {
                    (Some(Class::Buffer), naga::AddressSpace::Uniform) => "wgpu::BindingType::Buffer{ty:wgpu::BufferBindingType::Uniform,".to_string(),
                    (Some(Class::Buffer), naga::AddressSpace::Storage { access }) => {
                        format!("wgpu::BindingType::Buffer{{ty:wgpu::BufferBindingType::Storage{{read_only:{}}},", !access.contains(naga::StorageAccess::STORE))
                    }
                    (Some(Class::Texture), _) => match m.types[g.ty].inner {
                        naga::TypeInner::Image { class: naga::ImageClass::Storage { .. }, .. } => "wgpu::BindingType::StorageTexture{".to_string(),
                        _ => "wgpu::BindingType::Texture{".to_string(),
                    },
                    (Some(Class::Sampler), _) => "wgpu::BindingType::Sampler(".to_string(),
                    _ => continue,
                };
                // a repeated pair is not an accepted shader; keep the first
                kinds.entry((b.group, b.binding)).or_insert(k);
            }
        }
        let text = match run_lib(&case.wgsl, &case.params) {
            LibResult::Ok(t) => t,
            LibResult::Panic(msg) if super::c03::is_documented_panic(&msg) => return Outcome::skip(format!("unsupported input: {msg}")),
            LibResult::Panic(msg) => {
                let mut o = Outcome::default();
                o.fail(case, "generation of a valid, supported shader", "Ok(text)", format!("panic: {msg}"));
                return o;
            }
            LibResult::Err(k, d) => return Outcome::skip(format!("not accepted: {k:?} {d}")),
        };
        let mut o = Outcome::default();
        let items = match outline(&text) {
            Ok(i) => i,
            Err(e) => {
                o.fail(case, "output is Rust", "parsable module", e);
                return o;
            }
        };
        let bg = module(&items, "bind_groups");
        let keys: Vec<u32> = groups.keys().copied().collect();

        for (g, vars) in &groups {
            // --- resource struct
            match one(bg, Kind::Struct, &format!("BindGroupLayout{g}")) {
                Ok(st) => {
                    let got: BTreeSet<(String, String)> = st.fields.iter().map(|(n, t, _)| (n.clone(), t.clone())).collect();
                    let want: BTreeSet<(String, String)> = vars.iter().map(|(n, _, c)| (n.clone(), c.field_ty().to_string())).collect();
                    if got != want || st.fields.len() != vars.len() {
                        o.fail(case, format!("fields of BindGroupLayout{g}"), format!("{want:?}"), format!("{:?}", st.fields.iter().map(|(n, t, _)| (n, t)).collect::<Vec<_>>()));
                    }
                }
                Err(e) => o.fail(case, format!("struct BindGroupLayout{g}"), "exactly one", e),
            }
            // --- layout descriptor indices
            let desc = one(bg, Kind::Const, &format!("LAYOUT_DESCRIPTOR{g}")).ok();
            let layout_idx: Option<BTreeSet<String>> = desc.map(|c| layout_entries(&c.value).into_iter().map(|e| e.binding).collect());
            if layout_idx.is_none() {
                o.fail(case, format!("LAYOUT_DESCRIPTOR{g}"), "exactly one", "missing or repeated");
            }
            // --- the descriptor describes THIS group's variables: resource class, and for buffers the address space / access
            if let Some(c) = desc {
                let entries = layout_entries(&c.value);
                for (name, binding, _) in vars {
                    let want = match kinds.get(&(*g, *binding)) {
                        Some(w) => w,
                        None => continue,
                    };
                    let hits: Vec<&LayoutEntry> = entries.iter().filter(|e| e.binding == binding.to_string()).collect();
                    if hits.len() != 1 || !hits[0].ty.starts_with(want.as_str()) {
                        o.fail(case, format!("entry of `{name}` in LAYOUT_DESCRIPTOR{g} (group {g}'s own layout)"), format!("one entry with binding: {binding}, ty: {want}.."), format!("{:?}", hits.iter().map(|e| e.raw.clone()).collect::<Vec<_>>()));
                    }
                }
            }
            // --- impl BindGroup{g}
            let im = match one(bg, Kind::Impl, &format!("|BindGroup{g}")) {
                Ok(i) => i,
                Err(e) => {
                    o.fail(case, format!("impl BindGroup{g}"), "exactly one", e);
                    continue;
                }
            };
            let use_desc = format!("device.create_bind_group_layout(&LAYOUT_DESCRIPTOR{g})");
            match one(&im.children, Kind::Fn, "get_bind_group_layout") {
                Ok(f) if f.value == format!("{{{use_desc}}}") => {}
                Ok(f) => o.fail(case, format!("BindGroup{g}::get_bind_group_layout body"), format!("{{{use_desc}}}"), f.value.clone()),
                Err(e) => o.fail(case, format!("BindGroup{g}::get_bind_group_layout"), "exactly one", e),
            }
            match one(&im.children, Kind::Fn, "from_bindings") {
                Ok(f) => {
                    if !f.ty.contains(&format!("bindings:BindGroupLayout{g})")) {
                        o.fail(case, format!("BindGroup{g}::from_bindings parameter"), format!("bindings:BindGroupLayout{g}"), f.ty.clone());
                    }
                    if count_occurrences(&f.value, &format!("letbind_group_layout={use_desc};")) != 1 || count_occurrences(&f.value, "layout:&bind_group_layout,") != 1 || count_occurrences(&f.value, "LAYOUT_DESCRIPTOR") != 1 {
                        o.fail(case, format!("BindGroup{g}::from_bindings layout"), format!("let bind_group_layout = {use_desc}; ... layout: &bind_group_layout"), f.value.clone());
                    }
                    let entries = bind_group_entries(&f.value);
                    if entries.len() != vars.len() {
                        o.fail(case, format!("BindGroup{g}::from_bindings entry count"), vars.len().to_string(), entries.len().to_string());
                    }
                    for (name, binding, class) in vars {
                        let want_res = format!("{}(bindings.{name})", class.ctor());
                        let hits: Vec<&(String, String)> = entries.iter().filter(|(_, r)| *r == want_res).collect();
                        if hits.len() != 1 || hits[0].0 != binding.to_string() {
                            let by_index: Vec<&(String, String)> = entries.iter().filter(|(b, _)| *b == binding.to_string()).collect();
                            o.fail(case, format!("slot of field `{name}` in BindGroup{g}"), format!("binding: {binding}, resource: {want_res} (once)"), format!("entries with that resource: {hits:?}; entries with that index: {by_index:?}"));
                        }
                    }
                    if let Some(li) = &layout_idx {
                        let supplied: BTreeSet<String> = entries.iter().map(|(b, _)| b.clone()).collect();
                        if &supplied != li {
                            o.fail(case, format!("indices supplied by BindGroup{g}::from_bindings vs LAYOUT_DESCRIPTOR{g}"), format!("{li:?}"), format!("{supplied:?}"));
                        }
                    }
                }
                Err(e) => o.fail(case, format!("BindGroup{g}::from_bindings"), "exactly one", e),
            }
            let want_set = format!("{{pass.set_bind_group({g},&self.0,&[]);}}");
            match one(&im.children, Kind::Fn, "set") {
                Ok(f) if f.value == want_set => {}
                Ok(f) => o.fail(case, format!("BindGroup{g}::set body"), want_set, f.value.clone()),
                Err(e) => o.fail(case, format!("BindGroup{g}::set"), "exactly one", e),
            }
        }

        // --- no bind group for an undeclared group number
        let emitted: BTreeSet<String> = bg.iter().filter(|i| i.kind == Kind::Impl && i.name.starts_with("|BindGroup") && i.name != "|BindGroups<'_>").map(|i| i.name.clone()).collect();
        let wanted: BTreeSet<String> = keys.iter().map(|k| format!("|BindGroup{k}")).collect();
        if emitted != wanted {
            o.fail(case, "set of BindGroup impls", format!("{wanted:?}"), format!("{emitted:?}"));
        }

        if !keys.is_empty() {
            // --- set_bind_groups
            match one(&items, Kind::Fn, "set_bind_groups") {
                Ok(f) => {
                    let mut got = statements(&f.value);
                    let mut want: Vec<String> = keys.iter().map(|k| format!("bind_group{k}.set(pass);")).collect();
                    got.sort();
                    want.sort();
                    if got != want {
                        o.fail(case, "set_bind_groups body", format!("{want:?}"), f.value.clone());
                    }
                    for k in &keys {
                        let p = format!("bind_group{k}:&bind_groups::BindGroup{k}");
                        // followed by ',' or ')' so that bind_group1 does not match bind_group10
                        if !(f.ty.contains(&format!("{p},")) || f.ty.contains(&format!("{p})"))) {
                            o.fail(case, "set_bind_groups parameters", p, f.ty.clone());
                        }
                    }
                }
                Err(e) => o.fail(case, "fn set_bind_groups", "exactly one", e),
            }
            // --- BindGroups
            match one(bg, Kind::Struct, "BindGroups") {
                Ok(st) => {
                    let got: BTreeSet<(String, String)> = st.fields.iter().map(|(n, t, _)| (n.clone(), t.clone())).collect();
                    let want: BTreeSet<(String, String)> = keys.iter().map(|k| (format!("bind_group{k}"), format!("&'aBindGroup{k}"))).collect();
                    if got != want || st.fields.len() != keys.len() {
                        o.fail(case, "fields of BindGroups", format!("{want:?}"), format!("{got:?}"));
                    }
                }
                Err(e) => o.fail(case, "struct BindGroups", "exactly one", e),
            }
            match one(bg, Kind::Impl, "|BindGroups<'_>").and_then(|im| one(&im.children, Kind::Fn, "set")) {
                Ok(f) => {
                    let mut got = statements(&f.value);
                    let mut want: Vec<String> = keys.iter().map(|k| format!("self.bind_group{k}.set(pass);")).collect();
                    got.sort();
                    want.sort();
                    if got != want {
                        o.fail(case, "BindGroups::set body", format!("{want:?}"), f.value.clone());
                    }
                }
                Err(e) => o.fail(case, "BindGroups::set", "exactly one", e),
            }
            // --- the three forwarding impls
            for pass in ["ComputePass", "RenderPass", "RenderBundleEncoder"] {
                match one(bg, Kind::Impl, &format!("SetBindGroup|wgpu::{pass}<'_>")).and_then(|im| one(&im.children, Kind::Fn, "set_bind_group")) {
                    Ok(f) => {
                        let want_sig = "fnset_bind_group(&mutself,index:u32,bind_group:&wgpu::BindGroup,offsets:&[wgpu::DynamicOffset])";
                        let want_body = "{self.set_bind_group(index,bind_group,offsets);}";
                        if f.ty != want_sig || f.value != want_body {
                            o.fail(case, format!("impl SetBindGroup for wgpu::{pass}"), format!("{want_sig}{want_body}"), format!("{}{}", f.ty, f.value));
                        }
                    }
                    Err(e) => o.fail(case, format!("impl SetBindGroup for wgpu::{pass}"), "exactly one with one set_bind_group", e),
                }
            }
        }

        // --- pipeline layout order
        match one(&items, Kind::Fn, "create_pipeline_layout") {
            Ok(f) => {
                let want: Vec<String> = (0..keys.len()).map(|k| format!("&bind_groups::BindGroup{k}::get_bind_group_layout(device)")).collect();
                match regions_after(&f.value, "bind_group_layouts:&[").as_slice() {
                    [r] => {
                        let got = split_top(&r[1..r.len() - 1]);
                        if got != want {
                            o.fail(case, "create_pipeline_layout bind_group_layouts", format!("{want:?}"), format!("{got:?}"));
                        }
                    }
                    other => o.fail(case, "create_pipeline_layout bind_group_layouts", "one list", format!("{} lists", other.len())),
                }
            }
            Err(e) => o.fail(case, "fn create_pipeline_layout", "exactly one", e),
        }
        o
    }
}
