//! C02 — bind group layout entries carry the binding type wgpu's interface validation expects.
//!
//! Oracle: the naga type / address space of each resource variable, transcribed to the
//! `wgpu::BindingType` that wgpu-core 24's `check_binding_use` + `create_bind_group_layout` accept
//! (DESIGN.md appendix B). For storage textures the generator's own (format, access, dimension)
//! table is cross-checked against naga when the cases are built.
//!
//! Known open finding, NOT reported: `texture_multisampled_2d<f32>` (Float{filterable:true} + multisampled).

use crate::common::*;

pub struct C02;

/// WGSL storage format name -> wgpu::TextureFormat variant
pub const FORMATS: [(&str, &str); 41] = [
    ("r8unorm", "R8Unorm"), ("r8snorm", "R8Snorm"), ("r8uint", "R8Uint"), ("r8sint", "R8Sint"),
    ("r16unorm", "R16Unorm"), ("r16snorm", "R16Snorm"), ("r16uint", "R16Uint"), ("r16sint", "R16Sint"), ("r16float", "R16Float"),
    ("rg8unorm", "Rg8Unorm"), ("rg8snorm", "Rg8Snorm"), ("rg8uint", "Rg8Uint"), ("rg8sint", "Rg8Sint"),
    ("r32uint", "R32Uint"), ("r32sint", "R32Sint"), ("r32float", "R32Float"),
    ("rg16unorm", "Rg16Unorm"), ("rg16snorm", "Rg16Snorm"), ("rg16uint", "Rg16Uint"), ("rg16sint", "Rg16Sint"), ("rg16float", "Rg16Float"),
    ("rgba8unorm", "Rgba8Unorm"), ("rgba8snorm", "Rgba8Snorm"), ("rgba8uint", "Rgba8Uint"), ("rgba8sint", "Rgba8Sint"),
    ("rgb10a2uint", "Rgb10a2Uint"), ("rgb10a2unorm", "Rgb10a2Unorm"), ("rg11b10float", "Rg11b10Ufloat"),
    ("r64uint", "R64Uint"),
    ("rg32uint", "Rg32Uint"), ("rg32sint", "Rg32Sint"), ("rg32float", "Rg32Float"),
    ("rgba16unorm", "Rgba16Unorm"), ("rgba16snorm", "Rgba16Snorm"), ("rgba16uint", "Rgba16Uint"), ("rgba16sint", "Rgba16Sint"), ("rgba16float", "Rgba16Float"),
    ("rgba32uint", "Rgba32Uint"), ("rgba32sint", "Rgba32Sint"), ("rgba32float", "Rgba32Float"),
    ("bgra8unorm", "Bgra8Unorm"),
];
const ACCESS: [(&str, &str); 4] = [("read", "ReadOnly"), ("write", "WriteOnly"), ("read_write", "ReadWrite"), ("atomic", "Atomic")];
const STORAGE_DIMS: [(&str, &str); 4] = [("1d", "D1"), ("2d", "D2"), ("2d_array", "D2Array"), ("3d", "D3")];

/// (WGSL declaration tail, expected `ty:` text) for everything that is not a storage texture
fn fixed_kinds() -> Vec<(String, String)> {
    let buf = |t: &str| format!("wgpu::BindingType::Buffer{{ty:{t},has_dynamic_offset:false,min_binding_size:None}}");
    let uni = buf("wgpu::BufferBindingType::Uniform");
    let ro = buf("wgpu::BufferBindingType::Storage{read_only:true}");
    let rw = buf("wgpu::BufferBindingType::Storage{read_only:false}");
    let tex = |s: &str, d: &str, m: bool| format!("wgpu::BindingType::Texture{{sample_type:wgpu::TextureSampleType::{s},view_dimension:wgpu::TextureViewDimension::{d},multisampled:{m}}}");
    let mut v: Vec<(String, String)> = vec![
        ("var<uniform> {}: vec4<f32>;".into(), uni.clone()),
        ("var<uniform> {}: f32;".into(), uni.clone()),
        ("var<uniform> {}: mat3x3<f32>;".into(), uni.clone()),
        ("var<uniform> {}: array<vec4<u32>, 4>;".into(), uni.clone()),
        ("var<uniform> {}: Data;".into(), uni.clone()),
        ("var<storage> {}: array<f32>;".into(), ro.clone()),
        ("var<storage, read> {}: array<f32>;".into(), ro.clone()),
        ("var<storage, read> {}: Data;".into(), ro.clone()),
        ("var<storage, read> {}: array<Data, 3>;".into(), ro.clone()),
        ("var<storage, read> {}: vec2<i32>;".into(), ro.clone()),
        ("var<storage, read> {}: Tail;".into(), ro.clone()),
        ("var<storage, read_write> {}: array<f32>;".into(), rw.clone()),
        ("var<storage, read_write> {}: Data;".into(), rw.clone()),
        ("var<storage, read_write> {}: u32;".into(), rw.clone()),
        ("var<storage, read_write> {}: mat4x4<f32>;".into(), rw.clone()),
        ("var<storage, read_write> {}: array<atomic<u32>, 4>;".into(), rw.clone()),
        ("var<storage, read_write> {}: Tail;".into(), rw.clone()),
        ("var {}: sampler;".into(), "wgpu::BindingType::Sampler(wgpu::SamplerBindingType::Filtering)".into()),
        ("var {}: sampler_comparison;".into(), "wgpu::BindingType::Sampler(wgpu::SamplerBindingType::Comparison)".into()),
    ];
    for (dim, vd) in [("1d", "D1"), ("2d", "D2"), ("2d_array", "D2Array"), ("3d", "D3"), ("cube", "Cube"), ("cube_array", "CubeArray")] {
        for (st, sample) in [("f32", "Float{filterable:true}"), ("i32", "Sint"), ("u32", "Uint")] {
            v.push((format!("var {{}}: texture_{dim}<{st}>;"), tex(sample, vd, false)));
        }
    }
    // multisampled: the f32 combination is the known open finding and is left out on purpose
    for (st, sample) in [("i32", "Sint"), ("u32", "Uint")] {
        v.push((format!("var {{}}: texture_multisampled_2d<{st}>;"), tex(sample, "D2", true)));
    }
    for (dim, vd) in [("2d", "D2"), ("2d_array", "D2Array"), ("cube", "Cube"), ("cube_array", "CubeArray")] {
        v.push((format!("var {{}}: texture_depth_{dim};"), tex("Depth", vd, false)));
    }
    v.push(("var {}: texture_depth_multisampled_2d;".into(), tex("Depth", "D2", true)));
    v
}

fn storage_texture_kinds() -> Vec<(String, String)> {
    let mut v = vec![];
    for (f, wf) in FORMATS {
        for (a, wa) in ACCESS {
            for (d, wd) in STORAGE_DIMS {
                v.push((
                    format!("var {{}}: texture_storage_{d}<{f}, {a}>;"),
                    format!("wgpu::BindingType::StorageTexture{{access:wgpu::StorageTextureAccess::{wa},format:wgpu::TextureFormat::{wf},view_dimension:wgpu::TextureViewDimension::{wd}}}"),
                ));
            }
        }
    }
    v
}

const PRELUDE: &str = "struct Data { a: vec4<f32>, b: f32 }\nstruct Tail { n: u32, items: array<vec2<f32>> }\n";

/// Expected `ty:` text from the naga module (None = a kind outside the property's list, or the known finding).
pub fn expected_binding_type(m: &naga::Module, g: &naga::GlobalVariable) -> Option<String> {
    let ty = &m.types[g.ty];
    let view = |dim: naga::ImageDimension, arrayed: bool| -> Option<&'static str> {
        use naga::ImageDimension as D;
        Some(match (dim, arrayed) {
            (D::D1, false) => "D1",
            (D::D2, false) => "D2",
            (D::D2, true) => "D2Array",
            (D::D3, false) => "D3",
            (D::Cube, false) => "Cube",
            (D::Cube, true) => "CubeArray",
            _ => return None,
        })
    };
    match &ty.inner {
        naga::TypeInner::Image { dim, arrayed, class } => {
            let vd = view(*dim, *arrayed)?;
            match class {
                naga::ImageClass::Sampled { kind, multi } => {
                    let s = match kind {
                        naga::ScalarKind::Float if *multi => return None, // known open finding [C02.b-msaa-float]
                        naga::ScalarKind::Float => "Float{filterable:true}",
                        naga::ScalarKind::Sint => "Sint",
                        naga::ScalarKind::Uint => "Uint",
                        _ => return None,
                    };
                    Some(format!("wgpu::BindingType::Texture{{sample_type:wgpu::TextureSampleType::{s},view_dimension:wgpu::TextureViewDimension::{vd},multisampled:{multi}}}"))
                }
                naga::ImageClass::Depth { multi } => Some(format!("wgpu::BindingType::Texture{{sample_type:wgpu::TextureSampleType::Depth,view_dimension:wgpu::TextureViewDimension::{vd},multisampled:{multi}}}")),
                naga::ImageClass::Storage { format, access } => {
                    use naga::StorageAccess as A;
                    // wgpu-core rebuilds the naga class from the layout entry and compares for equality
                    let acc = if *access == A::LOAD {
                        "ReadOnly"
                    } else if *access == A::STORE {
                        "WriteOnly"
                    } else if *access == A::LOAD | A::STORE {
                        "ReadWrite"
                    } else if *access == A::LOAD | A::STORE | A::ATOMIC {
                        "Atomic"
                    } else {
                        return None;
                    };
                    Some(format!("wgpu::BindingType::StorageTexture{{access:wgpu::StorageTextureAccess::{acc},format:wgpu::TextureFormat::{format:?},view_dimension:wgpu::TextureViewDimension::{vd}}}"))
                }
            }
        }
        naga::TypeInner::Sampler { comparison } => Some(format!("wgpu::BindingType::Sampler(wgpu::SamplerBindingType::{})", if *comparison { "Comparison" } else { "Filtering" })),
        naga::TypeInner::Struct { .. } | naga::TypeInner::Array { .. } | naga::TypeInner::Scalar(_) | naga::TypeInner::Vector { .. } | naga::TypeInner::Matrix { .. } => {
            let b = match g.space {
                naga::AddressSpace::Uniform => "wgpu::BufferBindingType::Uniform".to_string(),
                naga::AddressSpace::Storage { access } => {
                    let read_only = access == naga::StorageAccess::LOAD;
                    if !read_only && access != (naga::StorageAccess::LOAD | naga::StorageAccess::STORE) {
                        return None;
                    }
                    format!("wgpu::BufferBindingType::Storage{{read_only:{read_only}}}")
                }
                _ => return None,
            };
            Some(format!("wgpu::BindingType::Buffer{{ty:{b},has_dynamic_offset:false,min_binding_size:None}}"))
        }
        _ => None,
    }
}

/// Order-insensitive form of a (nested) struct literal / call expression.
fn canon_expr(e: &str) -> String {
    if let Some(open) = e.find('{') {
        if e.ends_with('}') && matching_close(e, open) == Some(e.len()) {
            let mut fields: Vec<String> = literal_fields(&e[open..]).into_iter().map(|(k, v)| format!("{k}:{}", canon_expr(&v))).collect();
            fields.sort();
            return format!("{}{{{}}}", &e[..open], fields.join(","));
        }
    }
    if let Some(open) = e.find('(') {
        if e.ends_with(')') && matching_close(e, open) == Some(e.len()) {
            let args: Vec<String> = split_top(&e[open + 1..e.len() - 1]).iter().map(|a| canon_expr(a)).collect();
            return format!("{}({})", &e[..open], args.join(","));
        }
    }
    e.to_string()
}

/// runtime-sized array members (struct Tail) are only supported with the encase derive
fn encase() -> Params {
    let mut p = Params::default();
    p.opts.derive_encase_host_shareable = true;
    p
}

fn build(decls: &[(String, String)], idx: &[usize], rng: &mut Rng) -> String {
    let mut s = String::from(PRELUDE);
    let groups = rng.range(1, 3);
    for (k, &i) in idx.iter().enumerate() {
        let g = if k < groups { k } else { rng.below(groups) };
        // mostly small, sometimes large binding indices (wgpu allows up to 1000 per group; the index must survive unharmed)
        let slot = if rng.below(6) == 0 { 256 + k * 97 + rng.below(40) } else { k * 3 + rng.below(3) };
        s.push_str(&format!("@group({g}) @binding({}) {}\n", slot, decls[i].0.replace("{}", &format!("r{k}"))));
    }
    s.push_str("@compute @workgroup_size(1)\nfn main() {}\n");
    s
}

impl Property for C02 {
    fn id(&self) -> &'static str {
        "C02"
    }
    fn rule(&self) -> &'static str {
        "Shaders declaring 1-12 resources drawn from: every storage texture type (41 formats x read/write/read_write/atomic x 1d/2d/2d_array/3d, kept when naga accepts the combination), sampled textures (6 dimensions x f32/i32/u32), multisampled (i32/u32; f32 is the known open finding and is skipped), depth textures incl. arrayed/cube/multisampled, sampler / sampler_comparison, uniform and storage read / read_write buffers of scalar, vector, matrix, array, runtime array and struct type; oracle = naga type + address space transcribed to the wgpu::BindingType that wgpu-core 24 check_binding_use / create_bind_group_layout accept (appendix B), compared field-order-insensitively with the `ty:` of the binding's layout entry, plus `count: None`; storage texture expectations are cross-checked against the generator's own (format, access, dimension) table."
    }

    fn cases(&self, seed: u64, tier: Tier) -> Vec<Case> {
        let mut out = vec![];
        // keep only declarations naga's front end accepts, and whose naga-derived expectation equals the table's
        let mut pool: Vec<(String, String)> = vec![];
        for (tail, want) in fixed_kinds().into_iter().chain(storage_texture_kinds()) {
            let src = format!("{PRELUDE}@group(0) @binding(0) {}\n", tail.replace("{}", "probe"));
            if let Ok(m) = naga_parse(&src) {
                if let Some((_, g)) = m.global_variables.iter().next() {
                    match expected_binding_type(&m, g) {
                        Some(e) if canon_expr(&e) == canon_expr(&want) => pool.push((tail, want)),
                        Some(e) => note(format!("table says {want}, naga-derived oracle says {e}; kind dropped")),
                        None => {}
                    }
                }
            }
        }
        // systematic sweep: every kind once, 12 per shader
        let mut rng = Rng::new(seed, 0xC02);
        let mut order: Vec<usize> = (0..pool.len()).collect();
        rng.shuffle(&mut order);
        for (ci, chunk) in order.chunks(12).enumerate() {
            out.push(Case::new(format!("sweep{ci}"), build(&pool, chunk, &mut rng), encase().validated(ci % 3 == 0)));
        }
        // random mixes
        let n = if tier == Tier::Quick { 150 } else { 2000 };
        for i in 0..n {
            let mut rng = Rng::new(seed, 0xC02_0000 + i as u64);
            let k = rng.range(1, 10);
            let idx: Vec<usize> = (0..k).map(|_| rng.below(pool.len())).collect();
            out.push(Case::new(format!("mix{i}"), build(&pool, &idx, &mut rng), encase().validated(i % 4 == 0)));
        }
        out
    }

    fn check(&self, case: &Case) -> Outcome {
        let m = match naga_parse(&case.wgsl) {
            Ok(m) => m,
            Err(e) => return Outcome::skip(format!("shader does not parse: {e}")),
        };
        if case.params.opts.validate.is_some() {
            if let Err(e) = naga_validate(&m) {
                return Outcome::skip(format!("shader does not validate: {e}"));
            }
        }
        let text = match run_lib(&case.wgsl, &case.params) {
            LibResult::Ok(t) => t,
            LibResult::Panic(msg) if super::c03::is_documented_panic(&msg) => return Outcome::skip(format!("unsupported input: {msg}")),
            LibResult::Panic(msg) => {
                let mut o = Outcome::default();
                o.fail(case, "generation of a valid, supported shader", "Ok(text)", format!("panic: {msg}"));
                return o;
            }
            LibResult::Err(k, d) => return Outcome::skip(format!("not accepted: {k:?} {d}")),
        };
        let mut o = Outcome::default();
        let items = match outline(&text) {
            Ok(i) => i,
            Err(e) => {
                o.fail(case, "output is Rust", "parsable module", e);
                return o;
            }
        };
        let bg = module(&items, "bind_groups");
        for (_, g) in m.global_variables.iter() {
            let (Some(b), Some(name)) = (&g.binding, &g.name) else { continue };
            let Some(want) = expected_binding_type(&m, g) else { continue };
            let what = format!("binding type of `{name}` @group({}) @binding({})", b.group, b.binding);
            let entries: Vec<LayoutEntry> = match one(bg, Kind::Const, &format!("LAYOUT_DESCRIPTOR{}", b.group)) {
                Ok(c) => layout_entries(&c.value).into_iter().filter(|e| e.binding == b.binding.to_string()).collect(),
                Err(e) => {
                    o.fail(case, what, want, e);
                    continue;
                }
            };
            match entries.as_slice() {
                [e] => {
                    if canon_expr(&e.ty) != canon_expr(&want) {
                        o.fail(case, what, want, e.ty.clone());
                    } else if e.count != "None" {
                        o.fail(case, format!("count of `{name}`"), "None", e.count.clone());
                    }
                }
                other => o.fail(case, what, "exactly one layout entry", format!("{} entries", other.len())),
            }
        }
        o
    }
}
