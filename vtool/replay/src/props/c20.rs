//! C20 — generation cost stays polynomial in shader size and call depth.
//!
//! Oracle: wall clock. Each shape is a few hundred lines at most; the library runs on a helper
//! thread and must answer within LIMIT (10 s — the statement says "well under a second", so this is
//! a very generous bound that only exponential behaviour misses).

use crate::common::*;
use std::sync::atomic::{AtomicUsize, Ordering};
use std::time::Duration;

pub struct C20;

const LIMIT: Duration = Duration::from_secs(10);
/// after this many timeouts the remaining cases are not run (each leaks a spinning thread)
const MAX_TIMEOUTS: usize = 2;
static TIMEOUTS: AtomicUsize = AtomicUsize::new(0);

const HEAD: &str = "@group(0) @binding(0) var<storage, read_write> data: array<f32>;\n@group(0) @binding(1) var<uniform> u: vec4<f32>;\n";
const ENTRIES_FOR_TOP: &str = "@compute @workgroup_size(1)\nfn cs_main() { TOP }\n@fragment\nfn fs_main() -> @location(0) vec4<f32> { TOP return u; }\n@vertex\nfn vs_main() -> @builtin(position) vec4<f32> { TOP return u; }\n";

fn entries(top_stmt: &str) -> String {
    ENTRIES_FOR_TOP.replace("TOP", top_stmt)
}

/// shape name -> shader for a given depth
pub fn shape(name: &str, d: usize) -> Option<String> {
    let mut s = String::from(HEAD);
    match name {
        // f_i() { f_{i-1}(); }
        "stmt-chain" => {
            s.push_str("fn q0() { data[0] = u.x; }\n");
            for i in 1..=d {
                s.push_str(&format!("fn q{i}() {{ q{}(); }}\n", i - 1));
            }
            s.push_str(&entries(&format!("q{d}();")));
        }
        // f_i() -> f32 { return f_{i-1}(); }   (each call is a Statement::Call AND a CallResult expression)
        "value-chain" => {
            s.push_str("fn q0() -> f32 { return data[0] + u.x; }\n");
            for i in 1..=d {
                s.push_str(&format!("fn q{i}() -> f32 {{ return q{}() * 0.5; }}\n", i - 1));
            }
            s.push_str(&entries(&format!("data[1] = q{d}();")));
        }
        // f_i() { f_{i-1}(); f_{i-1}(); }
        "diamond" => {
            s.push_str("fn q0() { data[0] = u.x; }\n");
            for i in 1..=d {
                s.push_str(&format!("fn q{i}() {{ q{0}(); q{0}(); }}\n", i - 1));
            }
            s.push_str(&entries(&format!("q{d}();")));
        }
        // value diamond inside expressions and control flow
        "value-diamond" => {
            s.push_str("fn q0() -> f32 { return data[0] + u.x; }\n");
            for i in 1..=d {
                s.push_str(&format!("fn q{i}() -> f32 {{ var a = q{0}(); if a > 0.5 {{ a = a + q{0}(); }} else {{ loop {{ if a > 9.0 {{ break; }} continuing {{ a = a + q{0}() + 1.0; }} }} }} return a; }}\n", i - 1));
            }
            s.push_str(&entries(&format!("data[1] = q{d}();")));
        }
        // two-level diamond: a_i and b_i both call a_{i-1} and b_{i-1}
        "ladder" => {
            s.push_str("fn a0() { data[0] = u.x; }\nfn b0() -> f32 { return u.y; }\n");
            for i in 1..=d {
                s.push_str(&format!("fn a{i}() {{ a{0}(); data[1] = b{0}(); }}\nfn b{i}() -> f32 {{ a{0}(); return b{0}() + 1.0; }}\n", i - 1));
            }
            s.push_str(&entries(&format!("a{d}(); data[2] = b{d}();")));
        }
        // wide fan-in: w_k (k < 4*d) each call the top of a shared diamond of depth d; the entry calls every w_k
        "fan-in" => {
            s.push_str("fn q0() { data[0] = u.x; }\n");
            for i in 1..=d {
                s.push_str(&format!("fn q{i}() {{ q{0}(); q{0}(); q{0}(); }}\n", i - 1));
            }
            let w = 4 * d;
            for k in 0..w {
                s.push_str(&format!("fn w{k}() {{ q{d}(); }}\n"));
            }
            let calls: String = (0..w).map(|k| format!("w{k}(); ")).collect();
            s.push_str(&entries(&calls));
        }
        // struct S_i { a: S_{i-1}, b: S_{i-1} } used by a storage buffer (size 8 * 2^d bytes)
        "struct-diamond" => {
            let mut s2 = String::from("struct S0 { x: f32, y: f32 }\n");
            for i in 1..=d {
                s2.push_str(&format!("struct S{i} {{ a: S{0}, b: S{0} }}\n", i - 1));
            }
            s2.push_str(&format!("@group(0) @binding(0) var<storage, read_write> big: S{d};\n@group(0) @binding(1) var<storage, read> many: array<S{}>;\n", d.saturating_sub(1)));
            s2.push_str("@compute @workgroup_size(1)\nfn cs_main() { big.a");
            for _ in 1..d {
                s2.push_str(".a");
            }
            s2.push_str(".x = 1.0; }\n");
            return Some(s2);
        }
        // struct S_i { a, b, c: S_{i-1} } (size 4 * 3^d bytes)
        "struct-triple" => {
            let mut s2 = String::from("struct S0 { x: f32 }\n");
            for i in 1..=d {
                s2.push_str(&format!("struct S{i} {{ a: S{0}, b: S{0}, c: S{0} }}\n", i - 1));
            }
            s2.push_str(&format!("@group(0) @binding(0) var<uniform> big: S{d};\n@group(0) @binding(1) var<storage, read_write> out: array<f32>;\n"));
            s2.push_str("@compute @workgroup_size(1)\nfn cs_main() { out[0] = big.c");
            for _ in 1..d {
                s2.push_str(".c");
            }
            s2.push_str(".x; }\n");
            return Some(s2);
        }
        // arrays between the struct levels
        "struct-array-diamond" => {
            let mut s2 = String::from("struct S0 { x: f32 }\n");
            for i in 1..=d {
                s2.push_str(&format!("struct S{i} {{ a: array<S{0}, 1>, b: S{0} }}\n", i - 1));
            }
            s2.push_str(&format!("@group(0) @binding(0) var<storage, read> big: array<S{d}>;\n@group(0) @binding(1) var<storage, read_write> out: array<f32>;\n"));
            s2.push_str("@compute @workgroup_size(1)\nfn cs_main() { out[0] = f32(arrayLength(&big)); }\n");
            return Some(s2);
        }
        // diamond through DISTINCT wrapper types: Level_i { l: LeftLevel_i, r: RightLevel_i }, LeftLevel_i { x: Level_{i+1} },
        // RightLevel_i { x: Level_{i+1} }; Level_d { value: u32 } (size 4 * 2^d bytes). No struct has two members of one type,
        // so a visited set that is only shared between the members of ONE struct does not help: 2^d paths lead to Level_d.
        // "-array": the right wrapper holds its Level behind an array (two elements at the two outermost levels, size x 2.25)
        "wrapper-diamond" | "wrapper-array-diamond" => {
            let arrays = name == "wrapper-array-diamond";
            let mut s2 = format!("struct Level{d} {{ value: u32 }}\n");
            for i in (0..d).rev() {
                let n = i + 1;
                s2.push_str(&format!("struct LeftLevel{i} {{ x: Level{n} }}\n"));
                if arrays {
                    s2.push_str(&format!("struct RightLevel{i} {{ x: array<Level{n}, {}> }}\n", if i < 2 { 2 } else { 1 }));
                } else {
                    s2.push_str(&format!("struct RightLevel{i} {{ x: Level{n} }}\n"));
                }
                s2.push_str(&format!("struct Level{i} {{ l: LeftLevel{i}, r: RightLevel{i} }}\n"));
            }
            if arrays {
                s2.push_str("@group(0) @binding(0) var<storage, read> tree: Level0;\n@group(0) @binding(1) var<storage, read_write> out: array<u32>;\n");
                s2.push_str(&format!("@compute @workgroup_size(1)\nfn cs_main() {{ out[0] = tree{}.value; }}\n", ".l.x".repeat(d)));
            } else {
                s2.push_str("@group(0) @binding(0) var<storage, read_write> tree: Level0;\n");
                s2.push_str(&format!("@compute @workgroup_size(1)\nfn cs_main() {{ tree{}.value = 1u; }}\n", ".l.x".repeat(d)));
            }
            return Some(s2);
        }
        // the recursive call sits in BOTH arms of an if / in every case of a switch (a memo that is cloned per branch forgets it)
        "branch-diamond" => {
            s.push_str("fn q0(x: u32) { data[0] = u.x + f32(x); }\n");
            for i in 1..=d {
                s.push_str(&format!("fn q{i}(x: u32) {{ if (x > {i}u) {{ q{0}(x); }} else {{ q{0}(x + 1u); }} }}\n", i - 1));
            }
            s.push_str(&entries(&format!("q{d}(3u);")));
        }
        "switch-diamond" => {
            s.push_str("fn q0(x: u32) -> f32 { return data[0] + u.x + f32(x); }\n");
            for i in 1..=d {
                s.push_str(&format!("fn q{i}(x: u32) -> f32 {{ var r = 0.0; switch x {{ case 0u: {{ r = q{0}(x); }} case 1u: {{ r = q{0}(x + 1u); }} default: {{ r = q{0}(x + 2u); }} }} return r; }}\n", i - 1));
            }
            s.push_str(&entries(&format!("data[1] = q{d}(1u);")));
        }
        // PURE helpers (they reach no global at all) with two call sites per level, below entry points that do use globals
        // (a per-function cache that cannot tell "computed: nothing" from "not computed" re-walks them at every call site)
        "pure-ladder" => {
            s.push_str("fn p0(x: f32) -> f32 { return x * 0.5; }\n");
            for i in 1..=d {
                s.push_str(&format!("fn p{i}(x: f32) -> f32 {{ return p{0}(x) + p{0}(x + 1.0); }}\n", i - 1));
            }
            s.push_str(&entries(&format!("data[1] = p{d}(u.x);")));
        }
        "pure-branch-ladder" => {
            s.push_str("fn p0(x: f32) -> f32 { return x * 0.5; }\n");
            for i in 1..=d {
                s.push_str(&format!("fn p{i}(x: f32) -> f32 {{ if (x > 1.0) {{ return p{0}(x); }} else {{ return p{0}(x + 1.0); }} }}\n", i - 1));
            }
            s.push_str("fn update() { data[0] = p");
            s.push_str(&format!("{d}(u.y); }}\n"));
            s.push_str(&entries("update();"));
        }
        // a struct diamond used by a buffer NEXT TO structs that are not reachable from any variable (a vertex input, an unused
        // struct): a per-struct reachability search without a visited set enumerates all 2^d paths exactly when the answer is "no"
        "struct-diamond-and-unreachable" => {
            let mut s2 = String::from("struct S0 { x: f32, y: f32 }\n");
            for i in 1..=d {
                s2.push_str(&format!("struct S{i} {{ left: S{0}, right: S{0} }}\n", i - 1));
            }
            s2.push_str("struct VertexIn { @location(0) position: vec4<f32>, @location(1) uv: vec2<f32> }\nstruct InstanceIn { @location(2) offset: vec4<f32> }\nstruct NeverUsed { q: mat2x2<f32> }\nstruct AlsoUnused { a: f32, b: NeverUsed }\nstruct LocalOnly { t: vec3<f32> }\n");
            s2.push_str(&format!("@group(0) @binding(0) var<storage, read_write> big: S{d};\n"));
            s2.push_str("@compute @workgroup_size(1)\nfn cs_main() { big.left");
            for _ in 1..d {
                s2.push_str(".left");
            }
            s2.push_str(".x = 1.0; }\n@vertex\nfn vs_main(v: VertexIn, i: InstanceIn) -> @builtin(position) vec4<f32> { var l: LocalOnly; return v.position + i.offset + vec4<f32>(l.t, 0.0); }\n");
            return Some(s2);
        }
        _ => return None,
    }
    Some(s)
}

impl Property for C20 {
    fn id(&self) -> &'static str {
        "C20"
    }
    fn rule(&self) -> &'static str {
        "Fixed shape families at growing depth (smallest first): statement-call chains, value-returning call chains, diamonds (f_i calls f_{i-1} twice), value diamonds inside if/else/continuing, two-function ladders, wide fan-in (4*d wrappers over a shared 3-way diamond) up to depth 64 with three entry points, nested struct diamonds / triples / array diamonds S_i { a: S_{i-1}, b: S_{i-1} } and diamonds through distinct wrapper structs Level_i { l: LeftLevel_i, r: RightLevel_i } with LeftLevel_i / RightLevel_i { x: Level_{i+1} (or array<Level_{i+1}, n>) } up to depth 28, used by buffers; oracle = wall clock: create_shader_module on a helper thread must return Ok within 10 s (recv_timeout; the unchanged library needs milliseconds); after 2 timeouts the remaining shapes are not run."
    }

    fn cases(&self, _seed: u64, tier: Tier) -> Vec<Case> {
        let mut plan: Vec<(&str, usize)> = vec![];
        let call_depths: &[usize] = if tier == Tier::Quick { &[24, 40, 64] } else { &[8, 16, 24, 28, 32, 40, 48, 56, 64] };
        for &d in call_depths {
            for s in ["stmt-chain", "value-chain", "diamond", "value-diamond", "ladder", "branch-diamond", "switch-diamond", "pure-ladder", "pure-branch-ladder"] {
                plan.push((s, d));
            }
        }
        for &d in if tier == Tier::Quick { &[12usize, 16][..] } else { &[6usize, 10, 14, 18, 24][..] } {
            plan.push(("fan-in", d));
        }
        // struct sizes must stay below 2^32 bytes: 8 * 2^d (d <= 28), 4 * 3^d (d <= 18)
        for &d in if tier == Tier::Quick { &[22usize, 28][..] } else { &[12usize, 16, 20, 24, 26, 28][..] } {
            plan.push(("struct-diamond", d));
            plan.push(("struct-array-diamond", d));
            plan.push(("struct-diamond-and-unreachable", d));
        }
        for &d in if tier == Tier::Quick { &[15usize, 18][..] } else { &[8usize, 12, 15, 17, 18][..] } {
            plan.push(("struct-triple", d));
        }
        // 4 * 2^d bytes (x 2.25 for the array variant): d <= 28
        for &d in if tier == Tier::Quick { &[20usize, 28][..] } else { &[10usize, 16, 20, 24, 26, 28][..] } {
            plan.push(("wrapper-diamond", d));
            plan.push(("wrapper-array-diamond", d));
        }
        // smallest depth first so that the first reported witness is small
        plan.sort_by_key(|(_, d)| *d);
        plan.into_iter().filter_map(|(s, d)| shape(s, d).map(|w| Case::new(format!("{s}/depth={d}"), w, Params::default().extra("shape", s).extra("depth", d.to_string())))).collect()
    }

    fn check(&self, case: &Case) -> Outcome {
        if TIMEOUTS.load(Ordering::SeqCst) >= MAX_TIMEOUTS {
            return Outcome::skip("not run: earlier shapes already timed out");
        }
        if let Err(e) = naga_parse(&case.wgsl) {
            return Outcome::skip(format!("shader does not parse: {e}"));
        }
        let mut o = Outcome::default();
        match run_lib_timeout(&case.wgsl, &case.params, LIMIT) {
            None => {
                TIMEOUTS.fetch_add(1, Ordering::SeqCst);
                o.fail(case, "generation time", format!("Ok within {} s ({} lines of WGSL)", LIMIT.as_secs(), case.wgsl.lines().count()), format!("no result after {} s", LIMIT.as_secs()));
            }
            Some((LibResult::Ok(_), _)) => {}
            Some((LibResult::Panic(m), _)) if super::c03::is_documented_panic(&m) => return Outcome::skip(format!("unsupported input: {m}")),
            Some((other, _)) => return Outcome::skip(format!("not accepted: {}", other.short())),
        }
        o
    }
}
