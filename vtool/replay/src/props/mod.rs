//! One module per property.
use crate::common::Property;

pub fn all() -> Vec<Box<dyn Property>> {
    vec![]
}
