//! One module per property.
use crate::common::Property;

pub mod c03;
pub mod c04;
pub mod c11;

pub fn all() -> Vec<Box<dyn Property>> {
    vec![Box::new(c03::C03), Box::new(c04::C04), Box::new(c11::C11)]
}
