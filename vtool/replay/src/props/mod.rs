//! One module per property.
use crate::common::Property;

pub mod c03;
pub mod c04;
pub mod c11;
pub mod c13;
pub mod c14;
pub mod c15;
pub mod c19;
pub mod c20;

pub fn all() -> Vec<Box<dyn Property>> {
    vec![Box::new(c03::C03), Box::new(c04::C04), Box::new(c11::C11), Box::new(c13::C13), Box::new(c14::C14), Box::new(c15::C15), Box::new(c19::C19), Box::new(c20::C20)]
}
