//! C14 — entry point metadata matches the shader's entry points.
//!
//! Oracle: naga's `EntryPoint` records (name, stage, workgroup_size, result / argument bindings);
//! the fragment target count is additionally cross-checked at generation time against the
//! generator's own list of written locations.

use crate::common::*;

pub struct C14;

const HAND: [&str; 3] = [
    "@fragment\nfn fs_main() -> @location(0) vec4<f32> { return vec4<f32>(0.0); }\n@fragment\nfn FS_Main() -> @location(1) vec4<f32> { return vec4<f32>(1.0); }\n@compute @workgroup_size(2, 3)\nfn blur() { }\n",
    "@fragment\nfn fs_albedo() -> @location(0) vec4<f32> { return vec4<f32>(0.0); }\n@fragment\nfn fs_normal() -> @location(1) vec4<f32> { return vec4<f32>(1.0); }\n@fragment\nfn fs_far() -> @location(5) vec4<f32> { return vec4<f32>(1.0); }\n@fragment\nfn fs_depth() -> @builtin(frag_depth) f32 { return 0.5; }\n@fragment\nfn fs_red() -> @location(0) f32 { return 0.5; }\n@fragment\nfn fs_red3() -> @location(3) f32 { return 0.5; }\n",
    "@vertex\nfn vs_main() -> @builtin(position) vec4<f32> { return vec4<f32>(0.0); }\n@vertex\nfn VS_MAIN() -> @builtin(position) vec4<f32> { return vec4<f32>(1.0); }\n@fragment\nfn Vs_Main() -> @location(2) vec4<f32> { return vec4<f32>(1.0); }\n",
];

/// 1 + the highest @location the fragment entry writes, 0 when it writes none (from naga's data).
pub fn needed_targets(m: &naga::Module, f: &naga::Function) -> usize {
    let loc = |b: &Option<naga::Binding>| match b {
        Some(naga::Binding::Location { location, .. }) => Some(*location as usize + 1),
        _ => None,
    };
    match &f.result {
        None => 0,
        Some(r) => match (&r.binding, &m.types[r.ty].inner) {
            (Some(_), _) => loc(&r.binding).unwrap_or(0),
            (None, naga::TypeInner::Struct { members, .. }) => members.iter().filter_map(|mem| loc(&mem.binding)).max().unwrap_or(0),
            (None, _) => 0,
        },
    }
}

const NAMES: [&str; 16] = ["main", "vs_main", "fsMain", "CS_Main2", "a", "_x", "render_Pass_1", "Z", "mainMAIN", "entry_", "größe_Main", "x9", "doIt", "hidden__not", "snake_case_name", "Ünï"];

struct FragOut {
    text_sig: String,
    prelude: String,
    body: String,
    max_plus_one: usize,
}

fn frag_output(k: usize, idx: usize, rng: &mut Rng) -> FragOut {
    match k % 9 {
        0 => FragOut { text_sig: String::new(), prelude: String::new(), body: String::new(), max_plus_one: 0 },
        1 => FragOut { text_sig: " -> @location(0) vec4<f32>".into(), prelude: String::new(), body: "return vec4<f32>(1.0);".into(), max_plus_one: 1 },
        2 => {
            let l = rng.range(1, 7);
            FragOut { text_sig: format!(" -> @location({l}) vec4<f32>"), prelude: String::new(), body: "return vec4<f32>(1.0);".into(), max_plus_one: l + 1 }
        }
        3 => {
            let l = rng.range(0, 5);
            let (ty, v) = *rng.pick(&[("f32", "1.0"), ("u32", "1u"), ("i32", "1"), ("vec2<f32>", "vec2<f32>(1.0)"), ("vec3<u32>", "vec3<u32>(1u)")]);
            FragOut { text_sig: format!(" -> @location({l}) {ty}"), prelude: String::new(), body: format!("return {v};"), max_plus_one: l + 1 }
        }
        4 => FragOut { text_sig: " -> @builtin(frag_depth) f32".into(), prelude: String::new(), body: "return 0.5;".into(), max_plus_one: 0 },
        5 => {
            // struct: second_blend_source pair at location 0 (naga 24 spelling of dual source blending)
            let name = format!("FDual{idx}");
            FragOut {
                prelude: format!("struct {name} {{ @location(0) a: vec4<f32>, @location(0) @second_blend_source b: vec4<f32> }}\n"),
                text_sig: format!(" -> {name}"),
                body: format!("var o: {name}; return o;"),
                max_plus_one: 1,
            }
        }
        6 => {
            // struct of builtins only
            let name = format!("FBuiltins{idx}");
            FragOut {
                prelude: format!("struct {name} {{ @builtin(frag_depth) d: f32, @builtin(sample_mask) m: u32 }}\n"),
                text_sig: format!(" -> {name}"),
                body: format!("var o: {name}; return o;"),
                max_plus_one: 0,
            }
        }
        _ => {
            // struct with sparse / unordered / descending locations and interleaved builtins
            let name = format!("FOut{idx}");
            let n = rng.range(1, 5);
            let mut locs: Vec<usize> = vec![];
            while locs.len() < n {
                let l = rng.below(8);
                if !locs.contains(&l) {
                    locs.push(l);
                }
            }
            match rng.below(3) {
                0 => locs.sort(),
                1 => {
                    locs.sort();
                    locs.reverse()
                }
                _ => {}
            }
            let mut members: Vec<String> = locs.iter().enumerate().map(|(i, l)| format!("@location({l}) m{i}: {}", rng.pick(&["vec4<f32>", "f32", "vec2<u32>", "vec4<i32>"]))).collect();
            if rng.chance(1, 2) {
                let at = rng.below(members.len() + 1);
                members.insert(at, "@builtin(frag_depth) depth: f32".into());
            }
            if rng.chance(1, 3) {
                let at = rng.below(members.len() + 1);
                members.insert(at, "@builtin(sample_mask) mask: u32".into());
            }
            FragOut {
                prelude: format!("struct {name} {{ {} }}\n", members.join(", ")),
                text_sig: format!(" -> {name}"),
                body: format!("var o: {name}; return o;"),
                max_plus_one: locs.iter().max().unwrap() + 1,
            }
        }
    }
}

/// (shader, [(fragment entry name, generator's own target count)])
fn shader(seed: u64, i: usize) -> (String, Vec<(String, usize)>) {
    let mut rng = Rng::new(seed, 0xC14_0000 + i as u64);
    let mut names: Vec<&str> = NAMES.to_vec();
    rng.shuffle(&mut names);
    // names whose upper-case forms collide would clash in the output (not this property's business)
    let mut taken: Vec<String> = vec![];
    let mut next_name = |rng: &mut Rng| -> String {
        loop {
            let base = names[rng.below(names.len())].to_string();
            let n = if taken.iter().any(|t: &String| t.to_uppercase() == base.to_uppercase()) { format!("{base}{}", taken.len()) } else { base };
            if !taken.iter().any(|t| t.to_uppercase() == n.to_uppercase()) {
                taken.push(n.clone());
                return n;
            }
        }
    };
    let mut prelude = String::new();
    let mut body = String::new();
    let mut truth = vec![];
    let counts = match i % 8 {
        0 => [1, 1, 1],
        1 => [0, 0, 1],
        2 => [0, 3, 0],
        3 => [2, 0, 0],
        4 => [0, 0, 0],
        _ => [rng.below(3), rng.below(4), rng.below(3)],
    };
    let mut decls: Vec<String> = vec![];
    // ---- vertex entries
    prelude.push_str("struct VIn0 { @location(0) a: vec3<f32>, @builtin(vertex_index) vi: u32, @location(4) b: vec2<u32> }\nstruct VIn1 { @location(9) c: f32 }\nstruct VInstance { @location(2) m: vec4<f32>, @builtin(instance_index) ii: u32 }\n");
    // structs whose members are ALL builtins: still struct parameters, so they count for VertexEntry<n>
    prelude.push_str("struct VIdxBoth { @builtin(vertex_index) vertex: u32, @builtin(instance_index) instance: u32 }\nstruct VIdxV { @builtin(vertex_index) v: u32 }\nstruct VIdxI { @builtin(instance_index) i: u32 }\n");
    // `alias` spellings: naga gives `Color` / `Index` a NAME (named vector / scalar types, distinct from the plain ones); an alias
    // of a struct is the struct's own type handle. Parameters with a @location / @builtin binding are not struct parameters
    // however their type is spelled, and `s: VAlias1` is the struct parameter `s: VIn1`.
    let alias_text = "alias Color = vec4<f32>;\nalias Index = u32;\nalias VAlias1 = VIn1;\n";
    let aliases_last = rng.chance(1, 3);
    if !aliases_last {
        prelude.push_str(alias_text);
    }
    for _ in 0..counts[0] {
        let name = next_name(&mut rng);
        let mut params: Vec<String> = vec![];
        // (struct, carries vertex_index, carries instance_index)
        let mut structs = [("VIn0", true, false), ("VIn1", false, false), ("VInstance", false, true), ("VIdxBoth", true, true), ("VIdxV", true, false), ("VIdxI", false, true)].to_vec();
        rng.shuffle(&mut structs);
        let n_struct = rng.below(4);
        // builtins must not repeat within one entry point: skip a struct that carries one already taken
        let (mut has_v, mut has_i) = (false, false);
        for (s, v, ii) in &structs {
            if params.len() == n_struct {
                break;
            }
            if (*v && has_v) || (*ii && has_i) {
                continue;
            }
            let spelled = if *s == "VIn1" && rng.chance(1, 2) { "VAlias1" } else { *s };
            params.push(format!("s{}: {spelled}", params.len()));
            has_v |= *v;
            has_i |= *ii;
        }
        // ... and loose builtin parameters only for those no chosen struct carries
        if !has_v && rng.chance(1, 2) {
            params.push(format!("@builtin(vertex_index) vidx: {}", if rng.chance(1, 2) { "Index" } else { "u32" }));
        }
        if !has_i && rng.chance(1, 2) {
            params.push(format!("@builtin(instance_index) iidx: {}", if rng.chance(1, 3) { "Index" } else { "u32" }));
        }
        if rng.chance(1, 2) {
            params.push(format!("@location({}) loose: {}", 12 + rng.below(3), if rng.chance(1, 2) { "Color" } else { "vec4<f32>" }));
        }
        // a second loose value, always through the alias (two parameters of one named non-struct type)
        if rng.chance(1, 6) {
            params.push("@location(15) tint: Color".into());
        }
        rng.shuffle(&mut params);
        decls.push(format!("@vertex\nfn {name}({}) -> @builtin(position) vec4<f32> {{ return vec4<f32>(0.0); }}\n", params.join(", ")));
    }
    // ---- fragment entries
    for k in 0..counts[1] {
        let name = next_name(&mut rng);
        let fo = frag_output(rng.below(9), i * 10 + k, &mut rng);
        prelude.push_str(&fo.prelude);
        let params = if rng.chance(1, 3) { "@builtin(position) pos: vec4<f32>" } else { "" };
        decls.push(format!("@fragment\nfn {name}({params}){} {{ {} }}\n", fo.text_sig, fo.body));
        truth.push((name, fo.max_plus_one));
    }
    // ---- compute entries
    prelude.push_str("const WG_A = 8u;\nconst WG_B: i32 = 2;\n");
    for _ in 0..counts[2] {
        let name = next_name(&mut rng);
        let lit = |rng: &mut Rng| match rng.below(6) {
            0 => "WG_A".to_string(),
            1 => "WG_B * 2".to_string(),
            2 => "1".to_string(),
            3 => format!("{}u", rng.range(1, 64)),
            _ => format!("{}", rng.range(1, 16)),
        };
        let dims = rng.range(1, 3);
        let args: Vec<String> = (0..dims).map(|_| lit(&mut rng)).collect();
        decls.push(format!("@compute @workgroup_size({})\nfn {name}() {{ }}\n", args.join(", ")));
    }
    rng.shuffle(&mut decls);
    for d in decls {
        body.push_str(&d);
    }
    if aliases_last {
        body.push_str(alias_text);
    }
    (format!("{prelude}{body}"), truth)
}

impl Property for C14 {
    fn id(&self) -> &'static str {
        "C14"
    }
    fn rule(&self) -> &'static str {
        "Seeded shaders with 0-3 entry points per stage under mixed-case / underscore / non-ASCII names; compute sizes with 1-3 dimensions from literals and constants; fragment results: none, scalar/vector at @location(k) incl. k>0, builtins only, structs with sparse/unordered/descending locations and interleaved builtins, second_blend_source pairs; vertex parameters mixing struct inputs (incl. structs whose members are all @builtin, alone and next to attribute structs), builtins and loose @location values, the bound parameters' types also spelled through `alias` (named vector / scalar types) and a struct parameter through an alias of the struct; oracle = naga EntryPoint data: ENTRY_{UPPER} constants with the exact name, {UPPER}_WORKGROUP_SIZE = naga's workgroup_size and create_{name}_pipeline targeting Some(name) with the module's own shader/layout, fragment {name}_entry asks for 1 + max written @location targets (0 if none; cross-checked with the generator's own location list), vertex {name}_entry returns VertexEntry<n> for n struct-typed binding-less parameters, vertex_state/fragment_state forward module, entry name, buffers/targets, constants."
    }

    fn cases(&self, seed: u64, tier: Tier) -> Vec<Case> {
        let n = if tier == Tier::Quick { 500 } else { 5000 };
        let mut out = vec![];
        for i in 0..n {
            let (wgsl, truth) = shader(seed, i);
            // keep only cases where naga's view and the generator's own bookkeeping agree on target counts
            if let Ok(m) = naga_parse(&wgsl) {
                let agree = truth.iter().all(|(name, n)| m.entry_points.iter().any(|e| &e.name == name && needed_targets(&m, &e.function) == *n));
                if !agree {
                    note(format!("generator truth and naga data disagree on case {i}; case dropped"));
                    continue;
                }
            }
            out.push(Case::new(format!("gen{i}"), wgsl, Params::default().validated(i % 3 == 0)));
        }
        // hand-written shapes (round 7/8 seeds): entry point names that are distinct WGSL identifiers but have the same upper-case
        // form (each exact name must still be exported; the generated module then has two constants of one name and does not
        // compile, which is rustc's business), several fragment entries returning the SAME non-struct type at different locations
        for (k, src) in HAND.iter().enumerate() {
            for v in [false, true] {
                out.push(Case::new(format!("hand{k}/validate={v}"), src.to_string(), Params::default().validated(v)));
            }
        }
        out
    }

    fn check(&self, case: &Case) -> Outcome {
        let m = match naga_parse(&case.wgsl) {
            Ok(m) => m,
            Err(e) => return Outcome::skip(format!("shader does not parse: {e}")),
        };
        if case.params.opts.validate.is_some() {
            if let Err(e) = naga_validate(&m) {
                return Outcome::skip(format!("shader does not validate: {e}"));
            }
        }
        let text = match run_lib(&case.wgsl, &case.params) {
            LibResult::Ok(t) => t,
            LibResult::Panic(msg) if super::c03::is_documented_panic(&msg) => return Outcome::skip(format!("unsupported input: {msg}")),
            LibResult::Panic(msg) => {
                let mut o = Outcome::default();
                o.fail(case, "generation of a valid, supported shader", "Ok(text)", format!("panic: {msg}"));
                return o;
            }
            LibResult::Err(k, d) => return Outcome::skip(format!("not accepted: {k:?} {d}")),
        };
        let mut o = Outcome::default();
        let items = match outline(&text) {
            Ok(i) => i,
            Err(e) => {
                o.fail(case, "output is Rust", "parsable module", e);
                return o;
            }
        };
        let compute = module(&items, "compute");
        let mut any = [false; 3];
        for ep in &m.entry_points {
            let name = &ep.name;
            let upper = name.to_uppercase();
            // --- name constant
            // one constant per entry point; entry points whose names differ only by case share the constant's NAME, and then
            // every one of their exact names must still be exported under it
            let same_upper = m.entry_points.iter().filter(|e| e.name.to_uppercase() == upper).count();
            let cands = find(&items, Kind::Const, &format!("ENTRY_{upper}"));
            if same_upper == 1 {
                match one(&items, Kind::Const, &format!("ENTRY_{upper}")) {
                    Ok(c) => match &c.lit {
                        Some(Lit::Str(s)) if s == name && c.ty == "&str" => {}
                        _ => o.fail(case, format!("constant ENTRY_{upper}"), format!("pub const ENTRY_{upper}: &str = {name:?};"), c.text.clone()),
                    },
                    Err(e) => o.fail(case, format!("constant ENTRY_{upper}"), "exactly one", e),
                }
            } else if cands.len() != same_upper || !cands.iter().any(|c| matches!(&c.lit, Some(Lit::Str(s)) if s == name) && c.ty == "&str") {
                o.fail(case, format!("constant ENTRY_{upper} for `{name}`"), format!("{same_upper} constants, one of them = {name:?}"), format!("{:?}", cands.iter().map(|c| c.text.clone()).collect::<Vec<_>>()));
            }
            let entry_field = format!("entry_point:ENTRY_{upper},");
            match ep.stage {
                naga::ShaderStage::Compute => {
                    any[2] = true;
                    let [x, y, z] = ep.workgroup_size;
                    match one(compute, Kind::Const, &format!("{upper}_WORKGROUP_SIZE")) {
                        Ok(c) if c.ty == "[u32;3]" && c.value == format!("[{x},{y},{z}]") => {}
                        Ok(c) => o.fail(case, format!("compute::{upper}_WORKGROUP_SIZE"), format!("[u32; 3] = [{x}, {y}, {z}]"), format!("{} = {}", c.ty, c.value)),
                        Err(e) => o.fail(case, format!("compute::{upper}_WORKGROUP_SIZE"), "exactly one", e),
                    }
                    match one(compute, Kind::Fn, &format!("create_{name}_pipeline")) {
                        Ok(f) => {
                            let lit = norm(&format!("{name:?}"));
                            for (what, frag) in [
                                ("entry_point", format!("entry_point:Some({lit}),")),
                                ("module", "module:&module,".to_string()),
                                ("layout", "layout:Some(&layout),".to_string()),
                                ("own shader module", "letmodule=super::create_shader_module(device);".to_string()),
                                ("own pipeline layout", "letlayout=super::create_pipeline_layout(device);".to_string()),
                            ] {
                                if count_occurrences(&f.value, &frag) != 1 {
                                    o.fail(case, format!("compute::create_{name}_pipeline {what}"), frag, f.value.clone());
                                }
                            }
                            if count_occurrences(&f.value, "entry_point:") != 1 {
                                o.fail(case, format!("compute::create_{name}_pipeline entry_point"), "one entry_point field", f.value.clone());
                            }
                        }
                        Err(e) => o.fail(case, format!("compute::create_{name}_pipeline"), "exactly one", e),
                    }
                }
                naga::ShaderStage::Fragment => {
                    any[1] = true;
                    let n = needed_targets(&m, &ep.function);
                    match one(&items, Kind::Fn, &format!("{name}_entry")) {
                        Ok(f) => {
                            let want_head = format!("pubfn{name}_entry(targets:[Option<wgpu::ColorTargetState>;{n}]");
                            let want_ret = format!(")->FragmentEntry<{n}>");
                            if !(f.ty.starts_with(&format!("{want_head},")) || f.ty.starts_with(&format!("{want_head})"))) || !f.ty.ends_with(&want_ret) {
                                o.fail(case, format!("fragment target count of `{name}`"), format!("{n} (targets: [Option<wgpu::ColorTargetState>; {n}] -> FragmentEntry<{n}>)"), f.ty.clone());
                            }
                            if count_occurrences(&f.value, &entry_field) != 1 || count_occurrences(&f.value, "entry_point:") != 1 || !f.value.contains(",targets,") {
                                o.fail(case, format!("{name}_entry body"), format!("FragmentEntry {{ {entry_field} targets, .. }}"), f.value.clone());
                            }
                        }
                        Err(e) => o.fail(case, format!("fn {name}_entry"), "exactly one", e),
                    }
                }
                naga::ShaderStage::Vertex => {
                    any[0] = true;
                    let n = ep.function.arguments.iter().filter(|a| a.binding.is_none() && matches!(m.types[a.ty].inner, naga::TypeInner::Struct { .. })).count();
                    match one(&items, Kind::Fn, &format!("{name}_entry")) {
                        Ok(f) => {
                            if !f.ty.starts_with(&format!("pubfn{name}_entry(")) || !f.ty.ends_with(&format!(")->VertexEntry<{n}>")) {
                                o.fail(case, format!("vertex buffer count of `{name}`"), format!("-> VertexEntry<{n}>"), f.ty.clone());
                            }
                            if count_occurrences(&f.value, &entry_field) != 1 || count_occurrences(&f.value, "entry_point:") != 1 {
                                o.fail(case, format!("{name}_entry body"), format!("VertexEntry {{ {entry_field} .. }}"), f.value.clone());
                            }
                            match regions_after(&f.value, "buffers:[").as_slice() {
                                [r] => {
                                    let k = split_top(&r[1..r.len() - 1]).len();
                                    if k != n {
                                        o.fail(case, format!("{name}_entry buffers"), format!("{n} layouts"), format!("{k}: {r}"));
                                    }
                                }
                                other => o.fail(case, format!("{name}_entry buffers"), "one array", format!("{} arrays", other.len())),
                            }
                        }
                        Err(e) => o.fail(case, format!("fn {name}_entry"), "exactly one", e),
                    }
                }
            }
        }
        // the compute module exists iff a compute entry exists
        let has_compute_mod = !find(&items, Kind::Mod, "compute").is_empty();
        if has_compute_mod != any[2] {
            o.fail(case, "presence of mod compute", any[2].to_string(), has_compute_mod.to_string());
        }
        // forwarding helpers (constant templates)
        if any[0] {
            let want_sig = "pubfnvertex_state<'a,constN:usize>(module:&'awgpu::ShaderModule,entry:&'aVertexEntry<N>)->wgpu::VertexState<'a>";
            let want_body = "{wgpu::VertexState{module,entry_point:Some(entry.entry_point),buffers:&entry.buffers,compilation_options:wgpu::PipelineCompilationOptions{constants:&entry.constants,..Default::default()}}}";
            match one(&items, Kind::Fn, "vertex_state") {
                Ok(f) if f.ty == want_sig && f.value == want_body => {}
                Ok(f) => o.fail(case, "vertex_state forwards module, name, buffers, constants", format!("{want_sig}{want_body}"), format!("{}{}", f.ty, f.value)),
                Err(e) => o.fail(case, "fn vertex_state", "exactly one", e),
            }
        }
        if any[1] {
            let want_sig = "pubfnfragment_state<'a,constN:usize>(module:&'awgpu::ShaderModule,entry:&'aFragmentEntry<N>)->wgpu::FragmentState<'a>";
            let want_body = "{wgpu::FragmentState{module,entry_point:Some(entry.entry_point),targets:&entry.targets,compilation_options:wgpu::PipelineCompilationOptions{constants:&entry.constants,..Default::default()}}}";
            match one(&items, Kind::Fn, "fragment_state") {
                Ok(f) if f.ty == want_sig && f.value == want_body => {}
                Ok(f) => o.fail(case, "fragment_state forwards module, name, targets, constants", format!("{want_sig}{want_body}"), format!("{}{}", f.ty, f.value)),
                Err(e) => o.fail(case, "fn fragment_state", "exactly one", e),
            }
        }
        // no entry constant for something that is not an entry point
        let n_entry_consts = items.iter().filter(|i| i.kind == Kind::Const && i.name.starts_with("ENTRY_")).count();
        if n_entry_consts != m.entry_points.len() {
            o.fail(case, "number of ENTRY_ constants", m.entry_points.len().to_string(), n_entry_consts.to_string());
        }
        o
    }
}
