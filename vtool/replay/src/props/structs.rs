//! Helpers shared by the struct properties C05-C09: what the naga module says about structs,
//! written from the property statements (not from the library's code).

use crate::common::*;
use crate::sgen::{self, Repr, WorldSpec};
use naga::{Handle, Module, Type, TypeInner};
use std::collections::BTreeSet;

/// Struct types reachable from the type of a module-scope variable through members, arrays, runtime arrays.
pub fn host_closure(m: &Module) -> BTreeSet<Handle<Type>> {
    fn go(m: &Module, t: Handle<Type>, out: &mut BTreeSet<Handle<Type>>) {
        if !out.insert(t) {
            return;
        }
        match &m.types[t].inner {
            TypeInner::Array { base, .. } | TypeInner::BindingArray { base, .. } | TypeInner::Pointer { base, .. } => go(m, *base, out),
            TypeInner::Struct { members, .. } => {
                for mem in members {
                    go(m, mem.ty, out);
                }
            }
            _ => {}
        }
    }
    let mut out = BTreeSet::new();
    for (_, g) in m.global_variables.iter() {
        go(m, g.ty, &mut out);
    }
    out.into_iter().filter(|h| matches!(m.types[*h].inner, TypeInner::Struct { .. })).collect()
}

/// Handles of the structs a host program has to fill (C08 statement), in arena order.
pub fn expected_emitted(m: &Module) -> Vec<Handle<Type>> {
    let host = host_closure(m);
    let is_param = |h: Handle<Type>| m.entry_points.iter().any(|e| e.function.arguments.iter().any(|a| a.ty == h));
    let is_result = |h: Handle<Type>| m.entry_points.iter().any(|e| e.function.result.as_ref().map(|r| r.ty) == Some(h));
    m.types.iter().filter(|(h, t)| matches!(t.inner, TypeInner::Struct { .. }) && (host.contains(h) || (is_param(*h) && !is_result(*h)))).map(|(h, _)| h).collect()
}

pub fn repr_of(o: &WriteOptions) -> Repr {
    match o.matrix_vector_types {
        MatrixVectorTypes::Rust => Repr::Rust,
        MatrixVectorTypes::Glam => Repr::Glam,
        MatrixVectorTypes::Nalgebra => Repr::Nalgebra,
    }
}

fn scalar_name(s: naga::Scalar) -> Option<&'static str> {
    use naga::ScalarKind as K;
    Some(match (s.kind, s.width) {
        (K::Sint, 4) => "i32",
        (K::Uint, 4) => "u32",
        (K::Float, 4) => "f32",
        (K::Float, 8) => "f64",
        (K::Sint, 8) => return None,
        (K::Bool, _) => "bool",
        _ => return None,
    })
}

/// Rust type text (whitespace-free) a member type must have under a representation (C06 statement / table).
/// None = outside the documented feature set.
pub fn rust_type_text(m: &Module, ty: Handle<Type>, r: Repr) -> Option<String> {
    let n = |v: naga::VectorSize| v as u32;
    Some(match &m.types[ty].inner {
        TypeInner::Scalar(s) | TypeInner::Atomic(s) => scalar_name(*s)?.to_string(),
        TypeInner::Vector { size, scalar } => {
            let s = scalar_name(*scalar)?;
            let k = n(*size);
            match r {
                Repr::Rust => format!("[{s};{k}]"),
                Repr::Nalgebra => format!("nalgebra::SVector<{s},{k}>"),
                Repr::Glam => match s {
                    "f32" => format!("glam::Vec{k}"),
                    "f64" => format!("glam::DVec{k}"),
                    "u32" => format!("glam::UVec{k}"),
                    "i32" => format!("glam::IVec{k}"),
                    _ => format!("[{s};{k}]"),
                },
            }
        }
        TypeInner::Matrix { columns, rows, scalar } => {
            let s = scalar_name(*scalar)?;
            let (c, rw) = (n(*columns), n(*rows));
            match r {
                Repr::Nalgebra => format!("nalgebra::SMatrix<{s},{rw},{c}>"),
                Repr::Glam if c == rw && s == "f32" => format!("glam::Mat{c}"),
                Repr::Glam if c == rw && s == "f64" => format!("glam::DMat{c}"),
                _ => format!("[[{s};{c}];{rw}]"),
            }
        }
        TypeInner::Array { base, size: naga::ArraySize::Constant(k), .. } => format!("[{};{}]", rust_type_text(m, *base, r)?, k.get()),
        TypeInner::Array { base, size: naga::ArraySize::Dynamic, .. } => format!("Vec<{}>", rust_type_text(m, *base, r)?),
        TypeInner::Struct { .. } => m.types[ty].name.clone()?,
        _ => return None,
    })
}

pub fn has_runtime_tail(m: &Module, h: Handle<Type>) -> bool {
    match &m.types[h].inner {
        TypeInner::Struct { members, .. } => members.iter().any(|mem| matches!(m.types[mem.ty].inner, TypeInner::Array { size: naga::ArraySize::Dynamic, .. })),
        _ => false,
    }
}

/// The library call for a struct-world case, with the skip / failure conventions shared by C05-C09.
pub fn generate(case: &Case) -> Result<(Module, Vec<Item>), Outcome> {
    let m = naga_parse(&case.wgsl).map_err(|e| Outcome::skip(format!("shader does not parse: {e}")))?;
    if case.params.opts.validate.is_some() {
        if let Err(e) = naga_validate(&m) {
            return Err(Outcome::skip(format!("shader does not validate: {e}")));
        }
    }
    let text = match run_lib(&case.wgsl, &case.params) {
        LibResult::Ok(t) => t,
        LibResult::Panic(msg) if super::c03::is_documented_panic(&msg) => return Err(Outcome::skip(format!("unsupported input: {msg}"))),
        LibResult::Panic(msg) => {
            let mut o = Outcome::default();
            o.fail(case, "generation of a valid, supported shader", "Ok(text)", format!("panic: {msg}"));
            return Err(o);
        }
        LibResult::Err(k, d) => return Err(Outcome::skip(format!("not accepted: {k:?} {d}"))),
    };
    match outline(&text) {
        Ok(items) => Ok((m, items)),
        Err(e) => {
            let mut o = Outcome::default();
            o.fail(case, "output is Rust", "parsable module", e);
            Err(o)
        }
    }
}

/// A spread of world shapes for case `i`.
pub fn spec_for(i: usize, rng: &mut Rng) -> WorldSpec {
    WorldSpec {
        n_host: match i % 5 {
            0 => rng.range(1, 3),
            4 => rng.range(6, 12),
            _ => rng.range(2, 7),
        },
        allow_f64: i % 3 != 0,
        allow_runtime: i % 4 == 1,
        allow_atomic: i % 4 == 2,
        allow_private: i % 5 == 3,
        n_vertex_entries: [1, 0, 2, 1, 3][i % 5],
        fragment: i % 3 != 1,
        compute: i % 2 == 0 || i % 5 == 3,
        // structs behind nested fixed arrays in two of three worlds (coprime with the other periods)
        nested: i % 3 != 2 || i % 7 == 0,
    }
}

pub fn world_for(seed: u64, stream: u64, i: usize) -> sgen::World {
    let mut rng = Rng::new(seed, stream + i as u64);
    let spec = spec_for(i, &mut rng);
    sgen::world(&spec, &mut rng)
}

/// All 2^4 derive switch combinations x 3 representations, as (label, options).
pub fn option_grid() -> Vec<WriteOptions> {
    let mut v = vec![];
    for mvt in [MatrixVectorTypes::Rust, MatrixVectorTypes::Glam, MatrixVectorTypes::Nalgebra] {
        for bits in 0..16u32 {
            let mut o = WriteOptions::default();
            o.derive_bytemuck_vertex = bits & 1 != 0;
            o.derive_bytemuck_host_shareable = bits & 2 != 0;
            o.derive_encase_host_shareable = bits & 4 != 0;
            o.derive_serde = bits & 8 != 0;
            o.matrix_vector_types = mvt;
            v.push(o);
        }
    }
    v
}

/// Option combinations under which the library is documented to accept a world.
pub fn supported(w: &sgen::World, o: &WriteOptions) -> bool {
    if w.has_runtime {
        // runtime-sized array members need encase and exclude the host-shareable bytemuck derive
        o.derive_encase_host_shareable && !o.derive_bytemuck_host_shareable
    } else {
        true
    }
}
