//! C18 — output is a pure function of source and options.
//!
//! Oracle: the library against itself: the same (source, include path, options) must give
//! byte-identical results (a) twice in this process, (b) in two fresh child processes with
//! different working directories and environments (fresh hash seeds), (c) while other threads
//! generate the same and different shaders concurrently.

use super::structs::*;
use crate::common::*;
use crate::gen::{self, ProgramSpec, Shape};
use std::process::Command;

pub struct C18;

fn render(r: &LibResult) -> String {
    match r {
        LibResult::Ok(t) => format!("OK\n{t}"),
        other => other.short(),
    }
}

fn child(case: &Case, variant: usize) -> Result<String, String> {
    let dir = std::env::temp_dir().join(format!("replay-c18-{}", std::process::id()));
    std::fs::create_dir_all(dir.join("cwd")).map_err(|e| e.to_string())?;
    let file = dir.join("case.json");
    let j = crate::json::Json::Obj(vec![("wgsl".into(), crate::json::Json::str(case.wgsl.clone())), ("options".into(), crate::json::Json::str(case.params.describe()))]);
    std::fs::write(&file, j.to_text()).map_err(|e| e.to_string())?;
    let exe = std::env::current_exe().map_err(|e| e.to_string())?;
    let mut cmd = Command::new(exe);
    cmd.arg("__emit").arg(&file);
    if variant == 0 {
        cmd.current_dir("/").env("LANG", "C").env("REPLAY_VARIANT", "zero");
    } else {
        cmd.current_dir(dir.join("cwd")).env("LANG", "de_DE.UTF-8").env("TZ", "Asia/Tokyo").env("HOME", "/nonexistent").env("RUST_BACKTRACE", "1").env("REPLAY_VARIANT", "one-with-a-longer-value");
    }
    let out = cmd.output().map_err(|e| e.to_string())?;
    if !out.status.success() {
        return Err(format!("child exited with {:?}", out.status));
    }
    String::from_utf8(out.stdout).map_err(|e| e.to_string())
}

fn first_diff(a: &str, b: &str) -> String {
    let i = a.bytes().zip(b.bytes()).position(|(x, y)| x != y).unwrap_or(a.len().min(b.len()));
    let ctx = |s: &str| -> String {
        let lo = s.len().min(i.saturating_sub(60));
        let hi = s.len().min(i + 60);
        String::from_utf8_lossy(&s.as_bytes()[lo..hi]).to_string()
    };
    format!("lengths {} / {}, first difference at byte {i}: ...{}... vs ...{}...", a.len(), b.len(), ctx(a), ctx(b))
}

impl Property for C18 {
    fn id(&self) -> &'static str {
        "C18"
    }
    fn rule(&self) -> &'static str {
        "Seeded struct worlds with up to 12 host structs (the library keeps them in a hash set) and call-graph programs with many bindings, under random option combinations (derives, representation, validation, embedded / include); oracle = the library against itself: two calls in this process, two fresh child processes (different cwd, environment, hash seeds; hidden `__emit` sub-command of this binary) and calls made while 3 other threads generate the same and other shaders must all return byte-identical results."
    }

    fn cases(&self, seed: u64, tier: Tier) -> Vec<Case> {
        let n = if tier == Tier::Quick { 60 } else { 500 };
        let grid = option_grid();
        let mut out = vec![];
        for i in 0..n {
            let mut rng = Rng::new(seed, 0xC18_0000 + i as u64);
            let (wgsl, mut opts) = if i % 3 == 2 {
                let spec = ProgramSpec { shape: Shape::Random, n_globals: rng.range(4, 14), n_helpers: rng.range(2, 8), groups: rng.range(1, 4) as u32, push_constant: rng.chance(1, 2), entries: [1, 2, 1], wrap_depth: 2 };
                (gen::program(&spec, &mut rng).render(), WriteOptions::default())
            } else {
                let mut spec = spec_for(i, &mut rng);
                spec.n_host = rng.range(6, 12);
                let w = crate::sgen::world(&spec, &mut rng);
                let mut o = grid[rng.below(grid.len())];
                if !supported(&w, &o) {
                    o.derive_encase_host_shareable = true;
                    o.derive_bytemuck_host_shareable = false;
                }
                (w.wgsl, o)
            };
            opts.validate = if i % 4 == 0 { Some(Default::default()) } else { None };
            let include = if i % 2 == 0 { None } else { Some("shader.wgsl".to_string()) };
            out.push(Case::new(format!("case{i}"), wgsl, Params { opts, include, extra: vec![] }));
        }
        out
    }

    fn check(&self, case: &Case) -> Outcome {
        let first = run_lib(&case.wgsl, &case.params);
        if let LibResult::Panic(m) = &first {
            if super::c03::is_documented_panic(m) {
                return Outcome::skip(format!("unsupported input: {m}"));
            }
        }
        let a = render(&first);
        let mut o = Outcome::default();
        // (a) same process
        let b = render(&run_lib(&case.wgsl, &case.params));
        if a != b {
            o.fail(case, "second call in the same process", "identical text", first_diff(&a, &b));
        }
        // (c) concurrent calls
        let others: Vec<String> = (0..2).map(|k| world_for(0xC18, 0x77, k + case.wgsl.len() % 50).wgsl).collect();
        let results: Vec<String> = std::thread::scope(|s| {
            let mut hs = vec![];
            for t in 0..4 {
                let (w, p) = if t < 2 { (case.wgsl.clone(), case.params.clone()) } else { (others[t - 2].clone(), Params::with_opts(WriteOptions { derive_encase_host_shareable: true, ..Default::default() })) };
                hs.push(s.spawn(move || {
                    let mut last = String::new();
                    for _ in 0..3 {
                        last = render(&run_lib(&w, &p));
                    }
                    last
                }));
            }
            hs.into_iter().map(|h| h.join().unwrap_or_else(|_| "thread panicked".to_string())).collect()
        });
        for r in results.iter().take(2) {
            if r != &a {
                o.fail(case, "call made while other threads generate concurrently", "identical text", first_diff(&a, r));
                break;
            }
        }
        // (b) two fresh processes
        match (child(case, 0), child(case, 1)) {
            (Ok(c0), Ok(c1)) => {
                if c0 != a {
                    o.fail(case, "fresh child process (cwd /, LANG=C)", "text identical to the in-process result", first_diff(&a, &c0));
                } else if c1 != a {
                    o.fail(case, "fresh child process (other cwd, environment, hash seed)", "text identical to the in-process result", first_diff(&a, &c1));
                }
            }
            (Err(e), _) | (_, Err(e)) => note(format!("C18: child process could not be run ({e}); cross-process part skipped")),
        }
        o
    }
}
