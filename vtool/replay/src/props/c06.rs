//! C06 — struct fields keep WGSL order, names and element types.
//!
//! Oracle: the member list of each emitted struct in the naga module, mapped through the type table
//! of the statement (plain arrays / glam with array fallback / nalgebra); the table is cross-checked
//! when the cases are built against the generator's hand-written table (sgen::World::ty_rust).

use super::structs::*;
use crate::common::*;
use crate::sgen::Repr;

pub struct C06;

const HAND: [&str; 2] = [
    "alias Color = vec4<f32>;\nalias Transform = mat4x4<f32>;\nalias Weights = array<f32, 4>;\nalias Index = u32;\nstruct Inner { tint: Color }\nalias InnerAlias = Inner;\nstruct Material { base: Color, layers: array<Color, 2>, model: Transform, weights: Weights, id: Index, inner: InnerAlias, plain: vec3<f32> }\n@group(0) @binding(0) var<storage, read> material: Material;\n@compute @workgroup_size(1)\nfn main() { var x = material.base + material.inner.tint; }\n",
    "alias Uv = vec2<f32>;\nalias Pos = vec3<f32>;\nstruct VIn { @location(0) position: Pos, @location(1) uv: Uv, @location(2) extra: vec2<u32> }\n@vertex\nfn vs_main(v: VIn) -> @builtin(position) vec4<f32> { return vec4<f32>(v.position, v.uv.x); }\n",
];

/// (name, type text, is runtime tail) of the non-builtin members, from naga
fn expected_fields(m: &naga::Module, h: naga::Handle<naga::Type>, r: Repr) -> Option<Vec<(String, String, bool)>> {
    let naga::TypeInner::Struct { members, .. } = &m.types[h].inner else { return None };
    let mut v = vec![];
    for mem in members {
        if matches!(mem.binding, Some(naga::Binding::BuiltIn(_))) {
            continue;
        }
        let rt = matches!(m.types[mem.ty].inner, naga::TypeInner::Array { size: naga::ArraySize::Dynamic, .. });
        v.push((mem.name.clone()?, rust_type_text(m, mem.ty, r)?, rt));
    }
    Some(v)
}

impl Property for C06 {
    fn id(&self) -> &'static str {
        "C06"
    }
    fn rule(&self) -> &'static str {
        "Seeded struct worlds (see C08) whose members cover scalars f32/i32/u32/f64/bool, vec2-4 of each, all 9 matrix shapes in f32/f64, atomics, fixed arrays (nested, of vectors/matrices/structs), nested structs, trailing runtime arrays, @location / @builtin members, under Rust / Glam / Nalgebra; oracle = naga struct members mapped through the statement's type table (cross-checked against the generator's hand-written table): each emitted struct lists exactly the non-builtin members in declaration order, same names, the expected Rust type, `#[size(runtime)]` + Vec<T> exactly on a trailing runtime array."
    }

    fn cases(&self, seed: u64, tier: Tier) -> Vec<Case> {
        let n = if tier == Tier::Quick { 360 } else { 3600 };
        let mut out = vec![];
        for i in 0..n {
            let w = world_for(seed, 0xC06_0000, i);
            let mvt = [MatrixVectorTypes::Rust, MatrixVectorTypes::Glam, MatrixVectorTypes::Nalgebra][i % 3];
            let mut opts = WriteOptions { matrix_vector_types: mvt, derive_encase_host_shareable: w.has_runtime || i % 4 == 0, derive_serde: i % 7 == 0,
                derive_bytemuck_host_shareable: !w.has_runtime && i % 5 < 2, derive_bytemuck_vertex: i % 5 == 1, ..Default::default() };
            opts.validate = if i % 3 == 1 { Some(Default::default()) } else { None };
            // cross-check the two type tables on every emitted struct
            if let Ok(m) = naga_parse(&w.wgsl) {
                let r = repr_of(&opts);
                let mut agree = true;
                for h in expected_emitted(&m) {
                    let name = m.types[h].name.clone().unwrap_or_default();
                    let mine: Option<Vec<(String, String, bool)>> = w.index_of(&name).map(|si| w.structs[si].members.iter().filter(|mm| !mm.builtin).map(|mm| (mm.name.clone(), w.ty_rust(&mm.ty, r), matches!(mm.ty, crate::sgen::Ty::Runtime(_)))).collect());
                    if mine != expected_fields(&m, h, r) {
                        note(format!("type tables disagree on struct {name} of case {i}: {:?} vs {:?}; case dropped", mine, expected_fields(&m, h, r)));
                        agree = false;
                    }
                }
                if !agree {
                    continue;
                }
            }
            out.push(Case::new(format!("world{i}/{mvt:?}"), w.wgsl, Params::with_opts(opts)));
        }
        // hand-written shapes (round 8 seeds): member types spelled through `alias` - naga gives the aliased vector / matrix /
        // array / scalar type a NAME, which is not the name of any emitted struct
        for (k, src) in HAND.iter().enumerate() {
            for mvt in [MatrixVectorTypes::Rust, MatrixVectorTypes::Glam, MatrixVectorTypes::Nalgebra] {
                let opts = WriteOptions { matrix_vector_types: mvt, ..Default::default() };
                out.push(Case::new(format!("hand{k}/{mvt:?}"), src.to_string(), Params::with_opts(opts)));
            }
        }
        out
    }

    fn check(&self, case: &Case) -> Outcome {
        let (m, items) = match generate(case) {
            Ok(x) => x,
            Err(o) => return o,
        };
        let r = repr_of(&case.params.opts);
        let mut o = Outcome::default();
        for h in expected_emitted(&m) {
            let name = m.types[h].name.clone().unwrap_or_default();
            let Some(want) = expected_fields(&m, h, r) else { continue };
            let st = match one(&items, Kind::Struct, &name) {
                Ok(s) => s,
                Err(_) => continue, // presence is C08's business
            };
            let got: Vec<(String, String, bool)> = st.fields.iter().map(|(n, t, a)| (n.clone(), t.clone(), a.iter().any(|x| x == "#[size(runtime)]"))).collect();
            if got != want {
                // name the first differing member
                let idx = got.iter().zip(want.iter()).position(|(a, b)| a != b).unwrap_or(got.len().min(want.len()));
                o.fail(
                    case,
                    format!("fields of struct `{name}` under {r:?} (first difference at member #{idx})"),
                    format!("{:?}", want.iter().map(|(n, t, rt)| format!("{}{n}: {t}", if *rt { "#[size(runtime)] " } else { "" })).collect::<Vec<_>>()),
                    format!("{:?}", got.iter().map(|(n, t, rt)| format!("{}{n}: {t}", if *rt { "#[size(runtime)] " } else { "" })).collect::<Vec<_>>()),
                );
            }
            // every field is `pub`
            if !st.fields.is_empty() && count_occurrences(&st.text, "pub") < st.fields.len() + 1 {
                o.fail(case, format!("visibility of fields of `{name}`"), "all pub", st.text.clone());
            }
        }
        o
    }
}
