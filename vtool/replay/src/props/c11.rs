//! C11 — group numbering contract: dense groups, unique slots, or a typed error.
//!
//! Oracle: direct evaluation on the list of (@group, @binding) pairs in declaration order, which is
//! read back from the shader TEXT (not from naga), so a recorded case replays on its own.

use crate::common::*;
use std::collections::{BTreeMap, BTreeSet};

pub struct C11;

const HAND: [&str; 3] = [
    "@group(0u) @binding(0u) var<uniform> vs_camera: mat4x4<f32>;\n@group(0u) @binding(0u) var<uniform> fs_camera: mat4x4<f32>;\n@vertex\nfn vs_main() -> @builtin(position) vec4<f32> { return vs_camera[0]; }\n@fragment\nfn fs_main() -> @location(0) vec4<f32> { return fs_camera[1]; }\n",
    "@group(0u) @binding(0u) var<uniform> globals: vec4<f32>;\n@group(1u) @binding(2u) var<storage, read> cs_items: array<f32>;\n@group(1u) @binding(2u) var<storage, read> fs_items: array<f32>;\nfn sum() -> f32 { return cs_items[0]; }\n@compute @workgroup_size(1)\nfn cs_main() { let x = sum() + globals.x; }\n@fragment\nfn fs_main() -> @location(0) vec4<f32> { return vec4<f32>(fs_items[1]) + globals; }\n",
    "@group(0u) @binding(1u) var vs_tex: texture_2d<f32>;\n@group(0u) @binding(0u) var samp: sampler;\n@group(0u) @binding(1u) var fs_tex: texture_2d<f32>;\n@vertex\nfn vs_main() -> @builtin(position) vec4<f32> { return textureLoad(vs_tex, vec2<i32>(0), 0); }\n@fragment\nfn fs_main() -> @location(0) vec4<f32> { return textureSample(fs_tex, samp, vec2<f32>(0.0)); }\n",
];

#[derive(Debug, Clone)]
pub struct Decl {
    pub group: u32,
    pub binding: u32,
    pub name: String,
}

fn parse_u32(s: &str) -> Option<u32> {
    let s = s.trim().trim_end_matches('u');
    if let Some(h) = s.strip_prefix("0x") {
        u32::from_str_radix(h, 16).ok()
    } else {
        s.parse().ok()
    }
}

/// Read `@group(G) @binding(B) var... NAME:` declarations, in textual order.
pub fn scan_decls(wgsl: &str) -> Vec<Decl> {
    let mut out = vec![];
    let mut rest = wgsl;
    while let Some(p) = rest.find("@group(") {
        rest = &rest[p + 7..];
        let Some(close) = rest.find(')') else { break };
        let g = parse_u32(&rest[..close]);
        rest = &rest[close + 1..];
        let Some(bp) = rest.find("@binding(") else { break };
        rest = &rest[bp + 9..];
        let Some(close) = rest.find(')') else { break };
        let b = parse_u32(&rest[..close]);
        rest = &rest[close + 1..];
        // name: identifier before the first ':' after `var...`
        let Some(colon) = rest.find(':') else { break };
        let head = &rest[..colon];
        let name = head.rsplit(|c: char| c.is_whitespace() || c == '>').next().unwrap_or("").trim().to_string();
        if let (Some(g), Some(b)) = (g, b) {
            out.push(Decl { group: g, binding: b, name });
        }
    }
    out
}

#[derive(Debug, PartialEq)]
pub enum Expect {
    Duplicate(u32),
    NonConsecutive,
    Ok,
}

pub fn expectation(decls: &[Decl]) -> Expect {
    for (j, d) in decls.iter().enumerate() {
        if decls[..j].iter().any(|e| e.group == d.group && e.binding == d.binding) {
            return Expect::Duplicate(d.binding);
        }
    }
    let groups: BTreeSet<u32> = decls.iter().map(|d| d.group).collect();
    let dense = groups.iter().enumerate().all(|(i, g)| *g as usize == i);
    if dense {
        Expect::Ok
    } else {
        Expect::NonConsecutive
    }
}

fn kind_decl(kind: usize, g: u32, b: u32, name: &str) -> String {
    // `u` suffix: naga reads a bare 4294967295 as an abstract int that does not fit i32
    let head = format!("@group({g}u) @binding({b}u)");
    match kind % 7 {
        0 => format!("{head} var<uniform> {name}: vec4<f32>;"),
        1 => format!("{head} var<storage, read> {name}: array<f32>;"),
        2 => format!("{head} var<storage, read_write> {name}: array<u32, 4>;"),
        3 => format!("{head} var {name}: texture_2d<f32>;"),
        4 => format!("{head} var {name}: sampler;"),
        5 => format!("{head} var {name}: texture_storage_2d<rgba8unorm, write>;"),
        _ => format!("{head} var<uniform> {name}: mat4x4<f32>;"),
    }
}

/// `rts_at`: that variable is a storage buffer whose struct type ends in a runtime-sized array (the library documents a
/// panic for it under some options); `unbound`: declarations without @group/@binding, inserted in front of the variable
/// with that index (index == pairs.len(): at the end).
fn shader(pairs: &[(u32, u32)], kinds: &[usize], entry: usize, rts_at: Option<usize>, unbound: &[(usize, &str)]) -> String {
    let mut s = String::new();
    if rts_at.is_some() {
        s.push_str("struct Particles { count: u32, items: array<vec4<f32>> }\n");
    }
    for (i, (g, b)) in pairs.iter().enumerate() {
        for (_, d) in unbound.iter().filter(|(at, _)| *at == i) {
            s.push_str(d);
            s.push('\n');
        }
        if rts_at == Some(i) {
            s.push_str(&format!("@group({g}u) @binding({b}u) var<storage, read_write> v{i}: Particles;\n"));
        } else {
            s.push_str(&kind_decl(kinds[i], *g, *b, &format!("v{i}")));
            s.push('\n');
        }
    }
    for (_, d) in unbound.iter().filter(|(at, _)| *at >= pairs.len()) {
        s.push_str(d);
        s.push('\n');
    }
    match entry % 3 {
        0 => s.push_str("@compute @workgroup_size(1)\nfn main() {}\n"),
        1 => s.push_str("@fragment\nfn main() -> @location(0) vec4<f32> { return vec4<f32>(0.0); }\n"),
        _ => {} // no entry point at all
    }
    s
}

const UNBOUND_DECLS: [&str; 5] = [
    "var<private> acc_priv: vec4<f32>;",
    "var<workgroup> tile: array<f32, 64>;",
    "var<push_constant> pc: vec4<f32>;",
    "var<private> counter: u32 = 0u;",
    "var<workgroup> flag: atomic<u32>;",
];

impl Property for C11 {
    fn id(&self) -> &'static str {
        "C11"
    }
    fn rule(&self) -> &'static str {
        "Shaders declaring resource variables for a list of (@group,@binding) pairs: all sequences of length 0-3 (quick) / 0-4 (thorough) over groups {0,1,2} x bindings {0,1}, plus seeded random lists of length 1-9 with gaps, groups not starting at 0, non-adjacent duplicates, unordered declarations and u32 extremes (4294967295), plus lists with 11-16 dense groups (two-digit group indices; also with one group missing or a repeated slot in a group >= 10), mixed resource kinds, each with validation off and on; every 4th list again with 1-2 var<private>/var<workgroup>/var<push_constant> declarations between the resource variables, every 5th list again with one variable being a storage struct ending in a runtime-sized array under default options / encase+bytemuck (struct generation panics by design: with a numbering fault the typed error must still come back) / encase alone; oracle = direct evaluation on the pair list read from the shader text: first repeated pair -> Err(DuplicateBinding{its binding}) (or the validator's error when validation is on), else groups != 0..n-1 -> Err(NonConsecutiveBindGroups), else Ok with every declared binding exactly once in its own group's LAYOUT_DESCRIPTOR and from_bindings under its own variable name; never a panic."
    }

    fn cases(&self, seed: u64, tier: Tier) -> Vec<Case> {
        let mut lists: Vec<(String, Vec<(u32, u32)>)> = vec![];
        // bounded exhaustive
        let alphabet: Vec<(u32, u32)> = (0..3).flat_map(|g| (0..2).map(move |b| (g, b))).collect();
        let max_len = if tier == Tier::Quick { 3 } else { 4 };
        let mut frontier: Vec<Vec<(u32, u32)>> = vec![vec![]];
        for _ in 0..=max_len {
            let mut next = vec![];
            for l in &frontier {
                lists.push((format!("exh{:?}", l), l.clone()));
                for a in &alphabet {
                    let mut n = l.clone();
                    n.push(*a);
                    next.push(n);
                }
            }
            frontier = next;
        }
        // random
        let n_rand = if tier == Tier::Quick { 600 } else { 6000 };
        for i in 0..n_rand {
            let mut rng = Rng::new(seed, 0xC11_0000 + i as u64);
            let len = rng.range(1, 9);
            let extremes = [0u32, 1, 2, 3, 7, 31, 255, 65535, 2147483647, 2147483648, 4294967294, 4294967295];
            let gmode = rng.below(5);
            let mut l: Vec<(u32, u32)> = vec![];
            for _ in 0..len {
                let g = match gmode {
                    0 => rng.below(3) as u32,            // mostly dense
                    1 => rng.below(4) as u32 + 1,        // not starting at 0
                    2 => [0u32, 2, 3, 5][rng.below(4)],  // gaps
                    3 => *rng.pick(&extremes),
                    _ => rng.below(2) as u32,
                };
                let b = if rng.chance(1, 4) { *rng.pick(&extremes) } else { rng.below(6) as u32 };
                l.push((g, b));
            }
            // force a non-adjacent duplicate now and then
            if l.len() >= 3 && rng.chance(1, 4) {
                let src = rng.below(l.len() - 2);
                let last = l.len() - 1;
                l[last] = l[src];
            }
            // or make it dense so that the Ok path with many bindings is exercised
            if rng.chance(1, 3) {
                let ng = rng.range(1, 4) as u32;
                let mut seen = BTreeSet::new();
                for (i, p) in l.iter_mut().enumerate() {
                    p.0 = if (i as u32) < ng { i as u32 } else { p.0 % ng };
                    while !seen.insert(*p) {
                        p.1 = p.1.wrapping_add(1);
                    }
                }
                if (l.len() as u32) < ng {
                    for g in l.len() as u32..ng {
                        l.push((g, 0));
                    }
                }
                rng.shuffle(&mut l);
            }
            lists.push((format!("rnd{i}"), l));
        }
        // many groups (two-digit group indices): 11-16 dense groups of 1-2 bindings in shuffled declaration order,
        // also with one group missing (-> NonConsecutiveBindGroups) or one slot of a high group repeated (-> DuplicateBinding)
        let n_many = if tier == Tier::Quick { 12 } else { 96 };
        for i in 0..n_many {
            let mut rng = Rng::new(seed, 0xC11_A000 + i as u64);
            let ng = rng.range(11, 16) as u32;
            let mut l: Vec<(u32, u32)> = vec![];
            for g in 0..ng {
                let b = rng.below(4) as u32;
                l.push((g, b));
                if rng.chance(1, 4) {
                    l.push((g, b + 1 + rng.below(3) as u32));
                }
            }
            let mode = i % 3;
            if mode == 1 {
                // drop one group that is not the last one (the rest is then not 0..n-1)
                let gone = rng.below(ng as usize - 1) as u32;
                l.retain(|p| p.0 != gone);
            }
            rng.shuffle(&mut l);
            if mode == 2 {
                let high: Vec<(u32, u32)> = l.iter().copied().filter(|p| p.0 >= 10).collect();
                let d = *rng.pick(&high);
                l.push(d);
            }
            lists.push((format!("many{i}/groups={ng}/mode={mode}"), l));
        }
        let mut out = vec![];
        for (k, (name, l)) in lists.iter().enumerate() {
            let mut rng = Rng::new(seed, 0xC11_F000 + k as u64);
            let kinds: Vec<usize> = l.iter().map(|_| rng.below(7)).collect();
            let entry = rng.below(3);
            let wgsl = shader(l, &kinds, entry, None, &[]);
            for v in [false, true] {
                out.push(Case::new(format!("{name}/validate={v}"), wgsl.clone(), Params::default().validated(v)));
            }
            if l.is_empty() {
                continue;
            }
            // the same list with 1-2 variables WITHOUT a resource binding between the resource variables
            if k % 4 == 1 {
                let mut rng = Rng::new(seed, 0xC11_E000 + k as u64);
                let mut ub: Vec<(usize, &str)> = vec![(rng.below(l.len()), *rng.pick(&UNBOUND_DECLS))];
                if rng.chance(1, 2) {
                    let d = *rng.pick(&UNBOUND_DECLS);
                    if d != ub[0].1 {
                        ub.push((rng.below(l.len() + 1), d));
                    }
                }
                let wgsl = shader(l, &kinds, entry, None, &ub);
                let v = k % 8 == 1;
                out.push(Case::new(format!("{name}/unbound={}/validate={v}", ub.len()), wgsl, Params::default().validated(v)));
            }
            // the same list with one variable being a storage struct that ends in a runtime-sized array, under options for
            // which struct generation panics by design (default: no encase; encase + bytemuck) and under encase alone
            if k % 5 == 2 {
                let mut rng = Rng::new(seed, 0xC11_D000 + k as u64);
                let at = rng.below(l.len());
                let wgsl = shader(l, &kinds, entry, Some(at), &[]);
                let mode = rng.below(3);
                let mut opts = WriteOptions::default();
                match mode {
                    0 => {}
                    1 => {
                        opts.derive_encase_host_shareable = true;
                        opts.derive_bytemuck_host_shareable = true;
                    }
                    _ => opts.derive_encase_host_shareable = true,
                }
                let v = rng.chance(1, 3);
                let mut p = Params::with_opts(opts).validated(v);
                if rng.chance(1, 3) {
                    p.include = None;
                }
                out.push(Case::new(format!("{name}/rts-struct@{at}/opts={mode}/validate={v}"), wgsl, p));
            }
        }
        // hand-written shapes (round 8 seeds): a slot declared twice with the SAME type, each declaration statically used by a
        // different stage only (naga's validator checks collisions per entry point and accepts this; the property does not)
        for (k, src) in HAND.iter().enumerate() {
            for v in [false, true] {
                out.push(Case::new(format!("hand{k}/validate={v}"), src.to_string(), Params::default().validated(v)));
            }
        }
        out
    }

    fn check(&self, case: &Case) -> Outcome {
        let decls = scan_decls(&case.wgsl);
        // the oracle needs the shader to be one the front end reads at all
        let module = match naga_parse(&case.wgsl) {
            Ok(m) => m,
            Err(e) => return Outcome::skip(format!("shader does not parse: {e}")),
        };
        // sanity: my text scan and naga agree on the multiset of pairs (otherwise the text is not in the scanned format)
        let mut mine: Vec<(u32, u32)> = decls.iter().map(|d| (d.group, d.binding)).collect();
        let mut theirs: Vec<(u32, u32)> = module.global_variables.iter().filter_map(|(_, g)| g.binding.as_ref().map(|b| (b.group, b.binding))).collect();
        mine.sort();
        theirs.sort();
        if mine != theirs {
            return Outcome::skip("declaration scan disagrees with naga (shader not in the scanned format)");
        }
        let validated = case.params.opts.validate.is_some();
        let validation_fails = validated && naga_validate(&module).is_err();
        let want = expectation(&decls);
        let got = run_lib(&case.wgsl, &case.params);
        let mut o = Outcome::default();
        let want_text = format!("{want:?}{}", if validation_fails { " or the validator's error" } else { "" });
        match (&got, &want) {
            // correct numbering: the library's documented panic for an unsupported struct / option combination is not C11's
            (LibResult::Panic(m), Expect::Ok) if super::c03::is_documented_panic(m) => return Outcome::skip(format!("unsupported input: {m}")),
            (LibResult::Panic(m), _) => o.fail(case, "never panics", want_text, format!("panic: {m}")),
            (LibResult::Err(ErrKind::Validation, _), _) if validation_fails => {}
            (LibResult::Err(ErrKind::Duplicate(b), _), Expect::Duplicate(wb)) if b == wb && !validation_fails => {}
            (LibResult::Err(ErrKind::NonConsecutive, _), Expect::NonConsecutive) if !validation_fails => {}
            (LibResult::Ok(text), Expect::Ok) if !validation_fails => check_ok_text(case, &decls, text, &mut o),
            (other, _) => o.fail(case, "result kind", want_text, other.short()),
        }
        o
    }
}

fn check_ok_text(case: &Case, decls: &[Decl], text: &str, o: &mut Outcome) {
    let items = match outline(text) {
        Ok(i) => i,
        Err(e) => return o.fail(case, "output is Rust", "parsable module", e),
    };
    let bg = module(&items, "bind_groups");
    let mut by_group: BTreeMap<u32, Vec<&Decl>> = BTreeMap::new();
    for d in decls {
        by_group.entry(d.group).or_default().push(d);
    }
    // no extra / renumbered groups
    let emitted: BTreeSet<String> = bg.iter().filter(|i| i.kind == Kind::Const && i.name.starts_with("LAYOUT_DESCRIPTOR")).map(|i| i.name.clone()).collect();
    let wanted: BTreeSet<String> = by_group.keys().map(|g| format!("LAYOUT_DESCRIPTOR{g}")).collect();
    if emitted != wanted {
        o.fail(case, "set of layout descriptors", format!("{wanted:?}"), format!("{emitted:?}"));
    }
    for (g, ds) in &by_group {
        let want: Vec<u64> = {
            let mut v: Vec<u64> = ds.iter().map(|d| d.binding as u64).collect();
            v.sort();
            v
        };
        match one(bg, Kind::Const, &format!("LAYOUT_DESCRIPTOR{g}")) {
            Ok(c) => {
                let mut got: Vec<u64> = layout_entries(&c.value).iter().filter_map(|e| e.binding.parse().ok()).collect();
                let n_entries = layout_entries(&c.value).len();
                got.sort();
                if got != want || n_entries != want.len() {
                    o.fail(case, format!("bindings in LAYOUT_DESCRIPTOR{g}"), format!("{want:?} each once"), format!("{got:?} ({n_entries} entries)"));
                }
            }
            Err(e) => o.fail(case, format!("LAYOUT_DESCRIPTOR{g}"), "exactly one", e),
        }
        match one(bg, Kind::Impl, &format!("|BindGroup{g}")) {
            Ok(im) => match one(&im.children, Kind::Fn, "from_bindings") {
                Ok(f) => {
                    let entries = bind_group_entries(&f.value);
                    if entries.len() != ds.len() {
                        o.fail(case, format!("BindGroup{g}::from_bindings entry count"), format!("{}", ds.len()), format!("{}", entries.len()));
                    }
                    for d in ds {
                        let hits: Vec<&(String, String)> = entries.iter().filter(|(b, _)| b.parse::<u64>().ok() == Some(d.binding as u64)).collect();
                        let suffix = format!("(bindings.{})", d.name);
                        if hits.len() != 1 || !hits[0].1.ends_with(&suffix) {
                            o.fail(
                                case,
                                format!("BindGroupEntry for `{}` @group({g}) @binding({})", d.name, d.binding),
                                format!("exactly one entry with binding: {} and resource ..{suffix}", d.binding),
                                format!("{hits:?}"),
                            );
                        }
                    }
                }
                Err(e) => o.fail(case, format!("BindGroup{g}::from_bindings"), "exactly one", e),
            },
            Err(e) => o.fail(case, format!("impl BindGroup{g}"), "exactly one", e),
        }
    }
}
