//! C19 — formatter choice and formatter failure never change the program.
//!
//! Oracle: the output with `rustfmt: false` for the same shader. With `rustfmt: true` and a faulty
//! (or real) `rustfmt` first in PATH the library must still return Ok(text) whose token sequence is
//! the same program. Token sequences are compared modulo a trailing comma before a closing
//! delimiter (prettyplease and rustfmt add those when they break a list over several lines).
//!
//! PATH is process-global: cases run one after another and PATH is restored after each.

use crate::common::*;
use proc_macro2::{Delimiter, TokenStream, TokenTree};
use std::path::PathBuf;
use std::time::Duration;

pub struct C19;

const LIMIT: Duration = Duration::from_secs(20);

/// fault name -> shell script body of the `rustfmt` stub (None = no stub: PATH holds an empty directory only)
pub const FAULTS: [(&str, Option<&str>); 21] = [
    ("absent", None),
    ("exit1-after-reading", Some("cat >/dev/null\nexit 1\n")),
    ("exit1-without-reading", Some("exit 1\n")),
    ("exit0-without-reading", Some("exit 0\n")),
    ("close-stdin-then-linger", Some("exec 0<&-\nsleep 0.2\nexit 1\n")),
    ("killed-by-signal", Some("kill -9 $$\n")),
    ("killed-after-reading", Some("cat >/dev/null\nkill -9 $$\n")),
    ("prints-nothing", Some("cat >/dev/null\nexit 0\n")),
    ("prints-invalid-utf8", Some("cat >/dev/null\nprintf '\\377\\376\\200'\nexit 0\n")),
    // reads everything, waits, then prints its input unchanged (a slow but correct formatter)
    ("slow-identity", Some("input=$(cat)\nsleep 0.3\nprintf '%s\\n' \"$input\"\nexit 0\n")),
    // fails noisily without reading its input: more than a pipe buffer on stderr (a library that pipes stderr and only
    // drains it after writing all of stdin deadlocks on large modules)
    ("noisy-stderr-exit1-without-reading", Some("head -c 400000 /dev/zero | tr '\\0' 'x' >&2\nexit 1\n")),
    // reads everything, prints a prefix of it, then is killed by a signal (a truncated program must never be returned)
    ("partial-output-then-killed", Some("input=$(cat)\nprintf '%s' \"$input\" | head -c 400\nkill -9 $$\n")),
    // prints something non-empty and exits 0 WITHOUT reading its input (a wrapper printing a banner, `--version` behaviour):
    // on a module larger than the pipe buffer the write fails, and the banner must not be returned as the program
    ("banner-exit0-without-reading", Some("printf 'fn main() {}\\n'\nexit 0\n")),
    // the same, but the banner is valid Rust-looking text and the stub lingers a moment before exiting
    ("banner-linger-exit0-without-reading", Some("printf '// formatted\\n'\nsleep 0.2\nexit 0\n")),
    // (all of these read their WHOLE input before they print anything, like rustfmt does: a filter that streams - `cat`, `tr` - fills
    // the stdout pipe while the library is still writing stdin, and a module of several hundred KB then never comes back; a streaming
    // formatter is none of the situations the property lists, see DESIGN 9.20)
    // "formatters" that read everything, exit 0 and print a DIFFERENT program that still lexes: the library must notice (it compares
    // token texts) and return the unformatted program - a weakened comparison (trailing `;` ignored, prefix accepted, ..) lets them through
    ("adds-semicolons-before-closing-braces", Some("sed 's/ }/ ; }/g'\nexit 0\n")),
    ("drops-semicolons-before-closing-braces", Some("sed 's/ ; }/ }/g'\nexit 0\n")),
    ("drops-the-last-item", Some("sed 's/pub fn create_pipeline_layout.*$//'\nexit 0\n")),
    ("appends-an-item", Some("f=$(mktemp)\ncat >\"$f\"\ncat \"$f\"\nprintf ' pub fn extra_item ( ) { }\\n'\nrm -f \"$f\"\nexit 0\n")),
    ("renames-an-identifier", Some("sed 's/create_shader_module/create_shader_modul3/g'\nexit 0\n")),
    // formatters that only change the CONTENT of a string literal (the embedded WGSL source): a marker that occurs nowhere but in a
    // comment of the shader, and every non-ASCII byte (an encoding-unclean formatter); identity on shaders without them
    ("rewrites-string-literal-content", Some("sed 's/ZQXJ/ZQXK/g'\nexit 0\n")),
    ("mangles-non-ascii-bytes", Some("f=$(mktemp)\ncat >\"$f\"\nLC_ALL=C tr '\\200-\\377' '?' <\"$f\"\nrm -f \"$f\"\nexit 0\n")),
];

/// Canonical token text: trailing commas before a closing delimiter dropped.
pub fn canon(ts: TokenStream) -> String {
    let toks: Vec<TokenTree> = ts.into_iter().collect();
    let mut out = String::new();
    let n = toks.len();
    for (i, t) in toks.into_iter().enumerate() {
        match t {
            TokenTree::Group(g) => {
                let (o, c) = match g.delimiter() {
                    Delimiter::Parenthesis => ("(", ")"),
                    Delimiter::Brace => ("{", "}"),
                    Delimiter::Bracket => ("[", "]"),
                    Delimiter::None => ("", ""),
                };
                out.push_str(o);
                out.push(' ');
                out.push_str(&canon(g.stream()));
                out.push_str(c);
            }
            TokenTree::Punct(p) if p.as_char() == ',' && i + 1 == n => continue,
            other => out.push_str(&other.to_string()),
        }
        out.push(' ');
    }
    out
}

pub fn canon_text(text: &str) -> Result<String, String> {
    text.parse::<TokenStream>().map(canon).map_err(|e| format!("not a token stream: {e}"))
}

fn stub_dir(fault: &str) -> Result<PathBuf, String> {
    let dir = std::env::temp_dir().join(format!("replay-c19-{}", std::process::id())).join(fault);
    std::fs::create_dir_all(&dir).map_err(|e| e.to_string())?;
    if let Some((_, Some(body))) = FAULTS.iter().find(|(n, _)| *n == fault) {
        use std::os::unix::fs::PermissionsExt;
        let p = dir.join("rustfmt");
        std::fs::write(&p, format!("#!/bin/sh\n{body}")).map_err(|e| e.to_string())?;
        std::fs::set_permissions(&p, std::fs::Permissions::from_mode(0o755)).map_err(|e| e.to_string())?;
    }
    Ok(dir)
}

/// A shader whose generated module is larger than the 64 KiB pipe buffer.
fn big_shader(groups: usize, per_group: usize) -> String {
    let mut s = String::from("struct Big { a: vec4<f32>, b: mat4x4<f32>, c: array<vec4<f32>, 4> }\n");
    for g in 0..groups {
        for b in 0..per_group {
            let tail = match (g + b) % 4 {
                0 => "var<uniform> NAME: Big;",
                1 => "var<storage, read_write> NAME: array<Big>;",
                2 => "var NAME: texture_2d<f32>;",
                _ => "var NAME: sampler;",
            };
            s.push_str(&format!("@group({g}) @binding({b}) {}\n", tail.replace("NAME", &format!("resource_{g}_{b}"))));
        }
    }
    s.push_str("@compute @workgroup_size(8, 8)\nfn main() { resource_0_1[0].a = resource_0_0.a; }\n@fragment\nfn fs_main() -> @location(0) vec4<f32> { return resource_0_0.a; }\n");
    s
}

fn shaders(seed: u64, tier: Tier) -> Vec<(String, String)> {
    let mut v = vec![
        ("tiny".to_string(), "@fragment\nfn main() {}\n".to_string()),
        ("big-8x24".to_string(), big_shader(8, 24)),
        // text that reaches the output ONLY inside the SOURCE string literal (comment, local names)
        ("marker-in-comment".to_string(), "// ZQXJ gr\u{fc}\u{df}e st\u{e4}rke\n@fragment\nfn main() { let zqxj_st\u{e4}rke = 1.0; }\n".to_string()),
    ];
    let mut rng = Rng::new(seed, 0xC19);
    let extra = if tier == Tier::Quick { 1 } else { 6 };
    for i in 0..extra {
        let g = rng.range(1, 6);
        let p = rng.range(1, 30);
        v.push((format!("rand{i}-{g}x{p}"), big_shader(g, p)));
    }
    if tier == Tier::Thorough {
        v.push(("huge-8x120".to_string(), big_shader(8, 120)));
    }
    v
}

impl Property for C19 {
    fn id(&self) -> &'static str {
        "C19"
    }
    fn rule(&self) -> &'static str {
        "Shaders whose output is below and above the 64 KiB pipe buffer x formatter situations {real rustfmt from PATH, absent, exit 1 after reading, exit 1 / exit 0 without reading, stdin closed early, killed by SIGKILL before/after reading, prints nothing, prints invalid UTF-8, slow identity formatter}, realised as shell stubs named `rustfmt` in a temp dir placed first in PATH (sequentially, PATH restored); oracle = the same call with rustfmt: false: the rustfmt: true call must return Ok(text) within 20 s, without panic, with the same token sequence (modulo trailing commas before closing delimiters)."
    }

    fn cases(&self, seed: u64, tier: Tier) -> Vec<Case> {
        let mut out = vec![];
        for (sname, wgsl) in shaders(seed, tier) {
            let mut opts = WriteOptions::default();
            opts.rustfmt = true;
            out.push(Case::new(format!("{sname}/real"), wgsl.clone(), Params { opts, include: None, extra: vec![("fault".into(), "real".into())] }));
            for (f, _) in FAULTS {
                out.push(Case::new(format!("{sname}/{f}"), wgsl.clone(), Params { opts, include: None, extra: vec![("fault".into(), f.to_string())] }));
            }
        }
        out
    }

    fn check(&self, case: &Case) -> Outcome {
        let fault = case.params.get("fault").unwrap_or("real").to_string();
        // reference: formatter off
        let mut plain = case.params.clone();
        plain.opts.rustfmt = false;
        let reference = match run_lib(&case.wgsl, &plain) {
            LibResult::Ok(t) => t,
            other => return Outcome::skip(format!("reference run (rustfmt: false) did not succeed: {}", other.short())),
        };
        let want = match canon_text(&reference) {
            Ok(c) => c,
            Err(e) => return Outcome::skip(format!("reference output {e}")),
        };
        let mut with = case.params.clone();
        with.opts.rustfmt = true;

        // --- environment
        let old_path = std::env::var_os("PATH");
        if fault != "real" {
            let dir = match stub_dir(&fault) {
                Ok(d) => d,
                Err(e) => return Outcome::skip(format!("cannot create stub: {e}")),
            };
            let new_path = if fault == "absent" {
                dir.clone().into_os_string()
            } else {
                // stub first, the usual directories after it (the stubs need cat / sleep / printf)
                let mut paths = vec![dir.clone()];
                if let Some(p) = &old_path {
                    paths.extend(std::env::split_paths(p));
                }
                std::env::join_paths(paths).unwrap_or_else(|_| dir.clone().into_os_string())
            };
            std::env::set_var("PATH", new_path);
        }
        let got = run_lib_timeout(&case.wgsl, &with, LIMIT);
        match &old_path {
            Some(p) => std::env::set_var("PATH", p),
            None => std::env::remove_var("PATH"),
        }

        let mut o = Outcome::default();
        let what = format!("rustfmt: true with formatter `{fault}` ({} bytes of output)", reference.len());
        match got {
            None => o.fail(case, what, "Ok(same program) within 20 s", "no result after 20 s (hang)"),
            Some((LibResult::Panic(m), _)) => o.fail(case, what, "Ok(same program), no panic", format!("panic: {m}")),
            Some((LibResult::Err(k, d), _)) => o.fail(case, what, "Ok(same program)", format!("Err({k:?}: {d})")),
            Some((LibResult::Ok(text), _)) => match canon_text(&text) {
                Ok(c) if c == want => {}
                Ok(c) => {
                    // first differing position, for the record
                    let a: Vec<&str> = want.split(' ').collect();
                    let b: Vec<&str> = c.split(' ').collect();
                    let i = a.iter().zip(b.iter()).position(|(x, y)| x != y).unwrap_or(a.len().min(b.len()));
                    let ctx = |v: &Vec<&str>| v[i.saturating_sub(6)..(i + 6).min(v.len())].join(" ");
                    o.fail(case, what, format!("{} tokens; around first difference: {}", a.len(), ctx(&a)), format!("{} tokens ({} bytes of text); around first difference: {}", b.len(), text.len(), ctx(&b)));
                }
                Err(e) => o.fail(case, what, "a Rust token stream", format!("{e}; text starts with {:?}", text.chars().take(80).collect::<String>())),
            },
        }
        o
    }
}
