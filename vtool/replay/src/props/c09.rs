//! C09 — derives and repr follow the write options exactly.
//!
//! Oracle: the statement's derive table evaluated on (options, host-shareable?, runtime tail?) per
//! struct — host-shareable = reachable from a module-scope variable in the naga module (cross-checked
//! with the generator's record) — plus non-interference: everything except derive lists and layout
//! assertions equals the output of the baseline options with the same representation.

use super::structs::*;
use crate::common::*;
use std::collections::BTreeSet;
use std::sync::Mutex;

pub struct C09;

const HAND: [&str; 3] = [
    "struct Bones { transforms: array<mat4x4<f32>, 64>, colors: array<vec4<f32>, 33> }\nstruct Scene { bones: Bones, weights: array<f32, 40>, tint: vec4<f32> }\nstruct Small { items: array<vec4<f32>, 32>, n: u32 }\nstruct VIn { @location(0) a: vec4<f32>, @location(1) b: vec2<f32> }\n@group(0) @binding(0) var<storage, read> scene: Scene;\n@group(0) @binding(1) var<storage, read> small: Small;\n@vertex\nfn vs_main(v: VIn) -> @builtin(position) vec4<f32> { return v.a + scene.tint + small.items[0]; }\n",
    "struct State { ready: bool, total: u32, flags: vec2<bool> }\nstruct Counters { hits: u32, misses: u32 }\nstruct VIn { @location(0) a: vec4<f32> }\nvar<workgroup> state: State;\nvar<private> pstate: State;\nvar<private> counters: Counters;\n@group(0) @binding(0) var<storage, read_write> out_counters: Counters;\n@compute @workgroup_size(1)\nfn main() { state.total = 1u; pstate.ready = true; counters.hits = 2u; out_counters.hits = counters.hits + state.total; }\n@vertex\nfn vs_main(v: VIn) -> @builtin(position) vec4<f32> { return v.a; }\n",
    "struct Palette { entries: array<array<vec4<f32>, 2>, 48> }\nstruct Frame { palette: array<Palette, 2>, exposure: f32 }\nstruct FIn { @location(0) uv: vec2<f32> }\n@group(0) @binding(0) var<storage, read> frame: Frame;\n@fragment\nfn fs_main(f: FIn) -> @location(0) vec4<f32> { return frame.palette[0].entries[1][0] * frame.exposure + vec4<f32>(f.uv, 0.0, 0.0); }\n",
];

fn derive_set(attrs: &[String]) -> Option<Vec<String>> {
    let d: Vec<&String> = attrs.iter().filter(|a| a.starts_with("#[derive(")).collect();
    if d.len() != 1 {
        return None;
    }
    let inner = d[0].strip_prefix("#[derive(")?.strip_suffix(")]")?;
    Some(split_top(inner))
}

/// Items that must not depend on the derive switches: (kind, name, text) with struct derive lists and assertions removed.
fn skeleton(items: &[Item]) -> Vec<String> {
    items
        .iter()
        .filter(|i| !(i.kind == Kind::Const && i.name == "_"))
        .map(|i| {
            if i.kind == Kind::Struct {
                format!("struct {} {:?} repr={}", i.name, i.fields, i.attrs.iter().any(|a| a == "#[repr(C)]"))
            } else {
                i.text.clone()
            }
        })
        .collect()
}

/// Skeleton of the baseline-options output. The cases of one world follow each other and mostly share one baseline
/// (same shader, representation, validation), so the last result is kept instead of running the library again.
fn baseline_skeleton(wgsl: &str, base: &Params) -> Option<Vec<String>> {
    static LAST: Mutex<Option<(String, String, Option<Vec<String>>)>> = Mutex::new(None);
    let key = base.describe();
    if let Ok(g) = LAST.lock() {
        if let Some((w, k, v)) = g.as_ref() {
            if w == wgsl && *k == key {
                return v.clone();
            }
        }
    }
    let v = match run_lib(wgsl, base) {
        LibResult::Ok(bt) => outline(&bt).ok().map(|bitems| skeleton(&bitems)),
        _ => None,
    };
    if let Ok(mut g) = LAST.lock() {
        *g = Some((wgsl.to_string(), key, v.clone()));
    }
    v
}

impl Property for C09 {
    fn id(&self) -> &'static str {
        "C09"
    }
    fn rule(&self) -> &'static str {
        "Seeded struct worlds (see C08; roles vertex-only, host-only, both - also a vertex input nested first / in the middle / last in a uniform or storage struct next to repeated and previously seen member types -, fragment-input, compute-input, runtime-array-terminated) x all 2^4 derive switches x 3 representations (combinations the library documents as unsupported for runtime arrays are skipped); oracle = the statement's table per struct: always Debug, Clone, PartialEq; Copy and #[repr(C)] unless it ends in a runtime array; bytemuck::Pod+Zeroable iff (host-shareable and the host switch) or (not host-shareable and the vertex switch); encase::ShaderType iff host-shareable and its switch; serde Serialize+Deserialize iff its switch; layout assertions iff host-shareable and the bytemuck host switch; no duplicates; and with derives/assertions removed the output equals the baseline-options output item by item."
    }

    fn cases(&self, seed: u64, tier: Tier) -> Vec<Case> {
        let n_worlds = if tier == Tier::Quick { 30 } else { 250 };
        let grid = option_grid();
        let mut out = vec![];
        for i in 0..n_worlds {
            let w = world_for(seed, 0xC09_0000, i);
            if let Ok(m) = naga_parse(&w.wgsl) {
                let host: BTreeSet<String> = host_closure(&m).iter().filter_map(|h| m.types[*h].name.clone()).collect();
                if host != w.host {
                    note(format!("host-shareable sets disagree on world {i}; dropped"));
                    continue;
                }
            }
            for (k, o) in grid.iter().enumerate() {
                if !supported(&w, o) {
                    continue;
                }
                // quick tier: all 16 switch combinations, representation rotating with the world
                if tier == Tier::Quick && k / 16 != i % 3 {
                    continue;
                }
                out.push(Case::new(format!("world{i}/opts{k}"), w.wgsl.clone(), Params::with_opts(*o)));
            }
        }
        // hand-written shapes (round 7/8 seeds): fixed arrays longer than 32 elements (serde implements its traits for arrays
        // only up to 32: a tempting reason to drop the derive), directly, nested in a member struct and as array element;
        // structs with bool members in private / workgroup variables, with validation on and off (naga's TypeFlags::HOST_SHAREABLE
        // is false for them, the property's host-shareable is "reachable from a module-scope variable")
        for (k, src) in HAND.iter().enumerate() {
            for (j, o) in grid.iter().enumerate() {
                if tier == Tier::Quick && j / 16 != k % 3 {
                    continue;
                }
                for v in [false, true] {
                    out.push(Case::new(format!("hand{k}/opts{j}/validate={v}"), src.to_string(), Params::with_opts(*o).validated(v)));
                }
            }
        }
        out
    }

    fn check(&self, case: &Case) -> Outcome {
        let (m, items) = match generate(case) {
            Ok(x) => x,
            Err(o) => return o,
        };
        let opts = case.params.opts;
        let host = host_closure(&m);
        let mut o = Outcome::default();
        let mut any_assert_expected = false;
        for h in expected_emitted(&m) {
            let name = m.types[h].name.clone().unwrap_or_default();
            let Ok(st) = one(&items, Kind::Struct, &name) else { continue };
            let hs = host.contains(&h);
            let rts = has_runtime_tail(&m, h);
            let mut want: Vec<&str> = vec!["Debug", "Clone", "PartialEq"];
            if !rts {
                want.push("Copy");
            }
            if (opts.derive_bytemuck_host_shareable && hs) || (opts.derive_bytemuck_vertex && !hs) {
                want.push("bytemuck::Pod");
                want.push("bytemuck::Zeroable");
            }
            if opts.derive_encase_host_shareable && hs {
                want.push("encase::ShaderType");
            }
            if opts.derive_serde {
                want.push("serde::Serialize");
                want.push("serde::Deserialize");
            }
            any_assert_expected |= opts.derive_bytemuck_host_shareable && hs;
            let role = format!("host-shareable={hs}, runtime-array={rts}");
            match derive_set(&st.attrs) {
                Some(got) => {
                    let gs: BTreeSet<&str> = got.iter().map(|s| s.as_str()).collect();
                    let ws: BTreeSet<&str> = want.iter().copied().collect();
                    if gs != ws || got.len() != want.len() {
                        o.fail(case, format!("derives of `{name}` ({role})"), format!("{ws:?}"), format!("{got:?}"));
                    }
                }
                None => o.fail(case, format!("derives of `{name}`"), "exactly one #[derive(..)]", format!("{:?}", st.attrs)),
            }
            let repr = st.attrs.iter().filter(|a| a.as_str() == "#[repr(C)]").count();
            if repr != usize::from(!rts) || st.attrs.iter().any(|a| a.starts_with("#[repr(") && a != "#[repr(C)]") {
                o.fail(case, format!("repr of `{name}` ({role})"), if rts { "no repr" } else { "#[repr(C)] once" }, format!("{:?}", st.attrs));
            }
        }
        let n_asserts = items.iter().filter(|i| i.kind == Kind::Const && i.name == "_").count();
        if (n_asserts > 0) != any_assert_expected {
            o.fail(case, "presence of layout assertions", format!("{any_assert_expected} (bytemuck host switch and a host-shareable struct)"), format!("{n_asserts} assertion items"));
        }

        // ---- non-interference against the baseline (same representation, no derive switches except what the input needs)
        let mut base = case.params.clone();
        base.opts = WriteOptions { matrix_vector_types: opts.matrix_vector_types, rustfmt: opts.rustfmt, validate: opts.validate, ..Default::default() };
        if items.iter().any(|i| i.kind == Kind::Struct && i.fields.iter().any(|f| f.2.iter().any(|a| a == "#[size(runtime)]"))) {
            base.opts.derive_encase_host_shareable = true;
        }
        if let Some(b) = baseline_skeleton(&case.wgsl, &base) {
            let a = skeleton(&items);
            if a != b {
                let i = a.iter().zip(b.iter()).position(|(x, y)| x != y).unwrap_or(a.len().min(b.len()));
                o.fail(case, "parts of the output the derive switches do not document (compared with baseline options)", clip(b.get(i).map(|s| s.as_str()).unwrap_or("<end>")), clip(a.get(i).map(|s| s.as_str()).unwrap_or("<end>")));
            }
        }
        o
    }
}
