//! C03 — binding visibility equals exactly the stages that statically use the binding.
//!
//! Oracle: naga's validator. `ModuleInfo::get_entry_point(i)[global]` is the `GlobalUse` set of
//! entry point i for that global (propagated through calls by naga itself); non-empty = used.

use crate::common::*;
use crate::gen::{self, ProgramSpec, Shape};
use std::collections::BTreeMap;

pub struct C03;

/// Expected visibility bits per global handle, from naga's analysis.
pub fn naga_stage_bits(module: &naga::Module, info: &naga::valid::ModuleInfo) -> BTreeMap<naga::Handle<naga::GlobalVariable>, u8> {
    let mut m = BTreeMap::new();
    for (h, _) in module.global_variables.iter() {
        let mut bits = 0u8;
        for (i, ep) in module.entry_points.iter().enumerate() {
            if !info.get_entry_point(i)[h].is_empty() {
                bits |= stage_bit(ep.stage);
            }
        }
        m.insert(h, bits);
    }
    m
}

/// True when some function mentions global `g` (an `Expression::GlobalVariable`) although naga records no
/// read/write/query for it there (keep-alive idioms such as `_ = tex;`, or `let p = &buf;` never dereferenced).
/// WGSL counts such a mention as a static access, naga's GlobalUse does not; for these globals the two notions
/// may legitimately differ, so extra stages reported by the library are not judged.
pub fn has_silent_reference(module: &naga::Module, info: &naga::valid::ModuleInfo, g: naga::Handle<naga::GlobalVariable>) -> bool {
    let mentions = |f: &naga::Function| f.expressions.iter().any(|(_, e)| matches!(e, naga::Expression::GlobalVariable(x) if *x == g));
    module.functions.iter().any(|(fh, f)| mentions(f) && info[fh][g].is_empty())
        || module.entry_points.iter().enumerate().any(|(i, ep)| mentions(&ep.function) && info.get_entry_point(i)[g].is_empty())
}

/// All visibility expressions emitted for (group, binding).
pub fn observed_visibility(items: &[Item]) -> BTreeMap<(u32, u64), Vec<String>> {
    let mut m: BTreeMap<(u32, u64), Vec<String>> = BTreeMap::new();
    for it in module(items, "bind_groups") {
        if it.kind == Kind::Const {
            if let Some(g) = it.name.strip_prefix("LAYOUT_DESCRIPTOR").and_then(|n| n.parse::<u32>().ok()) {
                for e in layout_entries(&it.value) {
                    if let Ok(b) = e.binding.parse::<u64>() {
                        m.entry((g, b)).or_default().push(e.visibility);
                    }
                }
            }
        }
    }
    m
}

fn spec_for(i: usize, rng: &mut Rng, tier: Tier) -> ProgramSpec {
    let shapes = [Shape::Random, Shape::Random, Shape::Chain, Shape::Diamond, Shape::Shared, Shape::NoHelpers, Shape::Random];
    let shape = shapes[i % shapes.len()];
    let big = tier == Tier::Thorough && i % 5 == 0;
    // entry point multiplicities: cover every subset of stages, several per stage, and none at all
    let pattern = i % 11;
    let entries = match pattern {
        0 => [1, 1, 1],
        1 => [1, 0, 0],
        2 => [0, 1, 0],
        3 => [0, 0, 1],
        4 => [1, 1, 0],
        5 => [0, 1, 1],
        6 => [1, 0, 1],
        7 => [2, 2, 2],
        8 => [0, 0, 0],
        9 => [rng.below(3), rng.below(3), rng.below(3)],
        _ => [2, 1, 3],
    };
    ProgramSpec {
        shape,
        n_globals: rng.range(1, if big { 14 } else { 7 }),
        n_helpers: match shape {
            Shape::NoHelpers => 0,
            Shape::Chain => rng.range(2, if big { 30 } else { 8 }),
            Shape::Diamond => rng.range(4, if big { 25 } else { 10 }),
            _ => rng.range(1, if big { 16 } else { 6 }),
        },
        groups: rng.range(1, 3) as u32,
        push_constant: rng.chance(1, 3),
        entries,
        wrap_depth: if big { 4 } else { 3 },
    }
}

impl Property for C03 {
    fn id(&self) -> &'static str {
        "C03"
    }
    fn rule(&self) -> &'static str {
        "Seeded random shaders: 1-14 resource bindings of every kind (+ optional push constant), helper call DAGs (random, chains, diamonds, shared helpers; statement calls, value-returning calls in expressions, `_ = f()`), each access/call wrapped 1-4 deep in if/else, switch cases, loop bodies, continuing blocks, break-if, for init/condition/update, nested blocks; 0-3 entry points per stage; oracle = naga validator's per-entry-point GlobalUse (non-empty = used), expected visibility = union of using entry points' stages, compared with the `visibility:` of the binding's entry in LAYOUT_DESCRIPTOR{g} and with PUSH_CONSTANT_STAGES (unused push constant: all stages having an entry point)."
    }

    fn cases(&self, seed: u64, tier: Tier) -> Vec<Case> {
        let n = if tier == Tier::Quick { 600 } else { 5000 };
        let mut out = vec![];
        // hand-written corpus first
        for (name, src) in corpus() {
            out.push(Case::new(format!("corpus/{name}"), src, Params::default()));
        }
        for i in 0..n {
            let mut rng = Rng::new(seed, 0xC03_0000 + i as u64);
            let spec = spec_for(i, &mut rng, tier);
            let p = gen::program(&spec, &mut rng);
            let wgsl = p.render();
            // ground-truth cross-check of the oracle: only keep cases where naga's analysis and the
            // generator's own bookkeeping agree (they always should; a disagreement is my bug, not the library's)
            if let (Ok(m), truth) = (naga_parse(&wgsl), p.expected_stage_bits()) {
                if let Ok(info) = naga_validate(&m) {
                    let nb = naga_stage_bits(&m, &info);
                    let agree = m.global_variables.iter().all(|(h, g)| {
                        let idx = p.globals.iter().position(|x| Some(&x.name) == g.name.as_ref());
                        idx.map(|i| truth[i] == nb[&h]).unwrap_or(false)
                    });
                    if !agree {
                        note(format!("generator truth and naga analysis disagree on case {i}; case dropped"));
                        continue;
                    }
                }
            }
            out.push(Case::new(format!("gen{i}/{:?}/e{:?}", spec.shape, spec.entries), wgsl, Params::default().validated(i % 4 == 3)));
        }
        out
    }

    fn check(&self, case: &Case) -> Outcome {
        let m = match naga_parse(&case.wgsl) {
            Ok(m) => m,
            Err(e) => return Outcome::skip(format!("shader does not parse: {e}")),
        };
        let info = match naga_validate(&m) {
            Ok(i) => i,
            Err(e) => return Outcome::skip(format!("shader does not validate: {e}")),
        };
        let expected = naga_stage_bits(&m, &info);
        let text = match run_lib(&case.wgsl, &case.params) {
            LibResult::Ok(t) => t,
            LibResult::Panic(msg) if is_documented_panic(&msg) => return Outcome::skip(format!("unsupported input: {msg}")),
            LibResult::Panic(msg) => {
                let mut o = Outcome::default();
                o.fail(case, "generation of a valid, supported shader", "Ok(text)", format!("panic: {msg}"));
                return o;
            }
            LibResult::Err(k, d) => return Outcome::skip(format!("not accepted: {k:?} {d}")),
        };
        let items = match outline(&text) {
            Ok(i) => i,
            Err(e) => {
                let mut o = Outcome::default();
                o.fail(case, "output is Rust", "parsable module", e);
                return o;
            }
        };
        let mut o = Outcome::default();
        let vis = observed_visibility(&items);
        let mut entry_bits = 0u8;
        for ep in &m.entry_points {
            entry_bits |= stage_bit(ep.stage);
        }
        let mut first_pc = true;
        for (h, g) in m.global_variables.iter() {
            let name = g.name.clone().unwrap_or_default();
            if let Some(b) = &g.binding {
                let want = expected[&h];
                match vis.get(&(b.group, b.binding as u64)).map(|v| v.as_slice()) {
                    Some([one]) => match parse_stages(one) {
                        Some(got) if got == want => {}
                        // more stages than naga's GlobalUse, but the global is mentioned without a recorded use: not judged
                        Some(got) if got & want == want && has_silent_reference(&m, &info, h) => {}
                        Some(got) => o.fail(case, format!("visibility of `{name}` @group({}) @binding({})", b.group, b.binding), stages_name(want), format!("{} ({one})", stages_name(got))),
                        None => o.fail(case, format!("visibility of `{name}`"), stages_name(want), format!("unrecognised expression {one}")),
                    },
                    Some(many) if many.len() > 1 => o.fail(case, format!("layout entry of `{name}`"), "exactly one entry", format!("{} entries", many.len())),
                    _ => o.fail(case, format!("layout entry of `{name}` @group({}) @binding({})", b.group, b.binding), "one BindGroupLayoutEntry with a visibility", "none"),
                }
            } else if g.space == naga::AddressSpace::PushConstant && first_pc {
                first_pc = false;
                let used = expected[&h];
                let want = if used != 0 { used } else { entry_bits };
                match find(&items, Kind::Const, "PUSH_CONSTANT_STAGES").as_slice() {
                    [c] => match parse_stages(&c.value) {
                        Some(got) if got == want => {}
                        Some(got) if got & used == used && has_silent_reference(&m, &info, h) => {}
                        Some(got) => o.fail(case, "PUSH_CONSTANT_STAGES", stages_name(want), format!("{} ({})", stages_name(got), c.value)),
                        None => o.fail(case, "PUSH_CONSTANT_STAGES", stages_name(want), format!("unrecognised expression {}", c.value)),
                    },
                    other => o.fail(case, "PUSH_CONSTANT_STAGES", "exactly one constant", format!("{} constants", other.len())),
                }
            }
        }
        o
    }
}

/// Panics the library documents for input outside its feature set.
pub fn is_documented_panic(msg: &str) -> bool {
    msg.contains("not yet implemented") || msg.contains("Unsupported") || msg.contains("not supported") || msg.contains("only supported with") || msg.contains("Runtime-sized array") || msg.contains("runtime-sized array") || msg.contains("Failed to generate BindingType")
}

/// Hand-written shaders (embedded at build time).
fn corpus() -> Vec<(String, String)> {
    vec![
        ("continuing.wgsl".to_string(), include_str!("../../corpus/C03/continuing.wgsl").to_string()),
        ("keepalive.wgsl".to_string(), include_str!("../../corpus/C03/keepalive.wgsl").to_string()),
    ]
}
