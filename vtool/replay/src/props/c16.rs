//! C16 — embedded shader source is byte-identical to the input.
//!
//! Oracle: the input string itself. The generated file is parsed with syn; the value of the
//! string literal initialising `pub const SOURCE: &str` (syn un-escapes it the way rustc does) must
//! equal the input byte for byte; in the include variant the initialiser must be
//! `include_str!(<path>)` with exactly the given path, and everything else must equal the embedded variant.

use crate::common::*;

pub struct C16;

/// Text fragments that stress escaping: quotes, backslashes, braces, raw-string look-alikes, CR / LF,
/// NUL and other control characters, non-ASCII and non-BMP text, bidi / zero-width characters.
const NASTY: [&str; 24] = [
    "\"quoted\"", "back\\slash \\n \\\" \\u{41} \\x41", "{braces} {{double}} #{hash}", "r#\"raw\"# r##\"x\"##", "'single' b'x' '\\''", "tab\there", "nul\0byte", "bell\u{7}esc\u{1b}[0m del\u{7f}",
    "caf\u{e9} na\u{ef}ve \u{fc}ber", "\u{4e2d}\u{6587} \u{65e5}\u{672c}\u{8a9e} \u{d55c}\u{ad6d}\u{c5b4}", "emoji \u{1f600}\u{1f680} \u{1f468}\u{200d}\u{1f469}\u{200d}\u{1f467}", "rtl \u{202e}override\u{202c} \u{5d0}\u{5d1}", "zero\u{200b}width \u{feff}bom", "combining e\u{301} a\u{30a}",
    "\u{2028}line-sep \u{2029}para-sep", "\u{85}nel", "math \u{1d54f} \u{10ffff}", "$dollar %percent @at `tick` ~tilde", "/* nested /* comment */ */", "// line // comment", "\\", "\"", "\\\"\\", "*/ /*",
];

fn base_shader(rng: &mut Rng) -> Vec<String> {
    let mut lines: Vec<String> = vec![
        "struct U { a: vec4<f32>, b: f32 }".into(),
        "@group(0) @binding(0) var<uniform> u: U;".into(),
        "const K: f32 = 1.5;".into(),
        "fn helper(x: f32) -> f32 { return x * K + u.b; }".into(),
        "@vertex".into(),
        "fn vs_main(@builtin(vertex_index) i: u32) -> @builtin(position) vec4<f32> {".into(),
        "    return vec4<f32>(helper(f32(i)));".into(),
        "}".into(),
        "@fragment".into(),
        "fn fs_main() -> @location(0) vec4<f32> { return u.a; }".into(),
    ];
    if rng.chance(1, 2) {
        // non-ASCII identifiers are valid WGSL
        lines.push("fn \u{3b4}elta_\u{e9}(\u{3c0}: f32) -> f32 { let r\u{e9}sultat = \u{3c0} * 2.0; return r\u{e9}sultat; }".into());
    }
    lines
}

fn source(seed: u64, i: usize) -> String {
    let mut rng = Rng::new(seed, 0xC16_0000 + i as u64);
    let mut lines = base_shader(&mut rng);
    // sprinkle comments carrying nasty text (line comments must not contain line breaks; block comments may)
    let n = rng.range(1, 6);
    for _ in 0..n {
        let frag = *rng.pick(&NASTY);
        let at = rng.below(lines.len() + 1);
        let has_break = frag.contains(['\n', '\r', '\u{2028}', '\u{2029}', '\u{85}', '\u{b}', '\u{c}']);
        let balanced = !frag.contains("/*") && !frag.contains("*/");
        let c = if balanced && (has_break || rng.chance(1, 2)) { format!("/* {frag} */") } else if !has_break { format!("// {frag}") } else { "// plain".to_string() };
        lines.insert(at, c);
    }
    // line ending style
    let eol = match i % 5 {
        0 => "\r\n",
        1 => "\n\n",
        _ => "\n",
    };
    let mut s = lines.join(eol);
    match i % 4 {
        0 => s.push_str(eol),
        1 => s.push_str("\n\n\t \n"),
        2 => s.insert_str(0, "\n  \n"),
        _ => {}
    }
    s
}

const PATHS: [&str; 10] = ["shader.wgsl", "../shaders/my shader.wgsl", "C:\\Users\\me\\shader.wgsl", "sh\"ader.wgsl", "\u{4e2d}\u{6587}/\u{1f600}.wgsl", "a{b}c.wgsl", "", "dir/./../x.wgsl", "tab\tname.wgsl", "r#\"x\"#.wgsl"];

impl Property for C16 {
    fn id(&self) -> &'static str {
        "C16"
    }
    fn rule(&self) -> &'static str {
        "Valid shaders (uniform struct, constant, helper, vertex + fragment entry, optional non-ASCII identifiers) with 1-6 injected line / block comments carrying quotes, backslashes and escape look-alikes, braces, raw-string delimiters, TAB, NUL, BEL/ESC/DEL, CR LF / LF LF line endings, U+2028/2029/0085, accented, CJK, emoji ZWJ sequences, bidi overrides, zero-width, non-BMP up to U+10FFFF, leading / trailing blank lines; 9 sources of 140 KB whose multi-byte characters straddle every power-of-two byte offset; embedded variant with formatter off and on, include variant with 10 path strings (spaces, backslashes, quotes, braces, non-ASCII, empty); oracle = the input itself: syn-parsed `pub const SOURCE: &str` literal value == input bytes (embedded) or `include_str!(path)` with exactly the path (include), create_shader_module wraps SOURCE unchanged, and the include variant differs from the embedded one in the SOURCE item only."
    }

    fn cases(&self, seed: u64, tier: Tier) -> Vec<Case> {
        let n = if tier == Tier::Quick { 160 } else { 1500 };
        let mut out = vec![];
        // large sources: a block comment of 2-, 3- and 4-byte characters long enough that, for each of the three byte offsets,
        // a multi-byte character straddles every power-of-two offset up to 128 KiB (chunked / buffered handling of the text)
        for (k, ch) in ["\u{e9}", "\u{4e2d}", "\u{1f600}"].iter().enumerate() {
            for off in 0..(k + 2) {
                let mut src = String::from("/*");
                src.push_str(&"x".repeat(off));
                while src.len() < 140_000 { src.push_str(ch); }
                src.push_str("*/\n@fragment\nfn fs_main() -> @location(0) vec4<f32> { return vec4<f32>(1.0); }\n");
                out.push(Case::new(format!("large{k}/offset{off}"), src, Params { opts: WriteOptions::default(), include: None, extra: vec![] }));
            }
        }
        for i in 0..n {
            let src = source(seed, i);
            if naga_parse(&src).is_err() {
                continue; // a fragment broke the shader (should not happen; such inputs are outside "valid WGSL")
            }
            let mut opts = WriteOptions::default();
            // real rustfmt now and then (it must leave the literal alone; if it is not installed the library falls back)
            opts.rustfmt = i % 8 == 7;
            out.push(Case::new(format!("embedded{i}/rustfmt={}", opts.rustfmt), src.clone(), Params { opts, include: None, extra: vec![] }));
            if i % 2 == 0 {
                let path = PATHS[(i / 2) % PATHS.len()];
                out.push(Case::new(format!("include{i}/{path:?}"), src, Params { opts: WriteOptions::default(), include: Some(path.to_string()), extra: vec![] }));
            }
        }
        out
    }

    fn check(&self, case: &Case) -> Outcome {
        if naga_parse(&case.wgsl).is_err() {
            return Outcome::skip("source is not valid WGSL");
        }
        let text = match run_lib(&case.wgsl, &case.params) {
            LibResult::Ok(t) => t,
            LibResult::Panic(msg) if super::c03::is_documented_panic(&msg) => return Outcome::skip(format!("unsupported input: {msg}")),
            LibResult::Panic(msg) => {
                let mut o = Outcome::default();
                o.fail(case, "generation for a valid shader", "Ok(text)", format!("panic: {msg}"));
                return o;
            }
            LibResult::Err(k, d) => return Outcome::skip(format!("not accepted: {k:?} {d}")),
        };
        let mut o = Outcome::default();
        // rustc normalises CR LF to LF when it loads a source file - also inside (raw) string literals - and rejects a bare CR in a raw
        // string: evaluate SOURCE on the text as rustc sees it (the library's escaped literal has no raw line ends, so this is the
        // identity on the unchanged tree)
        let text = text.replace("\r\n", "\n");
        let items = match outline(&text) {
            Ok(i) => i,
            Err(e) => {
                o.fail(case, "output is Rust", "parsable module", e);
                return o;
            }
        };
        let show = |s: &str| format!("{} bytes: {:?}", s.len(), s.chars().take(300).collect::<String>());
        let src_item = match one(&items, Kind::Const, "SOURCE") {
            Ok(c) => c,
            Err(e) => {
                o.fail(case, "const SOURCE", "exactly one", e);
                return o;
            }
        };
        if src_item.ty != "&str" || !src_item.text.starts_with("pubconstSOURCE") {
            o.fail(case, "declaration of SOURCE", "pub const SOURCE: &str", src_item.text.chars().take(120).collect::<String>());
        }
        match (&case.params.include, &src_item.lit) {
            (None, Some(Lit::Str(v))) => {
                if v != &case.wgsl {
                    // locate the first differing byte
                    let at = v.bytes().zip(case.wgsl.bytes()).position(|(a, b)| a != b).unwrap_or(v.len().min(case.wgsl.len()));
                    o.fail(case, format!("SOURCE value (first difference at byte {at})"), show(&case.wgsl), show(v));
                }
            }
            (Some(p), Some(Lit::IncludeStr(v))) => {
                if v != p {
                    o.fail(case, "include_str! path", format!("{p:?}"), format!("{v:?}"));
                }
            }
            (None, other) => o.fail(case, "SOURCE initialiser", "a string literal", format!("{other:?}")),
            (Some(p), other) => o.fail(case, "SOURCE initialiser", format!("include_str!({p:?})"), format!("{other:?}")),
        }
        // create_shader_module hands SOURCE to the device unchanged
        let want_body = "{letsource=std::borrow::Cow::Borrowed(SOURCE);device.create_shader_module(wgpu::ShaderModuleDescriptor{label:None,source:wgpu::ShaderSource::Wgsl(source)})}";
        match one(&items, Kind::Fn, "create_shader_module") {
            Ok(f) if f.value == want_body && f.ty == "pubfncreate_shader_module(device:&wgpu::Device)->wgpu::ShaderModule" => {}
            Ok(f) => o.fail(case, "create_shader_module", want_body, format!("{}{}", f.ty, f.value)),
            Err(e) => o.fail(case, "fn create_shader_module", "exactly one", e),
        }
        // include variant == embedded variant except for the SOURCE item
        if case.params.include.is_some() {
            let mut emb = case.params.clone();
            emb.include = None;
            if let LibResult::Ok(et) = run_lib(&case.wgsl, &emb) {
                if let Ok(eitems) = outline(&et) {
                    let strip = |v: &[Item]| -> Vec<String> { v.iter().filter(|i| !(i.kind == Kind::Const && i.name == "SOURCE")).map(|i| i.text.clone()).collect() };
                    let (a, b) = (strip(&items), strip(&eitems));
                    if a != b {
                        let i = a.iter().zip(b.iter()).position(|(x, y)| x != y).unwrap_or(a.len().min(b.len()));
                        o.fail(case, "include variant vs embedded variant outside SOURCE", clip(b.get(i).map(|s| s.as_str()).unwrap_or("<end>")), clip(a.get(i).map(|s| s.as_str()).unwrap_or("<end>")));
                    }
                }
            }
        }
        o
    }
}
