//! C07 — vertex buffer layouts mirror the vertex input structs.
//!
//! Oracle: naga's vertex entry points (struct-typed, binding-less arguments; their @location
//! members), with the vertex format table written from the statement (same scalar kind, width and
//! component count), cross-checked against the generator's record of each vertex entry's structs.
//! Byte offsets and strides are symbolic (`offset_of!` / `size_of`) and compared as such.

use super::structs::*;
use crate::common::*;
use std::collections::BTreeSet;

pub struct C07;

fn vertex_format(m: &naga::Module, ty: naga::Handle<naga::Type>) -> Option<String> {
    use naga::ScalarKind as K;
    let base = |s: naga::Scalar| -> Option<&'static str> {
        Some(match (s.kind, s.width) {
            (K::Float, 4) => "Float32",
            (K::Float, 8) => "Float64",
            (K::Sint, 4) => "Sint32",
            (K::Uint, 4) => "Uint32",
            _ => return None,
        })
    };
    match &m.types[ty].inner {
        naga::TypeInner::Scalar(s) => Some(base(*s)?.to_string()),
        naga::TypeInner::Vector { size, scalar } => Some(format!("{}x{}", base(*scalar)?, *size as u32)),
        _ => None,
    }
}

/// struct-typed, binding-less arguments of a vertex entry, in order
fn entry_structs(m: &naga::Module, e: &naga::EntryPoint) -> Vec<naga::Handle<naga::Type>> {
    e.function.arguments.iter().filter(|a| a.binding.is_none() && matches!(m.types[a.ty].inner, naga::TypeInner::Struct { .. })).map(|a| a.ty).collect()
}

impl Property for C07 {
    fn id(&self) -> &'static str {
        "C07"
    }
    fn rule(&self) -> &'static str {
        "Seeded struct worlds with 1-3 vertex entries taking 0-3 vertex input structs (f32/i32/u32/f64 scalars and vec2-4, arbitrary unordered location numbers, interleaved builtins, structs shared by several entries, one doubling as storage element) next to builtin and loose @location parameters (types also spelled through `alias`; a struct parameter also through an alias of the struct), entry points declared in shuffled order, x 3 representations x bytemuck/encase switches; oracle = naga entry arguments + the statement's format table: per struct exactly one impl with VERTEX_ATTRIBUTES holding one attribute per @location member {format of the same kind/width/count, offset_of!(S, member), its location} and vertex_buffer_layout {array_stride: size_of::<S>(), step_mode parameter, &S::VERTEX_ATTRIBUTES}; per vertex entry `buffers` = S_j::vertex_buffer_layout(step parameter j) in parameter order with distinct VertexStepMode parameters and VertexEntry<n>."
    }

    fn cases(&self, seed: u64, tier: Tier) -> Vec<Case> {
        let n = if tier == Tier::Quick { 300 } else { 3000 };
        let grid = option_grid();
        let mut out = vec![];
        for i in 0..n {
            let mut rng = Rng::new(seed, 0xC07_0000 + i as u64);
            let mut spec = spec_for(i, &mut rng);
            spec.n_vertex_entries = 1 + i % 3;
            let w = crate::sgen::world(&spec, &mut rng);
            if let Ok(m) = naga_parse(&w.wgsl) {
                let naga_view: Vec<(String, Vec<String>)> = m.entry_points.iter().filter(|e| e.stage == naga::ShaderStage::Vertex).map(|e| (e.name.clone(), entry_structs(&m, e).iter().filter_map(|h| m.types[*h].name.clone()).collect())).collect();
                if naga_view != w.vertex_entries {
                    note(format!("C07: vertex entry structs disagree on case {i}: {:?} vs {:?}; case dropped", w.vertex_entries, naga_view));
                    continue;
                }
            }
            let mut opts = grid[rng.below(grid.len())];
            if !supported(&w, &opts) {
                opts.derive_encase_host_shareable = true;
                opts.derive_bytemuck_host_shareable = false;
            }
            // f64 vertex attributes are outside naga's validation in some configurations: validate only f64-free worlds
            opts.validate = if i % 3 == 0 && !w.uses_f64 { Some(Default::default()) } else { None };
            out.push(Case::new(format!("world{i}"), w.wgsl, Params::with_opts(opts)));
        }
        out
    }

    fn check(&self, case: &Case) -> Outcome {
        let (m, items) = match generate(case) {
            Ok(x) => x,
            Err(o) => return o,
        };
        let mut o = Outcome::default();
        let mut all_structs: BTreeSet<naga::Handle<naga::Type>> = BTreeSet::new();
        for e in m.entry_points.iter().filter(|e| e.stage == naga::ShaderStage::Vertex) {
            let structs = entry_structs(&m, e);
            all_structs.extend(structs.iter().copied());
            // ---- entry helper
            let f = match one(&items, Kind::Fn, &format!("{}_entry", e.name)) {
                Ok(f) => f,
                Err(err) => {
                    o.fail(case, format!("fn {}_entry", e.name), "exactly one", err);
                    continue;
                }
            };
            let params: Vec<String> = {
                let open = f.ty.find('(').unwrap_or(0);
                let close = matching_close(&f.ty, open).unwrap_or(f.ty.len());
                split_top(&f.ty[open + 1..close - 1])
            };
            let step_params: Vec<String> = params.iter().filter_map(|p| p.strip_suffix(":wgpu::VertexStepMode").map(|s| s.to_string())).collect();
            let buffers: Vec<String> = match regions_after(&f.value, "buffers:[").as_slice() {
                [r] => split_top(&r[1..r.len() - 1]),
                _ => {
                    o.fail(case, format!("{}_entry buffers", e.name), "one array", f.value.clone());
                    continue;
                }
            };
            let names: Vec<String> = structs.iter().filter_map(|h| m.types[*h].name.clone()).collect();
            let mut ok = buffers.len() == names.len() && step_params.len() == names.len();
            let mut used: Vec<String> = vec![];
            if ok {
                for (b, n) in buffers.iter().zip(&names) {
                    match b.strip_prefix(&format!("{n}::vertex_buffer_layout(")).and_then(|r| r.strip_suffix(')')) {
                        Some(arg) if step_params.iter().any(|p| p == arg) && !used.iter().any(|u| u == arg) => used.push(arg.to_string()),
                        _ => ok = false,
                    }
                }
                // parameters appear in the same order as the buffers
                ok &= used == step_params;
            }
            if !ok || !f.ty.ends_with(&format!("->VertexEntry<{}>", names.len())) {
                o.fail(
                    case,
                    format!("buffer layouts of vertex entry `{}`", e.name),
                    format!("{:?} with one distinct wgpu::VertexStepMode parameter each, in order, -> VertexEntry<{}>", names.iter().map(|n| format!("{n}::vertex_buffer_layout(<step>)")).collect::<Vec<_>>(), names.len()),
                    format!("{}{}", f.ty, f.value),
                );
            }
        }
        // ---- per struct: attribute table and layout
        for h in &all_structs {
            let name = m.types[*h].name.clone().unwrap_or_default();
            let naga::TypeInner::Struct { members, .. } = &m.types[*h].inner else { continue };
            let mut want: Vec<String> = vec![];
            let mut supported = true;
            for mem in members {
                if let Some(naga::Binding::Location { location, .. }) = &mem.binding {
                    match vertex_format(&m, mem.ty) {
                        Some(fmt) => want.push(format!("wgpu::VertexAttribute{{format:wgpu::VertexFormat::{fmt},offset:std::mem::offset_of!({name},{})asu64,shader_location:{location}}}", mem.name.clone().unwrap_or_default())),
                        None => supported = false,
                    }
                }
            }
            if !supported {
                continue;
            }
            let impls: Vec<&Item> = find(&items, Kind::Impl, &format!("|{name}")).into_iter().filter(|i| i.children.iter().any(|c| c.name == "VERTEX_ATTRIBUTES" || c.name == "vertex_buffer_layout")).collect();
            let im = match impls.as_slice() {
                [i] => *i,
                other => {
                    o.fail(case, format!("impl {name} with VERTEX_ATTRIBUTES"), "exactly one", format!("{}", other.len()));
                    continue;
                }
            };
            match one(&im.children, Kind::Const, "VERTEX_ATTRIBUTES") {
                Ok(c) => {
                    let got = if c.value.starts_with('[') && c.value.ends_with(']') { split_top(&c.value[1..c.value.len() - 1]) } else { vec![c.value.clone()] };
                    let canon = |v: &Vec<String>| -> Vec<String> {
                        let mut x: Vec<String> = v
                            .iter()
                            .map(|a| {
                                // field order inside one attribute does not matter
                                match a.find('{') {
                                    Some(p) if a.ends_with('}') => {
                                        let mut f: Vec<String> = literal_fields(&a[p..]).into_iter().map(|(k, v)| format!("{k}:{v}")).collect();
                                        f.sort();
                                        format!("{}{{{}}}", &a[..p], f.join(","))
                                    }
                                    _ => a.clone(),
                                }
                            })
                            .collect();
                        x.sort();
                        x
                    };
                    if canon(&got) != canon(&want) || c.ty != format!("[wgpu::VertexAttribute;{}]", want.len()) {
                        o.fail(case, format!("{name}::VERTEX_ATTRIBUTES"), format!("[wgpu::VertexAttribute;{}] = {want:?}", want.len()), format!("{} = {}", c.ty, c.value));
                    }
                }
                Err(e) => o.fail(case, format!("{name}::VERTEX_ATTRIBUTES"), "exactly one", e),
            }
            match one(&im.children, Kind::Fn, "vertex_buffer_layout") {
                Ok(f) => {
                    let want_sig = "pubconstfnvertex_buffer_layout(step_mode:wgpu::VertexStepMode)->wgpu::VertexBufferLayout<'static>";
                    let body_fields: Vec<(String, String)> = f.value.strip_prefix("{wgpu::VertexBufferLayout").and_then(|r| r.strip_suffix('}')).map(literal_fields).unwrap_or_default();
                    let mut bf: Vec<String> = body_fields.iter().map(|(k, v)| if v.is_empty() { k.clone() } else { format!("{k}:{v}") }).collect();
                    bf.sort();
                    let mut wf = vec![format!("array_stride:std::mem::size_of::<{name}>()asu64"), "step_mode".to_string(), format!("attributes:&{name}::VERTEX_ATTRIBUTES")];
                    wf.sort();
                    // `step_mode` may also be spelled `step_mode: step_mode`
                    let bf: Vec<String> = bf.into_iter().map(|x| if x == "step_mode:step_mode" { "step_mode".to_string() } else { x }).collect();
                    let mut bf = bf;
                    bf.sort();
                    if f.ty != want_sig || bf != wf {
                        o.fail(case, format!("{name}::vertex_buffer_layout"), format!("{want_sig}{{wgpu::VertexBufferLayout{{{}}}}}", wf.join(",")), format!("{}{}", f.ty, f.value));
                    }
                }
                Err(e) => o.fail(case, format!("{name}::vertex_buffer_layout"), "exactly one", e),
            }
        }
        // no attribute table for a struct that is not a vertex input
        let want_names: BTreeSet<String> = all_structs.iter().filter_map(|h| m.types[*h].name.clone()).collect();
        for it in items.iter().filter(|i| i.kind == Kind::Impl && i.children.iter().any(|c| c.name == "VERTEX_ATTRIBUTES")) {
            let n = it.name.trim_start_matches('|').to_string();
            if !want_names.contains(&n) {
                o.fail(case, format!("impl {n} with VERTEX_ATTRIBUTES"), "none (not a vertex entry's struct parameter)", "present");
            }
        }
        o
    }
}
