//! C12 — override constants reach the pipeline under the right key and value (generator side).
//!
//! Oracle: naga's `module.overrides` (name, @id, type, default present), cross-checked against the
//! generator's own list. The generated `OverrideConstants` struct and its `constants()` body are
//! parsed into (field, type), required (key, value) pairs and optional inserts and compared as sets.
//! Limitation: the generated code is not executed, so "all assignments of field values" is covered
//! only through the shape of the value expressions (`self.x as f64`, `if self.b { 1.0 } else { 0.0 }`).

use crate::common::*;
use std::collections::BTreeSet;

pub struct C12;

const HAND: [&str; 4] = [
    "alias Flag = bool;\nalias Count = u32;\noverride strict: Flag;\n@id(3) override enabled: Flag = true;\noverride plain_flag: bool;\n@id(9) override n: Count;\noverride m: Count = 4u;\n@compute @workgroup_size(1)\nfn main() { var x = 0u; if (strict && enabled && plain_flag) { x = n + m; } }\n",
    "override epsilon: f64;\n@id(7) override step: f64 = 0.5lf;\noverride scale: f32 = 2.0;\noverride bias: f32;\n@compute @workgroup_size(1)\nfn main() { var x = epsilon * step; var y = scale + bias; }\n",
    "alias Real = f64;\nalias Toggle = bool;\n@id(100) override tolerance: Real;\noverride damping: Real = 0.25lf;\n@id(65535) override on: Toggle;\noverride off: Toggle = false;\n@fragment\nfn fs_main() -> @location(0) vec4<f32> { if (on || off) { return vec4<f32>(f32(tolerance * damping)); } return vec4<f32>(0.0); }\n@vertex\nfn vs_main() -> @builtin(position) vec4<f32> { return vec4<f32>(f32(tolerance)); }\n",
    "alias I = i32;\nalias F = f32;\n@id(1) override a: I = -3;\noverride b: I;\n@id(2) override c: F;\noverride d: F = 1.5;\n@compute @workgroup_size(1)\nfn main() { var x = f32(a + b) + c + d; }\n",
];

#[derive(Debug, Clone, PartialEq, Eq, PartialOrd, Ord)]
struct Ov {
    name: String,
    ty: String,
    has_default: bool,
    id: Option<u16>,
}

fn from_naga(m: &naga::Module) -> Option<Vec<Ov>> {
    let mut v = vec![];
    for (_, o) in m.overrides.iter() {
        let ty = match m.types[o.ty].inner {
            naga::TypeInner::Scalar(s) => match (s.kind, s.width) {
                (naga::ScalarKind::Bool, _) => "bool",
                (naga::ScalarKind::Sint, 4) => "i32",
                (naga::ScalarKind::Uint, 4) => "u32",
                (naga::ScalarKind::Float, 4) => "f32",
                (naga::ScalarKind::Float, 8) => "f64",
                _ => return None,
            },
            _ => return None,
        };
        v.push(Ov { name: o.name.clone()?, ty: ty.to_string(), has_default: o.init.is_some(), id: o.id });
    }
    Some(v)
}

fn shader(seed: u64, i: usize) -> (String, Vec<Ov>) {
    let mut rng = Rng::new(seed, 0xC12_0000 + i as u64);
    let n = if i % 7 == 0 { 0 } else { rng.range(1, 7) };
    let mut ovs: Vec<Ov> = vec![];
    let mut text = String::new();
    let mut ids: Vec<u16> = vec![];
    for k in 0..n {
        let ty = *rng.pick(&["bool", "i32", "u32", "f32"]);
        let name = match rng.below(4) {
            0 => format!("ov{k}"),
            1 => format!("Override_{k}"),
            2 => format!("scale{k}x"),
            _ => format!("FLAG{k}"),
        };
        let id = if rng.chance(1, 2) {
            let mut id = *rng.pick(&[0u16, 1, 2, 7, 10, 100, 1000, 65535, 42]);
            while ids.contains(&id) {
                id = id.wrapping_add(1);
            }
            ids.push(id);
            Some(id)
        } else {
            None
        };
        let same: Vec<String> = ovs.iter().filter(|o| o.ty == ty).map(|o| o.name.clone()).collect();
        let default = match rng.below(5) {
            0 | 1 => None,
            2 if !same.is_empty() => {
                // default depending on another override
                let other = rng.pick(&same).clone();
                Some(match ty {
                    "bool" => format!("!{other}"),
                    "f32" => format!("{other} * 2.0"),
                    "u32" => format!("{other} + 1u"),
                    _ => format!("{other} - 1"),
                })
            }
            _ => Some(
                match ty {
                    "bool" => *rng.pick(&["true", "false"]),
                    "f32" => *rng.pick(&["1.0", "-0.5", "3.4028234e38", "0.0"]),
                    "u32" => *rng.pick(&["0u", "4294967295u", "7u"]),
                    _ => *rng.pick(&["0", "-2147483648", "2147483647", "-1"]),
                }
                .to_string(),
            ),
        };
        let idattr = id.map(|i| format!("@id({i}) ")).unwrap_or_default();
        match &default {
            Some(d) => text.push_str(&format!("{idattr}override {name}: {ty} = {d};\n")),
            None => text.push_str(&format!("{idattr}override {name}: {ty};\n")),
        }
        ovs.push(Ov { name, ty: ty.to_string(), has_default: default.is_some(), id });
    }
    // entry points of every stage; the first override is used in a function body now and then
    let use_f32 = ovs.iter().find(|o| o.ty == "f32").map(|o| o.name.clone());
    let val = match (&use_f32, rng.chance(1, 2)) {
        (Some(n), true) => n.clone(),
        _ => "1.0".to_string(),
    };
    let stages = rng.below(8) | 1 << (i % 3);
    if stages & 1 != 0 {
        text.push_str(&format!("struct VIn {{ @location(0) p: vec3<f32> }}\n@vertex\nfn vs_main(v: VIn) -> @builtin(position) vec4<f32> {{ return vec4<f32>(v.p, {val}); }}\n"));
        if rng.chance(1, 2) {
            text.push_str("@vertex\nfn vs_other() -> @builtin(position) vec4<f32> { return vec4<f32>(0.0); }\n");
        }
    }
    if stages & 2 != 0 {
        text.push_str(&format!("@fragment\nfn fs_main() -> @location(0) vec4<f32> {{ return vec4<f32>({val}); }}\n"));
    }
    if stages & 4 != 0 {
        text.push_str("@compute @workgroup_size(1)\nfn cs_main() { }\n");
    }
    (text, ovs)
}

/// Parse `constants()`'s body: (uses `let mut`, required pairs, optional (field, key, value))
fn parse_body(body: &str) -> Result<(bool, Vec<(String, String)>, Vec<(String, String, String)>), String> {
    let inner = body.strip_prefix('{').and_then(|b| b.strip_suffix('}')).ok_or("no block")?;
    let (mutable, rest) = if let Some(r) = inner.strip_prefix("letmutentries=") {
        (true, r)
    } else if let Some(r) = inner.strip_prefix("letentries=") {
        (false, r)
    } else {
        return Err(format!("body does not start with `let [mut] entries =`: {inner}"));
    };
    let rest = rest.strip_prefix("std::collections::HashMap::from(").ok_or("no HashMap::from(")?;
    let close = matching_close(rest, 0).ok_or("unbalanced [")?;
    let list = &rest[1..close - 1];
    let mut required = vec![];
    for el in split_top(list) {
        let t = el.strip_prefix('(').and_then(|e| e.strip_suffix(')')).ok_or_else(|| format!("bad pair {el}"))?;
        let parts = split_top(t);
        if parts.len() != 2 {
            return Err(format!("bad pair {el}"));
        }
        required.push((parts[0].clone(), parts[1].clone()));
    }
    let mut rest = rest[close..].strip_prefix(");").ok_or("missing `);` after the map")?;
    let mut optional = vec![];
    loop {
        rest = rest.trim_start_matches(';');
        if rest == "entries" {
            break;
        }
        let r = rest.strip_prefix("ifletSome(value)=self.").ok_or_else(|| format!("unexpected statement: {rest}"))?;
        let open = r.find('{').ok_or("no block")?;
        let field = r[..open].to_string();
        let end = matching_close(r, open).ok_or("unbalanced block")?;
        let blk = &r[open + 1..end - 1];
        let call = blk.strip_prefix("entries.insert(").and_then(|c| c.strip_suffix(");")).ok_or_else(|| format!("unexpected insert: {blk}"))?;
        let parts = split_top(call);
        if parts.len() != 2 {
            return Err(format!("unexpected insert: {blk}"));
        }
        optional.push((field, parts[0].clone(), parts[1].clone()));
        rest = &r[end..];
    }
    Ok((mutable, required, optional))
}

impl Property for C12 {
    fn id(&self) -> &'static str {
        "C12"
    }
    fn rule(&self) -> &'static str {
        "Seeded shaders with 0-7 overrides of type bool/i32/u32/f32, with/without default (literal extremes, or depending on an earlier override), with/without @id (0..65535), next to vertex / fragment / compute entry points; oracle = naga module.overrides (cross-checked with the generator's list): OverrideConstants has one `pub name: T` per override, `Option<T>` exactly when it has a default; constants() builds the map from exactly the required overrides as (KEY.to_owned(), self.name as f64 | if self.name {1.0} else {0.0}) and inserts exactly the optional ones under `if let Some(value) = self.name`, KEY = decimal @id or else the name; vertex/fragment entry helpers take `overrides: &OverrideConstants` and pass `overrides.constants()` iff overrides exist, else `Default::default()`; nothing is emitted without overrides. The generated code is not executed."
    }

    fn cases(&self, seed: u64, tier: Tier) -> Vec<Case> {
        let n = if tier == Tier::Quick { 400 } else { 4000 };
        let mut out = vec![];
        for i in 0..n {
            let (wgsl, truth) = shader(seed, i);
            if let Ok(m) = naga_parse(&wgsl) {
                let mut a = from_naga(&m).unwrap_or_default();
                let mut b = truth.clone();
                a.sort();
                b.sort();
                if a != b {
                    note(format!("C12: generator's override list and naga's disagree on case {i}: {b:?} vs {a:?}; case dropped"));
                    continue;
                }
            }
            out.push(Case::new(format!("gen{i}/{}overrides", truth.len()), wgsl, Params::default().validated(i % 3 == 0)));
        }
        // hand-written shapes (round 7/8 seeds): override types spelled through `alias` (naga gives the aliased scalar a NAMED,
        // hence distinct, type handle) and double precision overrides (naga accepts them with the FLOAT64 capability)
        for (k, src) in HAND.iter().enumerate() {
            for v in [false, true] {
                out.push(Case::new(format!("hand{k}/validate={v}"), src.to_string(), Params::default().validated(v)));
            }
        }
        out
    }

    fn check(&self, case: &Case) -> Outcome {
        let m = match naga_parse(&case.wgsl) {
            Ok(m) => m,
            Err(e) => return Outcome::skip(format!("shader does not parse: {e}")),
        };
        if case.params.opts.validate.is_some() {
            if let Err(e) = naga_validate(&m) {
                return Outcome::skip(format!("shader does not validate: {e}"));
            }
        }
        let Some(ovs) = from_naga(&m) else { return Outcome::skip("override of a type outside bool/i32/u32/f32/f64") };
        let text = match run_lib(&case.wgsl, &case.params) {
            LibResult::Ok(t) => t,
            LibResult::Panic(msg) if super::c03::is_documented_panic(&msg) => return Outcome::skip(format!("unsupported input: {msg}")),
            LibResult::Panic(msg) => {
                let mut o = Outcome::default();
                o.fail(case, "generation of a valid, supported shader", "Ok(text)", format!("panic: {msg}"));
                return o;
            }
            LibResult::Err(k, d) => return Outcome::skip(format!("not accepted: {k:?} {d}")),
        };
        let mut o = Outcome::default();
        let items = match outline(&text) {
            Ok(i) => i,
            Err(e) => {
                o.fail(case, "output is Rust", "parsable module", e);
                return o;
            }
        };
        let structs = find(&items, Kind::Struct, "OverrideConstants");
        if ovs.is_empty() {
            if !structs.is_empty() || !find(&items, Kind::Impl, "|OverrideConstants").is_empty() {
                o.fail(case, "OverrideConstants without overrides", "absent", "present");
            }
        } else {
            match structs.as_slice() {
                [st] => {
                    let got: BTreeSet<(String, String)> = st.fields.iter().map(|(n, t, _)| (n.clone(), t.clone())).collect();
                    let want: BTreeSet<(String, String)> = ovs.iter().map(|v| (v.name.clone(), if v.has_default { format!("Option<{}>", v.ty) } else { v.ty.clone() })).collect();
                    if got != want || st.fields.len() != ovs.len() {
                        o.fail(case, "fields of OverrideConstants", format!("{want:?}"), format!("{:?}", st.fields.iter().map(|(n, t, _)| (n, t)).collect::<Vec<_>>()));
                    }
                }
                other => o.fail(case, "struct OverrideConstants", "exactly one", format!("{}", other.len())),
            }
            let key = |v: &Ov| norm(&format!("{:?}.to_owned()", v.id.map(|i| i.to_string()).unwrap_or(v.name.clone())));
            match one(&items, Kind::Impl, "|OverrideConstants").and_then(|im| one(&im.children, Kind::Fn, "constants")) {
                Ok(f) => {
                    if f.ty != "pubfnconstants(&self)->std::collections::HashMap<String,f64>" {
                        o.fail(case, "OverrideConstants::constants signature", "pub fn constants(&self) -> std::collections::HashMap<String, f64>", f.ty.clone());
                    }
                    match parse_body(&f.value) {
                        Ok((mutable, required, optional)) => {
                            let want_req: BTreeSet<(String, String)> = ovs.iter().filter(|v| !v.has_default).map(|v| (key(v), if v.ty == "bool" { format!("ifself.{}{{1.0}}else{{0.0}}", v.name) } else { format!("self.{}asf64", v.name) })).collect();
                            let got_req: BTreeSet<(String, String)> = required.iter().cloned().collect();
                            if got_req != want_req || required.len() != want_req.len() {
                                o.fail(case, "required entries of constants()", format!("{want_req:?}"), format!("{required:?}"));
                            }
                            let want_opt: BTreeSet<(String, String, String)> = ovs.iter().filter(|v| v.has_default).map(|v| (v.name.clone(), key(v), if v.ty == "bool" { "ifvalue{1.0}else{0.0}".to_string() } else { "valueasf64".to_string() })).collect();
                            let got_opt: BTreeSet<(String, String, String)> = optional.iter().cloned().collect();
                            if got_opt != want_opt || optional.len() != want_opt.len() {
                                o.fail(case, "optional inserts of constants()", format!("{want_opt:?}"), format!("{optional:?}"));
                            }
                            if !want_opt.is_empty() && !mutable {
                                o.fail(case, "constants() map mutability", "let mut entries", "let entries");
                            }
                        }
                        Err(e) => o.fail(case, "shape of constants() body", "let [mut] entries = HashMap::from([..]); (if let Some(value) = self.x { entries.insert(..); })* entries", format!("{e} in {}", f.value)),
                    }
                }
                Err(e) => o.fail(case, "OverrideConstants::constants", "exactly one", e),
            }
        }
        // entry helpers pass the map through
        for ep in &m.entry_points {
            if ep.stage == naga::ShaderStage::Compute {
                continue;
            }
            let Ok(f) = one(&items, Kind::Fn, &format!("{}_entry", ep.name)) else { continue };
            let takes = f.ty.contains("overrides:&OverrideConstants)") || f.ty.contains("overrides:&OverrideConstants,");
            let passes = f.value.contains("constants:overrides.constants()}");
            let defaults = f.value.contains("constants:Default::default()}");
            let ok = if ovs.is_empty() { !takes && defaults && !passes } else { takes && passes && !defaults };
            if !ok {
                o.fail(case, format!("{}_entry override plumbing", ep.name), if ovs.is_empty() { "no overrides parameter, constants: Default::default()" } else { "overrides: &OverrideConstants, constants: overrides.constants()" }, format!("{}{}", f.ty, f.value));
            }
        }
        o
    }
}
