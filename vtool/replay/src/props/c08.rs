//! C08 — exactly the host-visible structs are emitted, once each.
//!
//! Oracle: the C08 statement evaluated on the naga module (closure of module-scope variable types,
//! entry parameters that are not entry results), cross-checked when the cases are built against the
//! generator's own record of the role it gave each struct.

use super::structs::*;
use crate::common::*;
use std::collections::BTreeSet;

pub struct C08;

const DUAL_ROLE: [&str; 3] = [
    "struct GBuffer { @location(0) albedo: vec4<f32>, @location(1) normal: vec4<f32> }\n@group(0) @binding(0) var<uniform> defaults: GBuffer;\n@fragment fn fs_main() -> GBuffer { return defaults; }\n",
    "struct Varyings { @builtin(position) pos: vec4<f32>, @location(0) uv: vec2<f32> }\nstruct Store { items: array<Varyings, 4> }\n@group(0) @binding(0) var<storage, read> store: Store;\n@vertex fn vs_main(@builtin(vertex_index) i: u32) -> Varyings { return store.items[i % 4u]; }\n",
    "struct Particle { pos: vec4<f32>, vel: vec4<f32> }\n@group(0) @binding(0) var<storage, read_write> particles: array<Particle>;\nstruct OnlyOut { @location(0) c: vec4<f32> }\n@fragment fn fs_main() -> OnlyOut { var o: OnlyOut; o.c = particles[0].pos; return o; }\n",
];

impl Property for C08 {
    fn id(&self) -> &'static str {
        "C08"
    }
    fn rule(&self) -> &'static str {
        "Seeded struct worlds: 1-12 host structs nested through members / fixed arrays / runtime arrays and bound as uniform, storage, private or workgroup variables (some only reachable through nesting, some unused, some used by two variables), vertex input structs shared by 0-3 vertex entries (one doubling as storage element), an inter-stage struct (vertex result + parameter of one or two fragment entries, the entry points declared in shuffled order so that a consumer may stand above its producer), host structs nesting a vertex input struct, fragment-only input, fragment output, compute builtin input, function-local and unused structs, definitions in shuffled order; oracle = naga module evaluated per the statement (reachable from a module-scope variable, or entry parameter that is no entry result), cross-checked with the generator's role bookkeeping: the set of top-level `pub struct` items (minus the fixed helper structs) equals it and no name repeats."
    }

    fn cases(&self, seed: u64, tier: Tier) -> Vec<Case> {
        let n = if tier == Tier::Quick { 400 } else { 4000 };
        let grid = option_grid();
        let mut out = vec![];
        // hand-written worlds the random generator does not produce: a struct that is BOTH reachable from a module-scope
        // variable AND an entry point's return type (must be emitted), directly and through nesting
        for (k, wgsl) in DUAL_ROLE.iter().enumerate() {
            out.push(Case::new(format!("dual-role{k}"), wgsl.to_string(), Params::with_opts(WriteOptions::default())));
        }
        for i in 0..n {
            let w = world_for(seed, 0xC08_0000, i);
            if let Ok(m) = naga_parse(&w.wgsl) {
                let naga_set: BTreeSet<String> = expected_emitted(&m).iter().filter_map(|h| m.types[*h].name.clone()).collect();
                if naga_set != w.emitted {
                    note(format!("generator truth {:?} and naga-derived set {:?} disagree on case {i}; case dropped", w.emitted, naga_set));
                    continue;
                }
            }
            let mut rng = Rng::new(seed, 0xC08_F000 + i as u64);
            let mut opts = *rng.pick(&grid);
            if !supported(&w, &opts) {
                opts = WriteOptions { derive_encase_host_shareable: true, derive_bytemuck_host_shareable: false, ..opts };
            }
            opts.validate = if i % 3 == 0 { Some(Default::default()) } else { None };
            out.push(Case::new(format!("world{i}"), w.wgsl, Params::with_opts(opts)));
        }
        out
    }

    fn check(&self, case: &Case) -> Outcome {
        let (m, items) = match generate(case) {
            Ok(x) => x,
            Err(o) => return o,
        };
        let mut o = Outcome::default();
        let want: Vec<String> = expected_emitted(&m).iter().filter_map(|h| m.types[*h].name.clone()).collect();
        // fixed helper structs of the generated module that are not WGSL structs
        let fixed = ["VertexEntry", "FragmentEntry", "OverrideConstants"];
        let got: Vec<String> = items.iter().filter(|i| i.kind == Kind::Struct && !(fixed.contains(&i.name.as_str()) && !want.contains(&i.name))).map(|i| i.name.clone()).collect();
        let want_set: BTreeSet<&String> = want.iter().collect();
        let got_set: BTreeSet<&String> = got.iter().collect();
        for missing in want_set.difference(&got_set) {
            o.fail(case, format!("struct `{missing}` (host-visible)"), "emitted once", "not emitted");
        }
        for extra in got_set.difference(&want_set) {
            o.fail(case, format!("struct `{extra}` (not host-visible)"), "not emitted", "emitted");
        }
        for name in &got_set {
            let k = got.iter().filter(|g| g == name).count();
            if k > 1 {
                o.fail(case, format!("struct `{name}`"), "emitted once", format!("emitted {k} times"));
            }
        }
        o
    }
}
