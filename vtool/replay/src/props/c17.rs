//! C17 — parse and validation failures come back as errors; validation only gates.
//!
//! Oracle: naga itself, called directly on the same text with the same capabilities:
//!   * `parse_str` fails            -> Err(ParseError) whose rendered diagnostic equals naga's own,
//!   * parses, validator rejects     -> (validation on) Err(ValidationError), same diagnostic,
//!   * passes                        -> validation on and off give the identical result,
//! never a panic in the first two situations, including while rendering the error.
//! If naga's OWN diagnostic rendering panics on an input the case is skipped (dependency behaviour).

use crate::common::*;
use crate::gen::{self, ProgramSpec, Shape};

pub struct C17;

enum R {
    Ok(String),
    /// kind, Display, rendered diagnostic (or the panic message of rendering)
    Err(ErrKind, String, Result<String, String>),
    Panic(String),
}

fn run(wgsl: &str, params: &Params) -> R {
    match std::panic::catch_unwind(|| call_lib(wgsl, params)) {
        Ok(Ok(t)) => R::Ok(t),
        Ok(Err(e)) => {
            let kind = match &e {
                CreateModuleError::NonConsecutiveBindGroups => ErrKind::NonConsecutive,
                CreateModuleError::DuplicateBinding { binding } => ErrKind::Duplicate(*binding),
                CreateModuleError::ParseError { .. } => ErrKind::Parse,
                CreateModuleError::ValidationError { .. } => ErrKind::Validation,
                _ => ErrKind::Other,
            };
            let display = e.to_string();
            let diag = std::panic::catch_unwind(std::panic::AssertUnwindSafe(|| {
                let a = e.emit_to_string(wgsl);
                let b = e.emit_to_string_with_path(wgsl, "some/path.wgsl");
                format!("{a}\n--- with path ---\n{b}")
            }))
            .map_err(panic_message);
            R::Err(kind, display, diag)
        }
        Err(p) => R::Panic(panic_message(p)),
    }
}

fn describe(r: &R) -> String {
    match r {
        R::Ok(t) => format!("Ok({} bytes)", t.len()),
        R::Err(k, d, diag) => format!("Err({k:?}: {}) diagnostic: {}", clip(d), match diag {
            Ok(s) => clip(s),
            Err(p) => format!("PANIC while rendering: {p}"),
        }),
        R::Panic(m) => format!("panic: {}", clip(m)),
    }
}

fn same(a: &R, b: &R) -> bool {
    match (a, b) {
        (R::Ok(x), R::Ok(y)) => x == y,
        (R::Err(k1, d1, _), R::Err(k2, d2, _)) => k1 == k2 && d1 == d2,
        (R::Panic(x), R::Panic(y)) => x == y,
        _ => false,
    }
}

/// Parsable but semantically invalid (or capability-dependent) modules.
const SEMANTIC: [&str; 16] = [
    "@vertex fn v() -> @location(0) vec4<f32> { return vec4<f32>(0.0); }",
    "@group(0) @binding(0) var<uniform> a: vec4<f32>;\n@group(0) @binding(0) var<uniform> b: vec4<f32>;\n@fragment fn f() -> @location(0) vec4<f32> { return a + b; }",
    "@group(0) @binding(0) var t: texture_2d<f32>;\n@group(0) @binding(1) var s: sampler;\n@compute @workgroup_size(1) fn c() { let x = textureSample(t, s, vec2<f32>(0.0)); }",
    "@group(0) @binding(0) var<uniform> a: array<f32, 4>;\n@fragment fn f() -> @location(0) vec4<f32> { return vec4<f32>(a[0]); }",
    "struct S { a: f32, b: vec3<f32> }\n@group(0) @binding(0) var<uniform> a: array<S, 2>;\n@fragment fn f() {}",
    "var<push_constant> pc: vec4<f32>;\n@fragment fn f() -> @location(0) vec4<f32> { return pc; }",
    "const D: f64 = 1.5lf;\n@group(0) @binding(0) var<storage, read_write> o: array<f64>;\n@compute @workgroup_size(1) fn c() { o[0] = D; }",
    "@fragment fn f(@location(0) x: i32) -> @location(0) vec4<f32> { return vec4<f32>(f32(x)); }",
    "@fragment fn f() -> @location(0) vec4<f32> { return vec4<f32>(1.0); }\n@fragment fn g() -> @builtin(position) vec4<f32> { return vec4<f32>(1.0); }",
    "@compute @workgroup_size(0) fn c() {}",
    "@group(0) @binding(0) var<storage, read> a: array<atomic<u32>, 2>;\n@compute @workgroup_size(1) fn c() { atomicAdd(&a[0], 1u); }",
    "@group(0) @binding(0) var st: texture_storage_2d<r32uint, atomic>;\n@compute @workgroup_size(1) fn c() { textureAtomicAdd(st, vec2<i32>(0), 1u); }",
    "@group(0) @binding(0) var<uniform> a: vec4<f32>;\n@vertex fn v() -> @builtin(position) vec4<f32> { return a; }\n@vertex fn v2(@builtin(position) p: vec4<f32>) -> @builtin(position) vec4<f32> { return p; }",
    "struct O { @location(0) a: vec4<f32>, @location(0) b: vec4<f32> }\n@fragment fn f() -> O { var o: O; return o; }",
    "var<workgroup> w: array<u32, 4>;\n@fragment fn f() -> @location(0) vec4<f32> { return vec4<f32>(f32(w[0])); }",
    "@group(0) @binding(0) var<storage, read_write> big: array<u32>;\n@compute @workgroup_size(1) fn c(@builtin(subgroup_size) s: u32) { big[0] = s; }",
];

const NEEDS_DEFAULT_CAPS: [&str; 4] = [
    "@group(0) @binding(0) var t: texture_cube_array<f32>;\n@group(0) @binding(1) var s: sampler;\n@fragment fn f() -> @location(0) vec4<f32> { return textureSample(t, s, vec3<f32>(0.0), 0); }",
    "@group(0) @binding(0) var t: texture_depth_cube_array;\n@group(0) @binding(1) var s: sampler_comparison;\n@fragment fn f() -> @location(0) vec4<f32> { return vec4<f32>(textureSampleCompare(t, s, vec3<f32>(0.0), 0, 0.5)); }",
    "@fragment fn f(@builtin(sample_index) i: u32) -> @location(0) vec4<f32> { return vec4<f32>(f32(i)); }",
    "struct V { @builtin(position) p: vec4<f32>, @location(0) @interpolate(perspective, sample) c: vec4<f32> }\n@vertex fn v() -> V { var o: V; return o; }\n@fragment fn f(i: V) -> @location(0) vec4<f32> { return i.c; }",
];

fn bases(seed: u64, k: usize) -> String {
    let mut rng = Rng::new(seed, 0xC17_B000 + k as u64);
    match k % 3 {
        0 => {
            let spec = ProgramSpec { shape: Shape::Random, n_globals: rng.range(1, 4), n_helpers: rng.range(0, 3), groups: 1, push_constant: rng.chance(1, 4), entries: [1, 1, 1], wrap_depth: 2 };
            gen::program(&spec, &mut rng).render()
        }
        1 => super::structs::world_for(seed, 0xC17_A000, k).wgsl,
        _ => "struct U { a: vec4<f32>, b: f32 }\n@group(0) @binding(0) var<uniform> u: U;\nconst K: f32 = 1.5;\noverride scale: f32 = 2.0;\nfn helper(x: f32) -> f32 { return x * K + u.b * scale; }\n// caf\u{e9} \u{1f600}\n@vertex\nfn vs_main(@builtin(vertex_index) i: u32) -> @builtin(position) vec4<f32> {\n    return vec4<f32>(helper(f32(i)));\n}\n@fragment\nfn fs_main() -> @location(0) vec4<f32> { return u.a; }\n".to_string(),
    }
}

fn corrupt(src: &str, rng: &mut Rng) -> (String, &'static str) {
    let chars: Vec<char> = src.chars().collect();
    if chars.is_empty() {
        return (String::new(), "empty");
    }
    let pos = rng.below(chars.len());
    let punct = ['{', '}', '(', ')', '[', ']', '<', '>', ';', ':', ',', '@', '#', '"', '\'', '\\', '/', '*', '=', '-', '&', '|', '!', '.', '0', '_'];
    let uni = ['\0', '\u{feff}', '\u{e9}', '\u{1f600}', '\u{202e}', '\u{2028}', '\u{200b}', '\u{7f}', '\u{1b}', '\u{10ffff}', '\u{3c0}'];
    match rng.below(12) {
        0 => (chars[..pos].iter().collect(), "truncate"),
        1 => {
            let len = rng.range(1, 20).min(chars.len() - pos);
            (chars[..pos].iter().chain(chars[pos + len..].iter()).collect(), "delete-span")
        }
        2 => {
            let mut toks: Vec<&str> = src.split(' ').collect();
            if toks.len() > 2 {
                let a = rng.below(toks.len());
                let b = rng.below(toks.len());
                toks.swap(a, b);
            }
            (toks.join(" "), "swap-tokens")
        }
        3 => {
            let mut c = chars.clone();
            c[pos] = *rng.pick(&punct);
            (c.into_iter().collect(), "replace-char")
        }
        4 => {
            let mut c = chars.clone();
            c.insert(pos, *rng.pick(&uni));
            (c.into_iter().collect(), "inject-unicode")
        }
        5 => {
            let mut lines: Vec<&str> = src.lines().collect();
            let i = rng.below(lines.len());
            let l = lines[i];
            lines.insert(i, l);
            (lines.join("\n"), "duplicate-line")
        }
        6 => {
            let mut lines: Vec<&str> = src.lines().collect();
            let i = rng.below(lines.len());
            lines.remove(i);
            (lines.join("\n"), "delete-line")
        }
        7 => {
            let (from, to) = *rng.pick(&[("f32", "f33"), ("vec4", "vec5"), ("u32", "i32"), ("f32", "u32"), ("var", "let"), ("fn ", "fn fn "), ("return", "retrun"), ("@binding", "@bindnig"), ("@group(0)", "@group(7)"), ("<uniform>", "<storage>"), ("read_write", "read"), ("vec4<f32>", "vec3<f32>"), ("@vertex", "@compute"), ("@location(0)", "@location(0) @location(1)")]);
            (src.replacen(from, to, 1), "rename")
        }
        8 => {
            let mut c = chars.clone();
            if let Some(i) = c.iter().rposition(|x| *x == '}') {
                c.remove(i);
            }
            (c.into_iter().collect(), "drop-closing-brace")
        }
        9 => {
            let mut c = chars.clone();
            let ins: Vec<char> = rng.pick(&["((((", "}}}}", "/*", "*/", "\"", "////", "@@", "<<<<", "::", "->->"]).chars().collect();
            for (k, ch) in ins.into_iter().enumerate() {
                c.insert(pos + k, ch);
            }
            (c.into_iter().collect(), "inject-punctuation")
        }
        10 => {
            // two edits
            let (a, _) = corrupt(src, rng);
            let (b, _) = corrupt(&a, rng);
            (b, "double")
        }
        _ => (chars[pos..].iter().collect(), "drop-prefix"),
    }
}

fn caps_for(i: usize, rng: &mut Rng) -> WgslCapabilities {
    match i % 4 {
        0 | 1 => WgslCapabilities::all(),
        2 => WgslCapabilities::empty(),
        _ => WgslCapabilities::from_bits_truncate(rng.next() as u32),
    }
}

const KEEPALIVE: [&str; 2] = [
    "@group(0) @binding(0) var tex: texture_2d<f32>;\n@group(0) @binding(1) var samp: sampler;\n@group(0) @binding(2) var<uniform> u: vec4<f32>;\n@fragment fn fs_main() -> @location(0) vec4<f32> {\n    _ = tex;\n    _ = samp;\n    return u;\n}\n",
    "@group(0) @binding(0) var<storage, read_write> buf: array<f32>;\n@group(0) @binding(1) var<uniform> k: f32;\n@compute @workgroup_size(1) fn cs_main() {\n    let p = &buf;\n    _ = k;\n}\n@vertex fn vs_main() -> @builtin(position) vec4<f32> {\n    _ = k;\n    return vec4<f32>(0.0);\n}\n",
];

impl Property for C17 {
    fn id(&self) -> &'static str {
        "C17"
    }
    fn rule(&self) -> &'static str {
        "Valid base shaders (random call-graph programs, struct worlds, a fixed mixed shader with non-ASCII comments) under 12 corruption operators (truncation, span / line deletion, token swap, character replacement, injected NUL / BOM / bidi / non-BMP characters, duplicated lines, renamed keywords and types, dropped closing brace, injected punctuation runs, double edits, dropped prefix), the uncorrupted bases, and 16 parsable-but-invalid or capability-dependent modules, each with validation on under capability sets all / empty / random; oracle = naga called directly with the same text and capabilities: front-end error -> Err(ParseError) with naga's own rendered diagnostic, validator error -> Err(ValidationError) with naga's diagnostic, otherwise the validation-on and validation-off results are identical; no panic in the error paths including rendering."
    }

    fn cases(&self, seed: u64, tier: Tier) -> Vec<Case> {
        let n = if tier == Tier::Quick { 900 } else { 9000 };
        let mut out = vec![];
        let n_bases = if tier == Tier::Quick { 24 } else { 120 };
        let base: Vec<String> = (0..n_bases).map(|k| bases(seed, k)).collect();
        let mk = |name: String, wgsl: String, caps: WgslCapabilities| {
            let mut p = Params::default();
            p.opts.validate = Some(ValidationOptions { capabilities: caps });
            Case::new(name, wgsl, p)
        };
        for (k, b) in base.iter().enumerate() {
            out.push(mk(format!("base{k}/intact/caps=all"), b.clone(), WgslCapabilities::all()));
            out.push(mk(format!("base{k}/intact/caps=empty"), b.clone(), WgslCapabilities::empty()));
        }
        // valid shaders in which a resource is referenced without naga recording a use (keep-alive idiom, unused pointer):
        // anything that derives the output from the validator's analysis instead of the module differs here
        for (k, s) in KEEPALIVE.iter().enumerate() {
            out.push(mk(format!("keepalive{k}/caps=all"), s.to_string(), WgslCapabilities::all()));
            out.push(mk(format!("keepalive{k}/caps=default"), s.to_string(), WgslCapabilities::default()));
        }
        for (k, s) in SEMANTIC.iter().enumerate() {
            out.push(mk(format!("semantic{k}/caps=all"), s.to_string(), WgslCapabilities::all()));
            out.push(mk(format!("semantic{k}/caps=empty"), s.to_string(), WgslCapabilities::empty()));
        }
        // modules that need CUBE_ARRAY_TEXTURES / MULTISAMPLED_SHADING (naga's `Capabilities::default()`): the validator must run
        // with exactly the capability set the caller gave - not with defaults or-ed in
        for (k, s) in NEEDS_DEFAULT_CAPS.iter().enumerate() {
            for (cn, caps) in [("all", WgslCapabilities::all()), ("empty", WgslCapabilities::empty()), ("default", WgslCapabilities::default()),
                               ("pc+f64", WgslCapabilities::PUSH_CONSTANT | WgslCapabilities::FLOAT64),
                               ("all-but-defaults", WgslCapabilities::all().difference(WgslCapabilities::default()))] {
                out.push(mk(format!("needs-default-cap{k}/caps={cn}"), s.to_string(), caps));
            }
        }
        // the text goes to the front end exactly as given: byte order marks, NUL and other characters a "helpful" pre-processing
        // step would strip or normalise, before and after an otherwise valid shader (naga decides; the library must agree)
        const DECOR: [&str; 12] = ["\u{feff}", "\u{feff}\u{feff}", "\0", "\u{1a}", "\u{c}", "\u{b}", "\u{2028}", "\u{85}", "\u{200b}", "\u{a0}", "\r", "\u{1b}[0m"];
        for (k, d) in DECOR.iter().enumerate() {
            let b = &base[k % base.len()];
            out.push(mk(format!("decor{k}/prefix"), format!("{d}{b}"), WgslCapabilities::all()));
            out.push(mk(format!("decor{k}/suffix"), format!("{b}{d}"), WgslCapabilities::all()));
            out.push(mk(format!("decor{k}/prefix-nl"), format!("{d}\n{b}"), WgslCapabilities::all()));
        }
        for i in 0..n {
            let mut rng = Rng::new(seed, 0xC17_0000 + i as u64);
            let b = &base[rng.below(base.len())];
            let (c, op) = corrupt(b, &mut rng);
            let caps = caps_for(i, &mut rng);
            out.push(mk(format!("corrupt{i}/{op}/caps={:#x}", caps.bits()), c, caps));
        }
        out
    }

    fn check(&self, case: &Case) -> Outcome {
        let src = &case.wgsl;
        let caps = case.params.opts.validate.map(|v| v.capabilities).unwrap_or(WgslCapabilities::all());
        let mut on = case.params.clone();
        on.opts.validate = Some(ValidationOptions { capabilities: caps });
        let mut off = case.params.clone();
        off.opts.validate = None;
        let mut o = Outcome::default();

        // ---- oracle: naga directly
        let parsed = match std::panic::catch_unwind(|| naga::front::wgsl::parse_str(src)) {
            Ok(r) => r,
            Err(p) => return Outcome::skip(format!("naga's front end itself panics on this input: {}", panic_message(p))),
        };
        match parsed {
            Err(e) => {
                // naga's own rendering, without and with a path: the library must hand source and path through unchanged
                let want_diag = match std::panic::catch_unwind(std::panic::AssertUnwindSafe(|| format!("{}\n--- with path ---\n{}", e.emit_to_string(src), e.emit_to_string_with_path(src, "some/path.wgsl")))) {
                    Ok(d) => d,
                    Err(p) => return Outcome::skip(format!("naga's own diagnostic rendering panics: {}", panic_message(p))),
                };
                let want_display = format!("failed to parse: {e}");
                for (label, p) in [("validation on", &on), ("validation off", &off)] {
                    match run(src, p) {
                        R::Err(ErrKind::Parse, d, Ok(diag)) if d == want_display && diag == want_diag => {}
                        other => o.fail(case, format!("source rejected by the WGSL front end ({label})"), format!("Err(ParseError) displaying {want_display:?} and rendering naga's diagnostic {want_diag:?}"), describe(&other)),
                    }
                }
            }
            Ok(module) => {
                let validated = match std::panic::catch_unwind(|| naga::valid::Validator::new(naga::valid::ValidationFlags::all(), caps).validate(&module)) {
                    Ok(r) => r,
                    Err(p) => return Outcome::skip(format!("naga's validator itself panics on this input: {}", panic_message(p))),
                };
                match validated {
                    Err(e) => {
                        let want_diag = match std::panic::catch_unwind(std::panic::AssertUnwindSafe(|| format!("{}\n--- with path ---\n{}", e.emit_to_string(src), e.emit_to_string_with_path(src, "some/path.wgsl")))) {
                            Ok(d) => d,
                            Err(p) => return Outcome::skip(format!("naga's own diagnostic rendering panics: {}", panic_message(p))),
                        };
                        let want_display = format!("failed to validate: {e}");
                        match run(src, &on) {
                            R::Err(ErrKind::Validation, d, Ok(diag)) if d == want_display && diag == want_diag => {}
                            other => o.fail(case, format!("module rejected by the validator (capabilities {:#x})", caps.bits()), format!("Err(ValidationError) displaying {want_display:?} and rendering naga's diagnostic"), describe(&other)),
                        }
                    }
                    Ok(_) => {
                        let (a, b) = (run(src, &on), run(src, &off));
                        if !same(&a, &b) {
                            o.fail(case, "validation on vs off for a module that passes validation", describe(&b), describe(&a));
                        }
                        if let R::Err(ErrKind::Parse | ErrKind::Validation, ..) = a {
                            o.fail(case, "module accepted by naga's front end and validator", "no parse / validation error", describe(&a));
                        }
                    }
                }
            }
        }
        o
    }
}
