//! C15 — module constants are exported with the WGSL type and the exact value.
//!
//! Oracle: naga's constant evaluator. Every named `module.constants` entry whose initialiser in
//! `module.global_expressions` is a `Literal` (or the `ZeroValue` of a scalar type, e.g. `i32()`) must appear exactly once as `pub const NAME: TY = VALUE;`
//! with TY fixed by the literal variant and VALUE reading back (Rust literal rules) to the same bits;
//! every other named constant must not appear at all.

use crate::common::*;

pub struct C15;

const I32_VALUES: [&str; 14] = ["0", "1", "-1", "7", "-7", "2147483647", "-2147483648", "-2147483647", "0x7fffffff", "0x10", "65536", "-65536", "123456789", "42"];
const U32_VALUES: [&str; 9] = ["0u", "1u", "4294967295u", "0xFFFFFFFFu", "2147483648u", "0x80000000u", "255u", "65535u", "3000000000u"];
const F32_VALUES: [&str; 26] = [
    "0.0", "-0.0", "1.0", "-1.0", "0.5", "0.1", "-0.1", "1.5", "3.4028234e38", "-3.4028234e38", "1.17549435e-38", "-1.17549435e-38", "1e-45", "-1e-45", "1.401298464e-45", "5.877472e-39", "1.1754942e-38",
    "16777216.0", "16777217.0", "0.33333334", "1e10", "123456.789", "1e-10", "0x1p-126", "0x1.fffffep127", "0x1p-149",
];
const F64_VALUES: [&str; 16] = [
    "0.0lf", "-0.0lf", "1.5lf", "-1.5lf", "0.1lf", "1.7976931348623157e308lf", "-1.7976931348623157e308lf", "2.2250738585072014e-308lf", "4.9e-324lf", "-4.9e-324lf", "2.225073858507201e-308lf", "1e-320lf",
    "9007199254740993.0lf", "0.30000000000000004lf", "1e300lf", "3.141592653589793lf",
];
const I64_VALUES: [&str; 6] = ["0li", "-1li", "9223372036854775807li", "-9223372036854775807li", "4294967296li", "-4294967296li"];
const U64_VALUES: [&str; 4] = ["0lu", "18446744073709551615lu", "4294967296lu", "9223372036854775808lu"];

#[derive(Clone, Copy, PartialEq, Debug)]
enum T {
    I32,
    U32,
    F32,
    F64,
    Bool,
    I64,
    U64,
    NonScalar,
}

/// One candidate declaration: (type class, optional explicit type, initialiser expression)
fn candidate(rng: &mut Rng, prior: &[(String, T)]) -> (T, Option<&'static str>, String) {
    let of = |t: T| -> Vec<&String> { prior.iter().filter(|(_, pt)| *pt == t).map(|(n, _)| n).collect() };
    let k = rng.below(100);
    // references to earlier constants of the same class
    if k < 22 && !prior.is_empty() {
        let (name, t) = rng.pick(prior).clone();
        let others = of(t);
        let other = (*rng.pick(&others)).clone();
        let e = match t {
            T::I32 => match rng.below(6) {
                0 => format!("{name}"),
                1 => format!("-{name}"),
                2 => format!("{name} / 2 + {other} % 3"),
                3 => format!("min({name}, {other})"),
                4 => format!("({name} & 255) | 1"),
                _ => format!("{name} - {name}"),
            },
            T::U32 => match rng.below(5) {
                0 => format!("{name}"),
                1 => format!("{name} / 3u"),
                2 => format!("max({name}, {other})"),
                3 => format!("~{name}"),
                _ => format!("{name} >> 1u"),
            },
            T::F32 => match rng.below(6) {
                0 => format!("{name}"),
                1 => format!("-{name}"),
                2 => format!("{name} * 0.5"),
                3 => format!("abs({name})"),
                4 => format!("min({name}, {other})"),
                _ => format!("{name} - {name}"),
            },
            T::F64 => match rng.below(4) {
                0 => format!("{name}"),
                1 => format!("-{name}"),
                2 => format!("{name} * 0.5lf"),
                _ => format!("abs({name})"),
            },
            T::Bool => match rng.below(3) {
                0 => format!("!{name}"),
                1 => format!("{name} && {other}"),
                _ => format!("{name} || !{other}"),
            },
            T::I64 | T::U64 => format!("{name}"),
            T::NonScalar => format!("{name}"),
        };
        return (t, None, e);
    }
    match k % 20 {
        0 | 1 => (T::I32, Some("i32"), rng.pick(&I32_VALUES).to_string()),
        2 => (T::I32, None, rng.pick(&I32_VALUES).to_string()), // abstract int, concretised by naga
        3 => (T::I32, None, format!("{}i", rng.pick(&["0", "1", "2147483647", "12"]))),
        4 => (T::U32, if rng.chance(1, 2) { Some("u32") } else { None }, rng.pick(&U32_VALUES).to_string()),
        5 | 6 => (T::F32, Some("f32"), rng.pick(&F32_VALUES).to_string()),
        7 => (T::F32, None, rng.pick(&F32_VALUES).to_string()), // abstract float
        8 => (T::F32, None, format!("{}f", rng.pick(&["0.0", "-0.0", "1.5", "1e-45", "3.4028234e38", "0.1", "2"]))),
        9 | 10 => (T::F64, if rng.chance(1, 2) { Some("f64") } else { None }, rng.pick(&F64_VALUES).to_string()),
        11 => (T::F64, Some("f64"), format!("f64({})", rng.pick(&["2.5", "-0.0", "0.1", "1e-45", "7", "-1.5", "-4.9e-324", "-1.7976931348623157e308", "-0.1"]))),
        12 => (T::Bool, if rng.chance(1, 2) { Some("bool") } else { None }, rng.pick(&["true", "false", "!true", "1 < 2", "2.0 <= 1.0", "true && false", "3u == 3u", "bool()", "!bool()"]).to_string()),
        13 => (T::I64, if rng.chance(1, 2) { Some("i64") } else { None }, rng.pick(&I64_VALUES).to_string()),
        14 => (T::U64, if rng.chance(1, 2) { Some("u64") } else { None }, rng.pick(&U64_VALUES).to_string()),
        15 => (
            // constant expressions over literals
            T::I32,
            None,
            rng.pick(&["1 + 2 * 3", "7 % 3", "-(-3)", "1 << 3", "(1 << 30) - 1 + (1 << 30)", "i32(3.9f)", "i32(-3.9f)", "select(1, 2, true)", "abs(-5)", "clamp(17, 0, 9)", "i32(4000000000u)", "-2147483647 - 1", "countOneBits(255)", "vec3(1, 2, 3).y", "array<i32, 3>(4, 5, 6)[2]", "i32()", "i32() + 1", "vec2<i32>().x"]).to_string(),
        ),
        16 => (T::U32, None, rng.pick(&["1u << 31u", "~0u", "max(1u, 7u)", "u32(7)", "4294967295u / 2u", "u32(3.99f)", "vec2<u32>(8u, 9u).x", "0u - 0u", "firstLeadingBit(256u)", "u32()"]).to_string()),
        17 => (
            T::F32,
            None,
            rng.pick(&[
                "1.0 / 3.0", "0.1 + 0.2", "sqrt(2.0)", "pow(2.0, 10.0)", "floor(-1.5)", "f32(7)", "f32(16777217)", "7.0 / 2", "abs(-2.5)", "-(0.0)", "0.0 * -1.0", "1e-45 * 0.5", "1e38 * 3.0", "fract(1.25)", "sign(-0.0)", "min(-0.0, 0.0)", "f32(0.1lf)", "vec2<f32>(0.25, -0.0).y", "exp2(-149.0)", "ceil(-0.5)", "round(2.5)", "trunc(-0.9)", "f32()", "-f32()", "vec3<f32>().z",
            ])
            .to_string(),
        ),
        18 => (T::F64, None, rng.pick(&["0.1lf + 0.2lf", "1.0lf / 3.0lf", "-(0.0lf)", "f64(1) / f64(3)", "f64(0.1f)", "1e308lf * 1.5lf", "sqrt(2.0lf)", "f64()"]).to_string()),
        _ => (
            T::NonScalar,
            None,
            rng.pick(&["vec3<f32>(1.0, 2.0, 3.0)", "vec2(1, 2)", "array<i32, 2>(1, 2)", "mat2x2<f32>(1.0, 0.0, 0.0, 1.0)", "vec4<bool>(true)", "array<vec2<f32>, 1>(vec2<f32>(0.0))", "CPair(1, 2.0)", "vec3<u32>()", "CPair()", "array<f32, 2>()", "mat2x2<f32>()"]).to_string(),
        ),
    }
}

const CONST_NAMES: [&str; 6] = ["C", "K_", "max_count", "Pi", "x", "LONG_CONSTANT_NAME_"];

fn shader(seed: u64, i: usize, tier: Tier) -> String {
    let mut rng = Rng::new(seed, 0xC15_0000 + i as u64);
    let mut text = String::from("struct CPair { a: i32, b: f32 }\n");
    let mut prior: Vec<(String, T)> = vec![];
    let want = rng.range(3, if tier == Tier::Quick { 10 } else { 16 });
    let mut attempts = 0;
    while prior.len() < want && attempts < want * 4 {
        attempts += 1;
        let (t, ty, e) = candidate(&mut rng, &prior);
        let name = format!("{}{}", rng.pick(&CONST_NAMES), prior.len());
        let decl = match ty {
            Some(ty) => format!("const {name}: {ty} = {e};\n"),
            None => format!("const {name} = {e};\n"),
        };
        // keep only declarations naga's front end accepts (overflowing expressions etc. are rejected there)
        let trial = format!("{text}{decl}");
        if naga_parse(&trial).is_ok() {
            text = trial;
            prior.push((name, t));
        }
    }
    match i % 3 {
        0 => text.push_str("@compute @workgroup_size(1)\nfn main() {}\n"),
        1 => {
            // use the first constant so that it is also referenced from a function
            text.push_str("@fragment\nfn main() -> @location(0) vec4<f32> { return vec4<f32>(1.0); }\n")
        }
        _ => {}
    }
    text
}

/// Zero of a scalar type, written out independently of naga's helper.
fn zero_of(s: naga::Scalar) -> Option<naga::Literal> {
    use naga::ScalarKind as K;
    Some(match (s.kind, s.width) {
        (K::Float, 4) => naga::Literal::F32(0.0),
        (K::Float, 8) => naga::Literal::F64(0.0),
        (K::Sint, 4) => naga::Literal::I32(0),
        (K::Uint, 4) => naga::Literal::U32(0),
        (K::Sint, 8) => naga::Literal::I64(0),
        (K::Uint, 8) => naga::Literal::U64(0),
        (K::Bool, _) => naga::Literal::Bool(false),
        _ => return None,
    })
}

fn literal_expectation(l: &naga::Literal) -> (&'static str, String) {
    match l {
        naga::Literal::F64(v) => ("f64", format!("{v:?} (bits {:#x})", v.to_bits())),
        naga::Literal::F32(v) => ("f32", format!("{v:?} (bits {:#x})", v.to_bits())),
        naga::Literal::U32(v) => ("u32", v.to_string()),
        naga::Literal::I32(v) => ("i32", v.to_string()),
        naga::Literal::U64(v) => ("u64", v.to_string()),
        naga::Literal::I64(v) => ("i64", v.to_string()),
        naga::Literal::Bool(v) => ("bool", v.to_string()),
        naga::Literal::AbstractInt(v) => ("i64", v.to_string()),
        naga::Literal::AbstractFloat(v) => ("f64", format!("{v:?} (bits {:#x})", v.to_bits())),
    }
}

/// Does the emitted Rust literal denote exactly the naga literal? (suffix must be absent or equal to the type)
fn same_value(l: &naga::Literal, ty: &str, lit: &Lit) -> bool {
    let num = |neg: bool, digits: &str, suffix: &str| -> Option<(bool, String)> {
        if !(suffix.is_empty() || suffix == ty) {
            return None;
        }
        Some((neg, digits.to_string()))
    };
    let parts = match lit {
        Lit::Int(n, d, s) | Lit::Float(n, d, s) => num(*n, d, s),
        Lit::Bool(b) => return matches!(l, naga::Literal::Bool(v) if v == b),
        _ => None,
    };
    let Some((neg, digits)) = parts else { return false };
    let as_int = || -> Option<i128> { digits.parse::<i128>().ok().map(|v| if neg { -v } else { v }) };
    match l {
        naga::Literal::F32(v) => digits.parse::<f32>().map(|x| (if neg { -x } else { x }).to_bits() == v.to_bits()).unwrap_or(false),
        naga::Literal::F64(v) | naga::Literal::AbstractFloat(v) => digits.parse::<f64>().map(|x| (if neg { -x } else { x }).to_bits() == v.to_bits()).unwrap_or(false),
        naga::Literal::U32(v) => as_int() == Some(*v as i128),
        naga::Literal::I32(v) => as_int() == Some(*v as i128),
        naga::Literal::U64(v) => as_int() == Some(*v as i128),
        naga::Literal::I64(v) | naga::Literal::AbstractInt(v) => as_int() == Some(*v as i128),
        naga::Literal::Bool(_) => false,
    }
}

impl Property for C15 {
    fn id(&self) -> &'static str {
        "C15"
    }
    fn rule(&self) -> &'static str {
        "Seeded shaders with 3-16 module constants: explicit and inferred i32/u32/f32/f64/bool/i64/u64, abstract int/float, negative values, -0.0, extremes, subnormals, hex floats, constant expressions (arithmetic, shifts, conversions, builtins, vector/array element picks), references to earlier constants, and non-scalar constants (vec/mat/array/struct), each declaration pre-filtered by naga's front end; oracle = naga's evaluated module: a named constant whose global expression is a Literal (or the zero value of a scalar type) must appear exactly once as `pub const NAME: TY = VALUE;` with TY by literal variant and VALUE reading back bit-identically (suffix absent or equal to TY); any other named constant must not be exported."
    }

    fn cases(&self, seed: u64, tier: Tier) -> Vec<Case> {
        let n = if tier == Tier::Quick { 500 } else { 4000 };
        let mut out = vec![];
        for (name, src) in [("corpus/extremes", include_str!("../../corpus/C15/extremes.wgsl"))] {
            out.push(Case::new(name, src, Params::default()));
        }
        for i in 0..n {
            out.push(Case::new(format!("gen{i}"), shader(seed, i, tier), Params::default().validated(i % 4 == 0)));
        }
        out
    }

    fn check(&self, case: &Case) -> Outcome {
        let m = match naga_parse(&case.wgsl) {
            Ok(m) => m,
            Err(e) => return Outcome::skip(format!("shader does not parse: {e}")),
        };
        if case.params.opts.validate.is_some() {
            if let Err(e) = naga_validate(&m) {
                return Outcome::skip(format!("shader does not validate: {e}"));
            }
        }
        let text = match run_lib(&case.wgsl, &case.params) {
            LibResult::Ok(t) => t,
            LibResult::Panic(msg) if super::c03::is_documented_panic(&msg) => return Outcome::skip(format!("unsupported input: {msg}")),
            LibResult::Panic(msg) => {
                let mut o = Outcome::default();
                o.fail(case, "generation of a valid, supported shader", "Ok(text)", format!("panic: {msg}"));
                return o;
            }
            LibResult::Err(k, d) => return Outcome::skip(format!("not accepted: {k:?} {d}")),
        };
        let mut o = Outcome::default();
        let items = match outline(&text) {
            Ok(i) => i,
            Err(e) => {
                o.fail(case, "output is Rust", "parsable module", e);
                return o;
            }
        };
        for (_, c) in m.constants.iter() {
            let Some(name) = &c.name else { continue };
            let found = find(&items, Kind::Const, name);
            // the evaluated value: a literal, or the zero value of a scalar type (`i32()`, `f32()`, ...)
            let value: Option<naga::Literal> = match &m.global_expressions[c.init] {
                naga::Expression::Literal(l) => Some(*l),
                naga::Expression::ZeroValue(ty) => match &m.types[*ty].inner {
                    naga::TypeInner::Scalar(s) => zero_of(*s),
                    _ => None,
                },
                _ => None,
            };
            // a scalar-typed constant in a form this oracle cannot evaluate: not judged
            if value.is_none() && matches!(m.types[c.ty].inner, naga::TypeInner::Scalar(_)) {
                continue;
            }
            match &value {
                Some(l) => {
                    let (ty, shown) = literal_expectation(l);
                    match found.as_slice() {
                        [it] => {
                            let ok = it.text.starts_with("pubconst") && it.ty == ty && it.lit.as_ref().map(|lit| same_value(l, ty, lit)).unwrap_or(false);
                            if !ok {
                                o.fail(case, format!("constant `{name}`"), format!("pub const {name}: {ty} = {shown};"), it.text.clone());
                            }
                        }
                        other => o.fail(case, format!("constant `{name}`"), format!("exactly one `pub const {name}: {ty} = {shown};`"), format!("{} items named {name}", other.len())),
                    }
                }
                _ => {
                    if !found.is_empty() {
                        o.fail(case, format!("non-scalar constant `{name}`"), "not exported", found[0].text.clone());
                    }
                }
            }
        }
        o
    }
}
