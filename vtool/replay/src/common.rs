//! Shared plumbing: case / failure records, calling the real library with panics caught,
//! and a small syn-based outline of the generated Rust text.
#![allow(dead_code)]

use std::sync::mpsc;
use std::time::Duration;

pub use wgsl_to_wgpu::{CreateModuleError, MatrixVectorTypes, ValidationOptions, WgslCapabilities, WriteOptions};

// ---------------------------------------------------------------------------------------------
// tiny deterministic PRNG (xorshift64*)
// ---------------------------------------------------------------------------------------------
#[derive(Clone)]
pub struct Rng(u64);

impl Rng {
    pub fn new(seed: u64, stream: u64) -> Rng {
        // splitmix the (seed, stream) pair so that small seeds give unrelated streams
        let mut z = seed
            .wrapping_mul(0x9E37_79B9_7F4A_7C15)
            .wrapping_add(stream.wrapping_mul(0xBF58_476D_1CE4_E5B9))
            .wrapping_add(0x94D0_49BB_1331_11EB);
        z = (z ^ (z >> 30)).wrapping_mul(0xBF58_476D_1CE4_E5B9);
        z = (z ^ (z >> 27)).wrapping_mul(0x94D0_49BB_1331_11EB);
        z ^= z >> 31;
        Rng(if z == 0 { 0x1234_5678_9ABC_DEF1 } else { z })
    }
    pub fn next(&mut self) -> u64 {
        let mut x = self.0;
        x ^= x >> 12;
        x ^= x << 25;
        x ^= x >> 27;
        self.0 = x;
        x.wrapping_mul(0x2545_F491_4F6C_DD1D)
    }
    /// uniform in 0..n (n > 0)
    pub fn below(&mut self, n: usize) -> usize {
        (self.next() >> 11) as usize % n
    }
    pub fn range(&mut self, lo: usize, hi_incl: usize) -> usize {
        lo + self.below(hi_incl - lo + 1)
    }
    pub fn chance(&mut self, num: usize, den: usize) -> bool {
        self.below(den) < num
    }
    pub fn pick<'a, T>(&mut self, xs: &'a [T]) -> &'a T {
        &xs[self.below(xs.len())]
    }
    pub fn shuffle<T>(&mut self, xs: &mut [T]) {
        for i in (1..xs.len()).rev() {
            let j = self.below(i + 1);
            xs.swap(i, j);
        }
    }
}

// ---------------------------------------------------------------------------------------------
// cases, parameters, failures
// ---------------------------------------------------------------------------------------------
#[derive(Clone, Copy, Debug, PartialEq, Eq)]
pub enum Tier {
    Quick,
    Thorough,
}

/// Everything besides the shader text that determines one library call.
#[derive(Clone, Debug)]
pub struct Params {
    pub opts: WriteOptions,
    /// `Some(path)`: `create_shader_module(src, path, opts)`; `None`: `create_shader_module_embedded`.
    pub include: Option<String>,
    /// property specific parameters (e.g. the formatter fault of C19)
    pub extra: Vec<(String, String)>,
}

impl Default for Params {
    fn default() -> Self {
        Params { opts: WriteOptions::default(), include: Some("shader.wgsl".into()), extra: vec![] }
    }
}

const SEP: &str = " ;; ";

impl Params {
    pub fn with_opts(opts: WriteOptions) -> Params {
        Params { opts, ..Default::default() }
    }
    pub fn validated(mut self, on: bool) -> Params {
        self.opts.validate = if on { Some(ValidationOptions::default()) } else { None };
        self
    }
    pub fn extra(mut self, k: &str, v: impl Into<String>) -> Params {
        self.extra.push((k.to_string(), v.into()));
        self
    }
    pub fn get(&self, k: &str) -> Option<&str> {
        self.extra.iter().find(|(a, _)| a == k).map(|(_, v)| v.as_str())
    }
    /// The "options" string of a failure record: Debug of the WriteOptions followed by the other parameters.
    pub fn describe(&self) -> String {
        let mut s = format!("{:?}", self.opts);
        if let Some(v) = self.opts.validate {
            s.push_str(&format!("{SEP}caps={}", v.capabilities.bits()));
        }
        match &self.include {
            Some(p) => s.push_str(&format!("{SEP}include={}", crate::json::Json::str(p.clone()).to_text())),
            None => s.push_str(&format!("{SEP}embedded")),
        }
        for (k, v) in &self.extra {
            s.push_str(&format!("{SEP}{k}={v}"));
        }
        s
    }
    /// Inverse of `describe` (used by `--case`).
    pub fn parse(s: &str) -> Result<Params, String> {
        let mut parts = s.split(SEP);
        let head = parts.next().ok_or("empty options")?;
        let flag = |name: &str| -> Result<bool, String> {
            if head.contains(&format!("{name}: true")) {
                Ok(true)
            } else if head.contains(&format!("{name}: false")) {
                Ok(false)
            } else {
                Err(format!("options string lacks `{name}`"))
            }
        };
        let mvt = if head.contains("matrix_vector_types: Glam") {
            MatrixVectorTypes::Glam
        } else if head.contains("matrix_vector_types: Nalgebra") {
            MatrixVectorTypes::Nalgebra
        } else {
            MatrixVectorTypes::Rust
        };
        let mut p = Params {
            opts: WriteOptions {
                derive_bytemuck_vertex: flag("derive_bytemuck_vertex")?,
                derive_bytemuck_host_shareable: flag("derive_bytemuck_host_shareable")?,
                derive_encase_host_shareable: flag("derive_encase_host_shareable")?,
                derive_serde: flag("derive_serde")?,
                matrix_vector_types: mvt,
                rustfmt: flag("rustfmt")?,
                validate: if head.contains("validate: Some") { Some(ValidationOptions::default()) } else { None },
                ..Default::default()
            },
            include: None,
            extra: vec![],
        };
        for part in parts {
            if part == "embedded" {
                p.include = None;
            } else if let Some(v) = part.strip_prefix("include=") {
                p.include = Some(crate::json::parse(v)?.as_str().ok_or("include is not a string")?.to_string());
            } else if let Some(v) = part.strip_prefix("caps=") {
                let bits: u32 = v.parse().map_err(|_| "bad caps")?;
                p.opts.validate = Some(ValidationOptions { capabilities: WgslCapabilities::from_bits_truncate(bits) });
            } else if let Some((k, v)) = part.split_once('=') {
                p.extra.push((k.to_string(), v.to_string()));
            }
        }
        Ok(p)
    }
}

#[derive(Clone, Debug)]
pub struct Case {
    pub name: String,
    pub wgsl: String,
    pub params: Params,
}

impl Case {
    pub fn new(name: impl Into<String>, wgsl: impl Into<String>, params: Params) -> Case {
        Case { name: name.into(), wgsl: wgsl.into(), params }
    }
}

#[derive(Clone, Debug)]
pub struct Failure {
    pub case: String,
    pub wgsl: String,
    pub options: String,
    pub check: String,
    pub expected: String,
    pub observed: String,
}

/// Result of checking one case.
#[derive(Default)]
pub struct Outcome {
    pub failures: Vec<Failure>,
    /// the case could not be judged (library's documented unsupported-input panic, or the generated
    /// shader was not accepted by naga): it is not counted as a distinct non-trivial input
    pub skipped: Option<String>,
}

impl Outcome {
    pub fn skip(why: impl Into<String>) -> Outcome {
        Outcome { failures: vec![], skipped: Some(why.into()) }
    }
    pub fn fail(&mut self, case: &Case, check: impl Into<String>, expected: impl Into<String>, observed: impl Into<String>) {
        self.failures.push(Failure {
            case: case.name.clone(),
            wgsl: case.wgsl.clone(),
            options: case.params.describe(),
            check: check.into(),
            expected: clip(&expected.into()),
            observed: clip(&observed.into()),
        });
    }
}

/// Diagnostics about the tool's own cross-checks (stderr, at most 3 per run).
pub fn note(msg: impl AsRef<str>) {
    use std::sync::atomic::{AtomicUsize, Ordering};
    static N: AtomicUsize = AtomicUsize::new(0);
    let n = N.fetch_add(1, Ordering::SeqCst);
    if n < 3 {
        eprintln!("replay: note: {}", msg.as_ref());
    } else if n == 3 {
        eprintln!("replay: note: (further notes suppressed)");
    }
}

/// keep failure records readable
pub fn clip(s: &str) -> String {
    const MAX: usize = 1500;
    if s.chars().count() <= MAX {
        s.to_string()
    } else {
        let head: String = s.chars().take(MAX).collect();
        format!("{head}... [{} chars]", s.chars().count())
    }
}

pub trait Property: Sync {
    fn id(&self) -> &'static str;
    /// one sentence: how cases are generated and what the oracle is
    fn rule(&self) -> &'static str;
    fn cases(&self, seed: u64, tier: Tier) -> Vec<Case>;
    fn check(&self, case: &Case) -> Outcome;
}

// ---------------------------------------------------------------------------------------------
// calling the library
// ---------------------------------------------------------------------------------------------
#[derive(Debug, Clone, PartialEq)]
pub enum ErrKind {
    NonConsecutive,
    Duplicate(u32),
    Parse,
    Validation,
    Other,
}

#[derive(Debug, Clone)]
pub enum LibResult {
    Ok(String),
    /// (kind, Display text, emit_to_string result or the panic message of rendering it)
    Err(ErrKind, String),
    Panic(String),
}

impl LibResult {
    pub fn short(&self) -> String {
        match self {
            LibResult::Ok(t) => format!("Ok({} bytes)", t.len()),
            LibResult::Err(k, d) => format!("Err({k:?}: {})", clip(d)),
            LibResult::Panic(m) => format!("panic: {}", clip(m)),
        }
    }
}

pub fn install_quiet_panic_hook() {
    std::panic::set_hook(Box::new(|_| {}));
}

pub fn panic_message(p: Box<dyn std::any::Any + Send>) -> String {
    if let Some(s) = p.downcast_ref::<&str>() {
        s.to_string()
    } else if let Some(s) = p.downcast_ref::<String>() {
        s.clone()
    } else {
        "<non-string panic payload>".to_string()
    }
}

fn classify(e: &CreateModuleError) -> ErrKind {
    match e {
        CreateModuleError::NonConsecutiveBindGroups => ErrKind::NonConsecutive,
        CreateModuleError::DuplicateBinding { binding } => ErrKind::Duplicate(*binding),
        CreateModuleError::ParseError { .. } => ErrKind::Parse,
        CreateModuleError::ValidationError { .. } => ErrKind::Validation,
        _ => ErrKind::Other,
    }
}

/// Raw call (no unwinding protection).
pub fn call_lib(wgsl: &str, params: &Params) -> Result<String, CreateModuleError> {
    match &params.include {
        Some(path) => wgsl_to_wgpu::create_shader_module(wgsl, path, params.opts),
        None => wgsl_to_wgpu::create_shader_module_embedded(wgsl, params.opts),
    }
}

/// Call the real library, catching panics.
pub fn run_lib(wgsl: &str, params: &Params) -> LibResult {
    let r = std::panic::catch_unwind(|| call_lib(wgsl, params));
    match r {
        Ok(Ok(text)) => LibResult::Ok(text),
        Ok(Err(e)) => LibResult::Err(classify(&e), e.to_string()),
        Err(p) => LibResult::Panic(panic_message(p)),
    }
}

/// Call the library on a helper thread; `None` when it did not finish within `limit`
/// (the thread is leaked; the process exits at the end of the run anyway).
pub fn run_lib_timeout(wgsl: &str, params: &Params, limit: Duration) -> Option<(LibResult, Duration)> {
    let (tx, rx) = mpsc::channel();
    let w = wgsl.to_string();
    let p = params.clone();
    std::thread::Builder::new()
        .stack_size(256 << 20)
        .spawn(move || {
            let t0 = std::time::Instant::now();
            let r = run_lib(&w, &p);
            let _ = tx.send((r, t0.elapsed()));
        })
        .ok()?;
    rx.recv_timeout(limit).ok()
}

/// Parse with naga exactly as the library does (the oracle side works on this module).
pub fn naga_parse(wgsl: &str) -> Result<naga::Module, String> {
    match std::panic::catch_unwind(|| naga::front::wgsl::parse_str(wgsl)) {
        Ok(Ok(m)) => {
            crate::assumptions::observe(&m);
            Ok(m)
        }
        Ok(Err(e)) => Err(e.emit_to_string(wgsl)),
        Err(p) => Err(format!("naga parser panicked: {}", panic_message(p))),
    }
}

pub fn naga_validate(module: &naga::Module) -> Result<naga::valid::ModuleInfo, String> {
    match std::panic::catch_unwind(|| {
        naga::valid::Validator::new(naga::valid::ValidationFlags::all(), naga::valid::Capabilities::all()).validate(module)
    }) {
        Ok(Ok(i)) => Ok(i),
        Ok(Err(e)) => Err(format!("{:?}", e.into_inner())),
        Err(p) => Err(format!("naga validator panicked: {}", panic_message(p))),
    }
}

// ---------------------------------------------------------------------------------------------
// text helpers
// ---------------------------------------------------------------------------------------------
/// Remove ALL whitespace (generated text is compared modulo layout).
pub fn nows(s: &str) -> String {
    s.chars().filter(|c| !c.is_whitespace()).collect()
}

/// Whitespace-free text with trailing commas before a closing bracket removed (`f(a,)` == `f(a)`),
/// so that comparisons do not depend on how prettyplease / rustfmt broke the lines.
pub fn norm(s: &str) -> String {
    nows(s).replace(",)", ")").replace(",]", "]").replace(",}", "}").replace(",>", ">")
}

fn toks<T: quote::ToTokens>(t: &T) -> String {
    norm(&t.to_token_stream().to_string())
}

/// Given `s[open..]` starting with an opening bracket, return the index one past its matching close.
/// String / char literals are skipped.
pub fn matching_close(s: &str, open: usize) -> Option<usize> {
    let b = s.as_bytes();
    let (o, c) = match b.get(open)? {
        b'{' => (b'{', b'}'),
        b'[' => (b'[', b']'),
        b'(' => (b'(', b')'),
        _ => return None,
    };
    let mut depth = 0usize;
    let mut i = open;
    while i < b.len() {
        let ch = b[i];
        if ch == b'"' {
            i += 1;
            while i < b.len() && b[i] != b'"' {
                if b[i] == b'\\' {
                    i += 1;
                }
                i += 1;
            }
        } else if ch == o {
            depth += 1;
        } else if ch == c {
            depth -= 1;
            if depth == 0 {
                return Some(i + 1);
            }
        }
        i += 1;
    }
    None
}

/// All balanced `{...}` / `(...)` / `[...]` regions that directly follow an occurrence of `prefix`
/// (prefix must end with the opening bracket). Returns the regions INCLUDING the brackets.
pub fn regions_after<'a>(s: &'a str, prefix: &str) -> Vec<&'a str> {
    let mut out = Vec::new();
    let mut from = 0;
    while let Some(pos) = s[from..].find(prefix) {
        let open = from + pos + prefix.len() - 1;
        match matching_close(s, open) {
            Some(end) => {
                out.push(&s[open..end]);
                from = open + 1;
            }
            None => break,
        }
    }
    out
}

pub fn count_occurrences(s: &str, pat: &str) -> usize {
    if pat.is_empty() {
        return 0;
    }
    let mut n = 0;
    let mut from = 0;
    while let Some(p) = s[from..].find(pat) {
        n += 1;
        from += p + pat.len();
    }
    n
}

/// Split at top-level commas (not inside brackets or string literals). Trailing empty piece dropped.
pub fn split_top(s: &str) -> Vec<String> {
    let mut out = Vec::new();
    let mut depth = 0i32;
    let mut cur = String::new();
    let mut chars = s.chars().peekable();
    while let Some(c) = chars.next() {
        match c {
            '"' => {
                cur.push(c);
                while let Some(d) = chars.next() {
                    cur.push(d);
                    if d == '\\' {
                        if let Some(e) = chars.next() {
                            cur.push(e);
                        }
                    } else if d == '"' {
                        break;
                    }
                }
            }
            '(' | '[' | '{' => {
                depth += 1;
                cur.push(c)
            }
            ')' | ']' | '}' => {
                depth -= 1;
                cur.push(c)
            }
            ',' if depth == 0 => out.push(std::mem::take(&mut cur)),
            c => cur.push(c),
        }
    }
    if !cur.is_empty() {
        out.push(cur);
    }
    out
}

// ---------------------------------------------------------------------------------------------
// outline of the generated file (syn)
// ---------------------------------------------------------------------------------------------
#[derive(Debug, Clone, Copy, PartialEq, Eq)]
pub enum Kind {
    Const,
    Struct,
    Fn,
    Impl,
    Mod,
    Trait,
    Other,
}

/// One item of the generated file. All texts are token strings with whitespace removed.
#[derive(Debug, Clone)]
pub struct Item {
    pub kind: Kind,
    /// const/struct/fn/mod/trait: the identifier; impl: `Trait|SelfType` (`|SelfType` for inherent impls)
    pub name: String,
    /// the whole item
    pub text: String,
    /// outer attributes, one string each (`#[derive(Debug,Clone)]`)
    pub attrs: Vec<String>,
    /// const: the type; fn: the signature (`pubfnf(a:A)->B`); struct: generics
    pub ty: String,
    /// const: the initialiser expression; fn: the body block including braces
    pub value: String,
    /// struct: named fields (name, type, attributes)
    pub fields: Vec<(String, String, Vec<String>)>,
    /// mod / impl / trait: nested items
    pub children: Vec<Item>,
    /// const: the literal when the initialiser is (a possibly negated) literal
    pub lit: Option<Lit>,
}

#[derive(Debug, Clone)]
pub enum Lit {
    Str(String),
    /// (negated, digits without suffix, suffix)
    Int(bool, String, String),
    Float(bool, String, String),
    Bool(bool),
    /// `include_str!("...")`
    IncludeStr(String),
}

fn blank(kind: Kind, name: String, text: String, attrs: &[syn::Attribute]) -> Item {
    Item { kind, name, text, attrs: attrs.iter().map(toks).collect(), ty: String::new(), value: String::new(), fields: vec![], children: vec![], lit: None }
}

fn expr_lit(e: &syn::Expr) -> Option<Lit> {
    fn lit_of(l: &syn::Lit, neg: bool) -> Option<Lit> {
        match l {
            syn::Lit::Str(s) if !neg => Some(Lit::Str(s.value())),
            syn::Lit::Int(i) => Some(Lit::Int(neg, i.base10_digits().to_string(), i.suffix().to_string())),
            syn::Lit::Float(f) => Some(Lit::Float(neg, f.base10_digits().to_string(), f.suffix().to_string())),
            syn::Lit::Bool(b) if !neg => Some(Lit::Bool(b.value)),
            _ => None,
        }
    }
    match e {
        syn::Expr::Lit(l) => lit_of(&l.lit, false),
        syn::Expr::Unary(u) if matches!(u.op, syn::UnOp::Neg(_)) => match &*u.expr {
            syn::Expr::Lit(l) => lit_of(&l.lit, true),
            _ => None,
        },
        syn::Expr::Group(g) => expr_lit(&g.expr),
        syn::Expr::Macro(m) if m.mac.path.is_ident("include_str") => {
            syn::parse2::<syn::LitStr>(m.mac.tokens.clone()).ok().map(|s| Lit::IncludeStr(s.value()))
        }
        _ => None,
    }
}

fn conv_fn(attrs: &[syn::Attribute], vis: Option<&syn::Visibility>, sig: &syn::Signature, block: Option<&syn::Block>, whole: String) -> Item {
    let mut it = blank(Kind::Fn, sig.ident.to_string(), whole, attrs);
    it.ty = format!("{}{}", vis.map(toks).unwrap_or_default(), toks(sig));
    it.value = block.map(toks).unwrap_or_default();
    it
}

fn conv(item: &syn::Item) -> Item {
    match item {
        syn::Item::Const(c) => {
            let mut it = blank(Kind::Const, c.ident.to_string(), toks(c), &c.attrs);
            it.ty = toks(&*c.ty);
            it.value = toks(&*c.expr);
            it.lit = expr_lit(&c.expr);
            it
        }
        syn::Item::Struct(s) => {
            let mut it = blank(Kind::Struct, s.ident.to_string(), toks(s), &s.attrs);
            it.ty = toks(&s.generics);
            match &s.fields {
                syn::Fields::Named(n) => {
                    for f in &n.named {
                        it.fields.push((f.ident.as_ref().map(|i| i.to_string()).unwrap_or_default(), toks(&f.ty), f.attrs.iter().map(toks).collect()));
                    }
                }
                syn::Fields::Unnamed(u) => {
                    for (i, f) in u.unnamed.iter().enumerate() {
                        it.fields.push((i.to_string(), toks(&f.ty), f.attrs.iter().map(toks).collect()));
                    }
                }
                syn::Fields::Unit => {}
            }
            it
        }
        syn::Item::Fn(f) => conv_fn(&f.attrs, Some(&f.vis), &f.sig, Some(&f.block), toks(f)),
        syn::Item::Mod(m) => {
            let mut it = blank(Kind::Mod, m.ident.to_string(), toks(m), &m.attrs);
            if let Some((_, items)) = &m.content {
                it.children = items.iter().map(conv).collect();
            }
            it
        }
        syn::Item::Impl(i) => {
            let tr = i.trait_.as_ref().map(|(_, p, _)| toks(p)).unwrap_or_default();
            let mut it = blank(Kind::Impl, format!("{}|{}", tr, toks(&*i.self_ty)), toks(i), &i.attrs);
            for ii in &i.items {
                match ii {
                    syn::ImplItem::Fn(f) => it.children.push(conv_fn(&f.attrs, Some(&f.vis), &f.sig, Some(&f.block), toks(f))),
                    syn::ImplItem::Const(c) => {
                        let mut ci = blank(Kind::Const, c.ident.to_string(), toks(c), &c.attrs);
                        ci.ty = toks(&c.ty);
                        ci.value = toks(&c.expr);
                        ci.lit = expr_lit(&c.expr);
                        it.children.push(ci);
                    }
                    other => it.children.push(blank(Kind::Other, String::new(), toks(other), &[])),
                }
            }
            it
        }
        syn::Item::Trait(t) => {
            let mut it = blank(Kind::Trait, t.ident.to_string(), toks(t), &t.attrs);
            for ti in &t.items {
                match ti {
                    syn::TraitItem::Fn(f) => it.children.push(conv_fn(&f.attrs, None, &f.sig, f.default.as_ref(), toks(f))),
                    other => it.children.push(blank(Kind::Other, String::new(), toks(other), &[])),
                }
            }
            it
        }
        other => blank(Kind::Other, String::new(), toks(other), &[]),
    }
}

/// Parse the generated text into an outline. Err = the text is not a Rust file.
pub fn outline(text: &str) -> Result<Vec<Item>, String> {
    let file = syn::parse_file(text).map_err(|e| format!("generated text does not parse as Rust: {e}"))?;
    Ok(file.items.iter().map(conv).collect())
}

/// All items of `kind` called `name` directly inside `items`.
pub fn find<'a>(items: &'a [Item], kind: Kind, name: &str) -> Vec<&'a Item> {
    items.iter().filter(|i| i.kind == kind && i.name == name).collect()
}

/// The children of the unique module `name` (empty when absent).
pub fn module<'a>(items: &'a [Item], name: &str) -> &'a [Item] {
    match find(items, Kind::Mod, name).first() {
        Some(m) => &m.children,
        None => &[],
    }
}

/// Exactly one item or a description of what was found instead.
pub fn one<'a>(items: &'a [Item], kind: Kind, name: &str) -> Result<&'a Item, String> {
    let v = find(items, kind, name);
    match v.len() {
        1 => Ok(v[0]),
        n => Err(format!("{n} items `{name}` of kind {kind:?}")),
    }
}

/// Parse the emitted `wgpu::ShaderStages` expression (whitespace-free) into bits V=1,F=2,C=4.
pub fn parse_stages(expr: &str) -> Option<u8> {
    const P: &str = "wgpu::ShaderStages::";
    fn atom(a: &str) -> Option<u8> {
        match a.strip_prefix(P)? {
            "NONE" => Some(0),
            "VERTEX" => Some(1),
            "FRAGMENT" => Some(2),
            "COMPUTE" => Some(4),
            "VERTEX_FRAGMENT" => Some(3),
            "all()" => Some(7),
            _ => None,
        }
    }
    // a(.union(b))*
    let mut rest = expr;
    let first_end = rest.find(".union(").unwrap_or(rest.len());
    let mut bits = atom(&rest[..first_end])?;
    rest = &rest[first_end..];
    while !rest.is_empty() {
        let r = rest.strip_prefix(".union(")?;
        let close = r.find(')')?;
        // `all()` contains a ')' itself
        let (arg, after) = if r.starts_with(&format!("{P}all()")) {
            let l = P.len() + 5;
            (&r[..l], r[l..].strip_prefix(')')?)
        } else {
            (&r[..close], &r[close + 1..])
        };
        bits |= atom(arg)?;
        rest = after;
    }
    Some(bits)
}

pub fn stages_name(bits: u8) -> String {
    if bits == 0 {
        return "NONE".into();
    }
    let mut v = vec![];
    if bits & 1 != 0 {
        v.push("VERTEX");
    }
    if bits & 2 != 0 {
        v.push("FRAGMENT");
    }
    if bits & 4 != 0 {
        v.push("COMPUTE");
    }
    v.join("|")
}

pub fn stage_bit(s: naga::ShaderStage) -> u8 {
    match s {
        naga::ShaderStage::Vertex => 1,
        naga::ShaderStage::Fragment => 2,
        naga::ShaderStage::Compute => 4,
    }
}

/// One parsed `wgpu::BindGroupLayoutEntry { .. }` of a LAYOUT_DESCRIPTOR.
#[derive(Debug, Clone)]
pub struct LayoutEntry {
    pub binding: String,
    pub visibility: String,
    pub ty: String,
    pub count: String,
    pub raw: String,
}

/// Split a struct-literal body `{a:x,b:y,}` into (field, value) pairs.
pub fn literal_fields(region: &str) -> Vec<(String, String)> {
    let inner = &region[1..region.len() - 1];
    split_top(inner)
        .into_iter()
        .filter(|p| !p.is_empty())
        .map(|p| match p.find(':') {
            // `a::b` paths never come first in a field initialiser, so the first ':' is the field colon
            Some(i) if !p[i..].starts_with("::") => (p[..i].to_string(), p[i + 1..].to_string()),
            _ => (p.clone(), String::new()),
        })
        .collect()
}

pub fn layout_entries(descriptor_value: &str) -> Vec<LayoutEntry> {
    regions_after(descriptor_value, "wgpu::BindGroupLayoutEntry{")
        .into_iter()
        .map(|r| {
            let f = literal_fields(r);
            let get = |k: &str| f.iter().find(|(a, _)| a == k).map(|(_, v)| v.clone()).unwrap_or_default();
            LayoutEntry { binding: get("binding"), visibility: get("visibility"), ty: get("ty"), count: get("count"), raw: r.to_string() }
        })
        .collect()
}

/// (binding, resource) of every `wgpu::BindGroupEntry { .. }` in a function body.
pub fn bind_group_entries(body: &str) -> Vec<(String, String)> {
    regions_after(body, "wgpu::BindGroupEntry{")
        .into_iter()
        .map(|r| {
            let f = literal_fields(r);
            let get = |k: &str| f.iter().find(|(a, _)| a == k).map(|(_, v)| v.clone()).unwrap_or_default();
            (get("binding"), get("resource"))
        })
        .collect()
}
