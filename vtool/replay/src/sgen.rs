//! "Struct world" generator shared by C05-C09 and C18: shaders full of struct definitions in every
//! role (host-shareable through globals, vertex input, inter-stage, fragment output, compute input,
//! function-local, unused), with the generator's OWN bookkeeping of
//!   * which structs must be emitted and which are host-shareable,
//!   * each member's Rust type text under the three representations (hand-written leaf tables),
//!   * each member's WGSL offset and each struct's WGSL size (independent implementation of the
//!     WGSL memory layout rules),
//! so that oracles derived from naga can be cross-checked against something that is not naga.

use crate::common::Rng;
use std::collections::BTreeSet;

#[derive(Clone, Copy, Debug, PartialEq, Eq)]
pub enum Sc {
    F32,
    I32,
    U32,
    F64,
    Bool,
}

impl Sc {
    pub fn wgsl(self) -> &'static str {
        match self {
            Sc::F32 => "f32",
            Sc::I32 => "i32",
            Sc::U32 => "u32",
            Sc::F64 => "f64",
            Sc::Bool => "bool",
        }
    }
    fn size(self) -> u32 {
        match self {
            Sc::F64 => 8,
            _ => 4,
        }
    }
}

#[derive(Clone, Debug, PartialEq)]
pub enum Ty {
    Scalar(Sc),
    Vec(u32, Sc),
    /// columns, rows, scalar (f32 / f64)
    Mat(u32, u32, Sc),
    Atomic(Sc),
    /// fixed array; the element may itself be an array (`array<array<S, 2>, 3>` = Array(Array(S, 2), 3)).
    /// WGSL: align = align(E), stride = roundUp(align(E), size(E)), size = N * stride — see `layout`.
    Array(Box<Ty>, u32),
    /// runtime-sized array (last member of a storage struct, or the store type of a storage variable);
    /// the element may be a fixed array (`array<array<S, 4>>`)
    Runtime(Box<Ty>),
    Struct(usize),
}

#[derive(Clone, Copy, Debug, PartialEq, Eq)]
pub enum Repr {
    Rust,
    Glam,
    Nalgebra,
}

#[derive(Clone, Debug)]
#[allow(dead_code)]
pub struct Member {
    pub name: String,
    pub ty: Ty,
    /// `@location(n)`, `@builtin(x)` or nothing
    pub attr: String,
    pub builtin: bool,
    pub location: Option<u32>,
}

#[derive(Clone, Debug)]
pub struct SDef {
    pub name: String,
    pub members: Vec<Member>,
}

#[derive(Clone, Debug, Default)]
pub struct World {
    pub structs: Vec<SDef>,
    /// complete shader text
    pub wgsl: String,
    /// ground truth: names of structs that must be emitted
    pub emitted: BTreeSet<String>,
    /// ground truth: names of structs reachable from a module-scope variable
    pub host: BTreeSet<String>,
    /// ground truth: per vertex entry (name, struct parameters in order), in the order the entry points are
    /// DECLARED in the text (entry points are written in shuffled order)
    pub vertex_entries: Vec<(String, Vec<String>)>,
    /// does any emitted struct end in a runtime-sized array
    pub has_runtime: bool,
    pub uses_f64: bool,
}

fn round_up(a: u32, n: u32) -> u32 {
    n.div_ceil(a) * a
}

impl World {
    pub fn ty_wgsl(&self, t: &Ty) -> String {
        match t {
            Ty::Scalar(s) => s.wgsl().to_string(),
            Ty::Vec(n, s) => format!("vec{n}<{}>", s.wgsl()),
            Ty::Mat(c, r, s) => format!("mat{c}x{r}<{}>", s.wgsl()),
            Ty::Atomic(s) => format!("atomic<{}>", s.wgsl()),
            Ty::Array(b, n) => format!("array<{}, {n}>", self.ty_wgsl(b)),
            Ty::Runtime(b) => format!("array<{}>", self.ty_wgsl(b)),
            Ty::Struct(i) => self.structs[*i].name.clone(),
        }
    }

    /// Hand-written table: the Rust type text (whitespace-free) of a WGSL type under a representation.
    pub fn ty_rust(&self, t: &Ty, r: Repr) -> String {
        match t {
            Ty::Scalar(s) | Ty::Atomic(s) => s.wgsl().to_string(), // WGSL and Rust scalar names coincide
            Ty::Vec(n, s) => match (r, s) {
                (Repr::Rust, _) | (Repr::Glam, Sc::Bool) => format!("[{};{n}]", s.wgsl()),
                (Repr::Glam, Sc::F32) => format!("glam::Vec{n}"),
                (Repr::Glam, Sc::F64) => format!("glam::DVec{n}"),
                (Repr::Glam, Sc::U32) => format!("glam::UVec{n}"),
                (Repr::Glam, Sc::I32) => format!("glam::IVec{n}"),
                (Repr::Nalgebra, _) => format!("nalgebra::SVector<{},{n}>", s.wgsl()),
            },
            Ty::Mat(c, rws, s) => match r {
                Repr::Glam if c == rws && *s == Sc::F32 => format!("glam::Mat{c}"),
                Repr::Glam if c == rws && *s == Sc::F64 => format!("glam::DMat{c}"),
                // the repository's snapshots pin `[[T; columns]; rows]`
                Repr::Rust | Repr::Glam => format!("[[{};{c}];{rws}]", s.wgsl()),
                Repr::Nalgebra => format!("nalgebra::SMatrix<{},{rws},{c}>", s.wgsl()),
            },
            Ty::Array(b, n) => format!("[{};{n}]", self.ty_rust(b, r)),
            Ty::Runtime(b) => format!("Vec<{}>", self.ty_rust(b, r)),
            Ty::Struct(i) => self.structs[*i].name.clone(),
        }
    }

    /// WGSL (align, size) — written from the WGSL specification's "Alignment and Size" table.
    pub fn layout(&self, t: &Ty) -> (u32, u32) {
        match t {
            Ty::Scalar(s) | Ty::Atomic(s) => (s.size(), s.size()),
            Ty::Vec(n, s) => {
                let sz = s.size();
                match n {
                    2 => (2 * sz, 2 * sz),
                    3 => (4 * sz, 3 * sz),
                    _ => (4 * sz, 4 * sz),
                }
            }
            Ty::Mat(c, r, s) => {
                let (va, vs) = self.layout(&Ty::Vec(*r, *s));
                (va, c * round_up(va, vs))
            }
            Ty::Array(b, n) => {
                let (a, s) = self.layout(b);
                (a, n * round_up(a, s))
            }
            Ty::Runtime(b) => {
                let (a, s) = self.layout(b);
                (a, round_up(a, s)) // naga reports one element as the minimum size
            }
            Ty::Struct(i) => {
                let offs = self.member_offsets(*i);
                let align = self.structs[*i].members.iter().map(|m| self.layout(&m.ty).0).max().unwrap_or(1);
                let end = self.structs[*i].members.iter().zip(&offs).map(|(m, o)| o + self.layout(&m.ty).1).last().unwrap_or(0);
                (align, round_up(align, end))
            }
        }
    }

    pub fn member_offsets(&self, si: usize) -> Vec<u32> {
        let mut off = 0;
        let mut v = vec![];
        for m in &self.structs[si].members {
            let (a, s) = self.layout(&m.ty);
            off = round_up(a, off);
            v.push(off);
            off += s;
        }
        v
    }

    fn closure(&self, t: &Ty, out: &mut BTreeSet<usize>) {
        match t {
            Ty::Array(b, _) | Ty::Runtime(b) => self.closure(b, out),
            Ty::Struct(i) => {
                if out.insert(*i) {
                    for m in &self.structs[*i].members {
                        self.closure(&m.ty, out);
                    }
                }
            }
            _ => {}
        }
    }

    pub fn index_of(&self, name: &str) -> Option<usize> {
        self.structs.iter().position(|s| s.name == name)
    }
}

const SCALARS: [Sc; 4] = [Sc::F32, Sc::I32, Sc::U32, Sc::F64];

fn leaf(rng: &mut Rng, allow_f64: bool, allow_bool: bool) -> Ty {
    let mut sc = *rng.pick(&SCALARS);
    if sc == Sc::F64 && !allow_f64 {
        sc = Sc::F32;
    }
    if allow_bool && rng.chance(1, 6) {
        sc = Sc::Bool;
    }
    match rng.below(10) {
        0..=2 => Ty::Scalar(sc),
        3..=6 => Ty::Vec(rng.range(2, 4) as u32, sc),
        _ => {
            let s = if sc == Sc::F64 { Sc::F64 } else { Sc::F32 };
            Ty::Mat(rng.range(2, 4) as u32, rng.range(2, 4) as u32, s)
        }
    }
}

pub struct WorldSpec {
    pub n_host: usize,
    pub allow_f64: bool,
    pub allow_runtime: bool,
    pub allow_atomic: bool,
    /// private / workgroup variables (bool members become possible)
    pub allow_private: bool,
    pub n_vertex_entries: usize,
    pub fragment: bool,
    pub compute: bool,
    /// nested fixed arrays of structs: `array<array<S, N>, M>` as variable type / member / element of a
    /// runtime-sized array, with structs reachable from a variable ONLY through two or more array levels
    pub nested: bool,
}

/// Build a world. Struct names deliberately include look-alikes (`S1`, `S10`) and mixed case.
pub fn world(spec: &WorldSpec, rng: &mut Rng) -> World {
    let mut w = World::default();
    let mut text_globals = String::new();
    // entry points (and helpers) as separate chunks: they are written in shuffled declaration order at the end
    // (a consuming entry point may stand ABOVE the entry point that produces its input)
    let mut fn_chunks: Vec<(Option<String>, String)> = vec![];
    // `alias` declarations used by loose (bound, non-struct) entry parameters / as another spelling of an input struct
    let mut aliases: Vec<String> = vec![];
    let mut group_slots: Vec<(u32, u32)> = vec![];
    let mut host_roots: Vec<Ty> = vec![];
    let mut entry_params: BTreeSet<usize> = BTreeSet::new();
    let mut entry_results: BTreeSet<usize> = BTreeSet::new();
    let name_styles = ["S", "Data", "my_struct_", "Ubo", "X"];

    // ---------------- host structs (index order = dependency order)
    #[derive(Clone, Copy, PartialEq)]
    enum Space {
        Uniform,
        StorageRead,
        StorageRw,
        Private,
        Workgroup,
    }
    struct HostInfo {
        uniform_safe: bool,
        has_atomic: bool,
        has_runtime: bool,
        has_bool: bool,
    }
    let mut info: Vec<HostInfo> = vec![];
    for hi in 0..spec.n_host {
        let name = format!("{}{}", rng.pick(&name_styles), hi);
        let n_members = rng.range(1, 6);
        let mut members = vec![];
        let mut inf = HostInfo { uniform_safe: true, has_atomic: false, has_runtime: false, has_bool: false };
        let want_bool = spec.allow_private && rng.chance(1, 6);
        for mi in 0..n_members {
            let last = mi == n_members - 1;
            let k = rng.below(20);
            let ty = if k < 9 {
                let l = leaf(rng, spec.allow_f64, want_bool);
                match &l {
                    Ty::Scalar(Sc::Bool) | Ty::Vec(_, Sc::Bool) => inf.has_bool = true,
                    _ => {}
                }
                // uniform buffers: keep to 16-byte friendly members so that the validator accepts them
                if !matches!(l, Ty::Vec(4, Sc::F32) | Ty::Mat(_, 4, Sc::F32) | Ty::Scalar(Sc::F32) | Ty::Scalar(Sc::U32) | Ty::Scalar(Sc::I32) | Ty::Vec(2, Sc::F32) | Ty::Vec(3, Sc::F32)) {
                    inf.uniform_safe = false;
                }
                l
            } else if k < 12 {
                inf.uniform_safe = false;
                let base = leaf(rng, spec.allow_f64, false);
                let a = Ty::Array(Box::new(base), rng.range(1, 5) as u32);
                if rng.chance(1, 4) {
                    Ty::Array(Box::new(a), rng.range(1, 3) as u32)
                } else {
                    a
                }
            } else if k < 16 && hi > 0 {
                // nested earlier struct (without runtime tail), directly or in an array
                let cands: Vec<usize> = (0..hi).filter(|j| !info[*j].has_runtime).collect();
                if cands.is_empty() {
                    Ty::Scalar(Sc::F32)
                } else {
                    let j = *rng.pick(&cands);
                    inf.uniform_safe = false;
                    inf.has_atomic |= info[j].has_atomic;
                    inf.has_bool |= info[j].has_bool;
                    match rng.below(6) {
                        0 | 1 => Ty::Array(Box::new(Ty::Struct(j)), rng.range(1, 4) as u32),
                        2 if spec.nested => Ty::Array(Box::new(Ty::Array(Box::new(Ty::Struct(j)), rng.range(1, 3) as u32)), rng.range(1, 3) as u32),
                        _ => Ty::Struct(j),
                    }
                }
            } else if k < 17 && spec.allow_atomic && !want_bool {
                inf.has_atomic = true;
                inf.uniform_safe = false;
                Ty::Atomic(if rng.chance(1, 2) { Sc::U32 } else { Sc::I32 })
            } else if last && spec.allow_runtime && !want_bool && k >= 17 {
                inf.has_runtime = true;
                inf.uniform_safe = false;
                let base = if hi > 0 && rng.chance(1, 2) {
                    let cands: Vec<usize> = (0..hi).filter(|j| !info[*j].has_runtime && !info[*j].has_bool).collect();
                    if cands.is_empty() {
                        Ty::Vec(4, Sc::F32)
                    } else {
                        let j = *rng.pick(&cands);
                        inf.has_atomic |= info[j].has_atomic;
                        Ty::Struct(j)
                    }
                } else {
                    leaf(rng, false, false)
                };
                // runtime-sized array whose element is a fixed array (of vectors / matrices / structs)
                let base = if spec.nested && rng.chance(1, 3) { Ty::Array(Box::new(base), rng.range(1, 4) as u32) } else { base };
                Ty::Runtime(Box::new(base))
            } else {
                Ty::Vec(4, Sc::F32)
            };
            members.push(Member { name: format!("m{mi}{}", if mi % 2 == 0 { "" } else { "_x" }), ty, attr: String::new(), builtin: false, location: None });
        }
        w.structs.push(SDef { name, members });
        info.push(inf);
    }
    // which host structs get a variable of their own (the others are reachable only through nesting, or unused)
    let mut binding = 0u32;
    let mut group = 0u32;
    // host structs that are the (element) type of a buffer variable declared here, i.e. BEFORE the later `scene_k` variables
    let mut declared_hosts: Vec<usize> = vec![];
    for hi in 0..spec.n_host {
        let nested_somewhere = w.structs[hi + 1..].iter().any(|s| {
            let mut c = BTreeSet::new();
            for m in &s.members {
                w.closure(&m.ty, &mut c);
            }
            c.contains(&hi)
        });
        let declare = !nested_somewhere || rng.chance(1, 3);
        if !declare || rng.chance(1, 10) {
            continue; // reachable only through nesting, or completely unused
        }
        let inf = &info[hi];
        let mut spaces = vec![];
        if !inf.has_bool {
            spaces.push(Space::StorageRw);
            if !inf.has_atomic {
                spaces.push(Space::StorageRead);
                if inf.uniform_safe && !inf.has_runtime {
                    spaces.push(Space::Uniform);
                }
            }
        }
        if spec.allow_private && !inf.has_runtime && !inf.has_atomic {
            spaces.push(Space::Private);
        }
        if spec.allow_private && !inf.has_runtime && !inf.has_bool && spec.compute {
            spaces.push(Space::Workgroup);
        }
        if spaces.is_empty() {
            continue;
        }
        let sp = *rng.pick(&spaces);
        let sname = w.structs[hi].name.clone();
        // store type: the struct itself, or arrays of it
        let (store, root) = if inf.has_runtime || matches!(sp, Space::Uniform) {
            (sname.clone(), Ty::Struct(hi))
        } else {
            match rng.below(4) {
                0 if matches!(sp, Space::StorageRead | Space::StorageRw) => (format!("array<{sname}>"), Ty::Runtime(Box::new(Ty::Struct(hi)))),
                1 => (format!("array<{sname}, 3>"), Ty::Array(Box::new(Ty::Struct(hi)), 3)),
                _ => (sname.clone(), Ty::Struct(hi)),
            }
        };
        let var = format!("var_{hi}");
        let decl = match sp {
            Space::Uniform => format!("@group({group}) @binding({binding}) var<uniform> {var}: {store};"),
            Space::StorageRead => format!("@group({group}) @binding({binding}) var<storage, read> {var}: {store};"),
            Space::StorageRw => format!("@group({group}) @binding({binding}) var<storage, read_write> {var}: {store};"),
            Space::Private => format!("var<private> {var}: {store};"),
            Space::Workgroup => format!("var<workgroup> {var}: {store};"),
        };
        if matches!(sp, Space::Uniform | Space::StorageRead | Space::StorageRw) {
            declared_hosts.push(hi);
            group_slots.push((group, binding));
            binding += rng.range(1, 3) as u32;
            if rng.chance(1, 4) {
                group += 1;
                binding = 0;
            }
        }
        text_globals.push_str(&decl);
        text_globals.push('\n');
        host_roots.push(root);
        // the same struct used by a second variable now and then (must still be emitted once)
        if rng.chance(1, 5) && !inf.has_runtime && !inf.has_bool {
            text_globals.push_str(&format!("@group({group}) @binding({binding}) var<storage, read_write> var_{hi}_again: array<{sname}, 2>;\n"));
            binding += 1;
        }
    }
    // ---------------- structs reachable ONLY through nested fixed arrays
    // `Cell` structs get no variable of their own and are no direct member / single-level element of anything:
    // the only path from a module-scope variable to them crosses two or more array levels.
    if spec.nested {
        let n_cells = rng.range(1, 2);
        for ci in 0..n_cells {
            let uniform_ok = rng.chance(1, 3);
            let mut members = vec![];
            for mi in 0..rng.range(1, 3) {
                let ty = if uniform_ok {
                    // align 16, size a multiple of 16: valid as (nested) array element in the uniform address space
                    match (mi, rng.below(4)) {
                        (0, _) | (_, 0) => Ty::Vec(4, Sc::F32),
                        (_, 1) => Ty::Mat(rng.range(2, 4) as u32, 4, Sc::F32),
                        (_, 2) => Ty::Vec(4, Sc::U32),
                        _ => Ty::Vec(4, Sc::I32),
                    }
                } else {
                    leaf(rng, spec.allow_f64, false)
                };
                members.push(Member { name: format!("c{mi}"), ty, attr: String::new(), builtin: false, location: None });
            }
            let cname = format!("{}{ci}", rng.pick(&["Cell", "Particle_", "cell_data"]));
            w.structs.push(SDef { name: cname.clone(), members });
            let cell = w.structs.len() - 1;
            let arr = |t: Ty, n: u32| Ty::Array(Box::new(t), n);
            let (a, b) = (rng.range(1, 4) as u32, rng.range(1, 3) as u32);
            let grid = arr(arr(Ty::Struct(cell), a), b);
            let mut shape = rng.below(7);
            if shape == 3 && !spec.allow_runtime {
                shape = 2;
            }
            if shape == 4 && !spec.allow_private {
                shape = 0;
            }
            let access = if rng.chance(1, 2) { "storage, read" } else { "storage, read_write" };
            let var = format!("nest_{ci}");
            let mut bound = true;
            let (decl, root) = match shape {
                // the variable itself is an array of arrays
                0 => (format!("var<{access}> {var}: {};", w.ty_wgsl(&grid)), grid),
                // runtime-sized array of fixed arrays
                1 => {
                    let t = Ty::Runtime(Box::new(arr(Ty::Struct(cell), 4)));
                    (format!("var<{access}> {var}: {};", w.ty_wgsl(&t)), t)
                }
                // member `cells: array<array<Cell, a>, b>` of a uniform / storage struct (also as array element)
                2 | 6 => {
                    let members = vec![
                        Member { name: "count".into(), ty: Ty::Scalar(Sc::U32), attr: String::new(), builtin: false, location: None },
                        Member { name: "cells".into(), ty: grid, attr: String::new(), builtin: false, location: None },
                    ];
                    w.structs.push(SDef { name: format!("Grid{ci}"), members });
                    let g = w.structs.len() - 1;
                    if shape == 6 {
                        let t = arr(Ty::Struct(g), 2);
                        (format!("var<{access}> {var}: {};", w.ty_wgsl(&t)), t)
                    } else if uniform_ok {
                        (format!("var<uniform> {var}: Grid{ci};"), Ty::Struct(g))
                    } else {
                        (format!("var<{access}> {var}: Grid{ci};"), Ty::Struct(g))
                    }
                }
                // runtime tail of fixed arrays inside a storage struct
                3 => {
                    let members = vec![
                        Member { name: "len".into(), ty: Ty::Scalar(Sc::U32), attr: String::new(), builtin: false, location: None },
                        Member { name: "buckets".into(), ty: Ty::Runtime(Box::new(arr(Ty::Struct(cell), 4))), attr: String::new(), builtin: false, location: None },
                    ];
                    w.structs.push(SDef { name: format!("Buckets{ci}"), members });
                    (format!("var<{access}> {var}: Buckets{ci};"), Ty::Struct(w.structs.len() - 1))
                }
                // private / workgroup variable
                4 => {
                    bound = false;
                    let sp = if spec.compute && rng.chance(1, 2) { "workgroup" } else { "private" };
                    (format!("var<{sp}> {var}: {};", w.ty_wgsl(&grid)), grid)
                }
                // three levels
                _ => {
                    let t = arr(arr(arr(Ty::Struct(cell), 2), a), 2);
                    (format!("var<{access}> {var}: {};", w.ty_wgsl(&t)), t)
                }
            };
            if bound {
                text_globals.push_str(&format!("@group({group}) @binding({binding}) {decl}\n"));
                binding += 1;
            } else {
                text_globals.push_str(&format!("{decl}\n"));
            }
            host_roots.push(root);
        }
        // nested arrays of vectors as the element of a runtime-sized array (no struct involved)
        if rng.chance(1, 3) {
            text_globals.push_str(&format!("@group({group}) @binding({binding}) var<storage, read> nest_vectors: array<array<vec3<f32>, {}>>;\n", rng.range(1, 4)));
            binding += 1;
        }
    }
    // a plain (struct-free) binding keeps group numbering valid even when no struct got a buffer
    text_globals.push_str(&format!("@group({group}) @binding({binding}) var<uniform> plain_uniform: vec4<f32>;\n"));

    // ---------------- IO structs
    let io_leaf = |rng: &mut Rng, ints: bool, f64ok: bool| -> Ty {
        let sc = match rng.below(if f64ok { 4 } else { 3 }) {
            0 => Sc::F32,
            1 if ints => Sc::I32,
            2 if ints => Sc::U32,
            3 => Sc::F64,
            _ => Sc::F32,
        };
        if rng.chance(1, 3) {
            Ty::Scalar(sc)
        } else {
            Ty::Vec(rng.range(2, 4) as u32, sc)
        }
    };
    // vertex inputs
    let mut vin: Vec<usize> = vec![];
    let n_vin = if spec.n_vertex_entries == 0 { 0 } else { rng.range(1, 3) };
    for k in 0..n_vin {
        let mut members = vec![];
        let n = rng.range(1, 5);
        let mut locs: Vec<u32> = (0..16).collect();
        rng.shuffle(&mut locs);
        for mi in 0..n {
            let ty = io_leaf(rng, true, spec.allow_f64);
            let l = locs[mi] + 16 * k as u32;
            members.push(Member { name: format!("attr{mi}"), ty, attr: format!("@location({l})"), builtin: false, location: Some(l) });
        }
        // interleaved builtins (at most one struct carries each builtin)
        if k == 0 && rng.chance(1, 2) {
            let at = rng.below(members.len() + 1);
            members.insert(at, Member { name: "vertex_idx".into(), ty: Ty::Scalar(Sc::U32), attr: "@builtin(vertex_index)".into(), builtin: true, location: None });
        }
        if k == 1 && rng.chance(1, 2) {
            let at = rng.below(members.len() + 1);
            members.insert(at, Member { name: "instance_idx".into(), ty: Ty::Scalar(Sc::U32), attr: "@builtin(instance_index)".into(), builtin: true, location: None });
        }
        let name = format!("{}{k}", rng.pick(&["VertexInput", "VIn", "InstanceData_", "Vtx"]));
        w.structs.push(SDef { name, members });
        vin.push(w.structs.len() - 1);
    }
    // a vertex input struct whose members are ALL builtins (it still is one of the entry's struct parameters);
    // it only carries builtins that no other input struct carries, so any subset of `vin` is a valid parameter list
    let mut builtin_only: Option<usize> = None;
    if n_vin > 0 && rng.chance(1, 3) {
        let carried = |n: &str| vin.iter().any(|si| w.structs[*si].members.iter().any(|m| m.name == n));
        let mut avail: Vec<(&str, &str)> = vec![];
        if !carried("vertex_idx") {
            avail.push(("vertex_idx", "@builtin(vertex_index)"));
        }
        if !carried("instance_idx") {
            avail.push(("instance_idx", "@builtin(instance_index)"));
        }
        if avail.len() == 2 && rng.chance(1, 2) {
            avail.remove(rng.below(2));
        }
        if !avail.is_empty() {
            rng.shuffle(&mut avail);
            let members = avail.iter().map(|(n, a)| Member { name: n.to_string(), ty: Ty::Scalar(Sc::U32), attr: a.to_string(), builtin: true, location: None }).collect();
            let name = format!("{}{}", rng.pick(&["Indices", "BuiltinsOnly_", "VIdx"]), vin.len());
            w.structs.push(SDef { name, members });
            vin.push(w.structs.len() - 1);
            builtin_only = Some(w.structs.len() - 1);
        }
    }
    // inter-stage struct (vertex result, fragment parameter): never emitted
    let inter = if spec.n_vertex_entries > 0 && rng.chance(2, 3) {
        let mut members = vec![Member { name: "clip".into(), ty: Ty::Vec(4, Sc::F32), attr: "@builtin(position)".into(), builtin: true, location: None }];
        for mi in 0..rng.below(3) {
            members.push(Member { name: format!("vary{mi}"), ty: io_leaf(rng, false, false), attr: format!("@location({mi})"), builtin: false, location: Some(mi as u32) });
        }
        w.structs.push(SDef { name: "VertexOutput".into(), members });
        Some(w.structs.len() - 1)
    } else {
        None
    };
    // vertex entries
    // naga gives a type declared through `alias` a NAME (`alias LooseUv = vec2<f32>` is a named vector type distinct from
    // the plain `vec2<f32>`); an alias of a struct is the struct's own handle. Neither changes which parameters are structs.
    let alias_loose = spec.n_vertex_entries > 0 && rng.chance(1, 2);
    let alias_index = spec.n_vertex_entries > 0 && rng.chance(1, 2);
    let mut struct_alias: Option<(usize, String)> = None;
    if !vin.is_empty() && rng.chance(1, 4) {
        let si = vin[rng.below(vin.len())];
        let a = format!("{}Alias", w.structs[si].name);
        aliases.push(format!("alias {a} = {};", w.structs[si].name));
        struct_alias = Some((si, a));
    }
    if alias_loose {
        aliases.push("alias LooseUv = vec2<f32>;".into());
    }
    if alias_index {
        aliases.push("alias IndexT = u32;".into());
    }
    for e in 0..spec.n_vertex_entries {
        let mut params: Vec<String> = vec![];
        let mut list: Vec<String> = vec![];
        let mut chosen = vin.clone();
        rng.shuffle(&mut chosen);
        let take = rng.range(0, chosen.len());
        for (pi, &si) in chosen.iter().take(take).enumerate() {
            let spelled = match &struct_alias {
                Some((ai, a)) if *ai == si && rng.chance(2, 3) => a.clone(),
                _ => w.structs[si].name.clone(),
            };
            params.push(format!("in{pi}: {spelled}"));
            list.push(w.structs[si].name.clone());
            entry_params.insert(si);
        }
        let uses = |n: &str| chosen.iter().take(take).any(|si| w.structs[*si].members.iter().any(|m| m.name == n));
        let index_ty = |rng: &mut Rng| if alias_index && rng.chance(2, 3) { "IndexT" } else { "u32" };
        if !uses("vertex_idx") && rng.chance(1, 2) {
            let t = index_ty(rng);
            params.insert(rng.below(params.len() + 1), format!("@builtin(vertex_index) vi: {t}"));
        }
        if !uses("instance_idx") && rng.chance(1, 3) {
            let t = index_ty(rng);
            params.insert(rng.below(params.len() + 1), format!("@builtin(instance_index) ii: {t}"));
        }
        if rng.chance(1, 3) {
            let t = if alias_loose && rng.chance(2, 3) { "LooseUv" } else { "vec2<f32>" };
            let at = if rng.chance(1, 2) { params.len() } else { rng.below(params.len() + 1) };
            params.insert(at, format!("@location({}) loose: {t}", 60 + e));
        }
        let name = format!("{}{e}", rng.pick(&["vs_main", "vertexShader", "VS_"]));
        let text = match inter {
            Some(oi) => {
                entry_results.insert(oi);
                format!("@vertex\nfn {name}({}) -> {} {{ var o: {}; return o; }}\n", params.join(", "), w.structs[oi].name, w.structs[oi].name)
            }
            None => format!("@vertex\nfn {name}({}) -> @builtin(position) vec4<f32> {{ return vec4<f32>(0.0); }}\n", params.join(", ")),
        };
        fn_chunks.push((Some(name.clone()), text));
        w.vertex_entries.push((name, list));
    }
    // one vertex input struct doubles as a storage buffer element now and then ("both" role); with `nested` it is
    // reachable from the variable only through nested fixed arrays (preferring a struct some entry really takes)
    {
        let ok = |si: &usize| Some(*si) != builtin_only && !w.structs[*si].members.iter().any(|m| matches!(m.ty, Ty::Scalar(Sc::F64) | Ty::Vec(_, Sc::F64)));
        let used: Vec<usize> = vin.iter().copied().filter(|si| entry_params.contains(si)).filter(|si| ok(si)).collect();
        let cand = if spec.nested && !used.is_empty() { Some(used[rng.below(used.len())]) } else { vin.first().copied().filter(|si| ok(si)) };
        if let Some(v) = cand {
            if rng.chance(if spec.nested { 2 } else { 1 }, 4) {
                let arr = |t: Ty, n: u32| Ty::Array(Box::new(t), n);
                let root = match if spec.nested { rng.below(5) } else { 0 } {
                    0 => Ty::Runtime(Box::new(Ty::Struct(v))),
                    1 => Ty::Runtime(Box::new(arr(Ty::Struct(v), 4))),
                    2 => arr(arr(Ty::Struct(v), rng.range(1, 3) as u32), rng.range(1, 3) as u32),
                    3 => arr(arr(arr(Ty::Struct(v), 2), 1), 2),
                    _ => {
                        let members = vec![Member { name: "cells".into(), ty: arr(arr(Ty::Struct(v), 2), 3), attr: String::new(), builtin: false, location: None }];
                        w.structs.push(SDef { name: "InstanceGrid".into(), members });
                        Ty::Struct(w.structs.len() - 1)
                    }
                };
                text_globals.push_str(&format!("@group({group}) @binding({}) var<storage, read> vertex_pull: {};\n", binding + 1, w.ty_wgsl(&root)));
                host_roots.push(root);
            }
        }
    }
    // host structs that NEST a vertex input struct: `Scene { highlighted: V, ambient: vec4<f32>, fog: vec4<f32> }` as the type of
    // a uniform / storage variable, where V is (preferably) a struct some vertex entry really takes: V is emitted either way, and
    // its derives / layout assertions show whether it was recognised as host-shareable. V stands first / in the middle / last
    // (directly or as array element); the other members repeat a type (two `vec4<f32>`) or have a type an EARLIER variable
    // already has (`vec4<f32>` = `plain_uniform`, which is declared above; a host struct with a variable of its own).
    {
        let ok = |si: &usize| Some(*si) != builtin_only && !w.structs[*si].members.iter().any(|m| matches!(m.ty, Ty::Scalar(Sc::F64) | Ty::Vec(_, Sc::F64)));
        let used: Vec<usize> = vin.iter().copied().filter(|si| entry_params.contains(si)).filter(|si| ok(si)).collect();
        let pool: Vec<usize> = if !used.is_empty() { used } else { vin.iter().copied().filter(|si| ok(si)).collect() };
        if !pool.is_empty() && rng.chance(3, 4) {
            let n_scene = rng.range(1, 2);
            for k in 0..n_scene {
                let v = pool[rng.below(pool.len())];
                // uniform address space: a nested struct must sit at a multiple of 16 - true under WGSL's automatic layout
                // when the struct's own alignment is 16; every other member below is valid in a uniform buffer as it is
                let uniform = w.layout(&Ty::Struct(v)).0 == 16 && rng.chance(1, 2);
                let mut palette: Vec<Ty> = vec![Ty::Vec(4, Sc::F32)];
                palette.push(match rng.below(4) {
                    0 => Ty::Mat(4, 4, Sc::F32),
                    1 => Ty::Vec(4, Sc::U32),
                    2 => Ty::Scalar(Sc::F32),
                    _ => Ty::Array(Box::new(Ty::Vec(4, Sc::F32)), 2),
                });
                let seen: Vec<usize> = declared_hosts
                    .iter()
                    .copied()
                    .filter(|j| !info[*j].has_runtime && !info[*j].has_bool && !info[*j].has_atomic)
                    .filter(|j| !uniform || (info[*j].uniform_safe && w.layout(&Ty::Struct(*j)).0 == 16))
                    .collect();
                if !seen.is_empty() && rng.chance(1, 2) {
                    palette.push(Ty::Struct(seen[rng.below(seen.len())]));
                }
                let n_fill = rng.range(1, 4);
                let mut tys: Vec<Ty> = (0..n_fill).map(|_| palette[rng.below(palette.len())].clone()).collect();
                let nested = if rng.chance(1, 4) { Ty::Array(Box::new(Ty::Struct(v)), rng.range(1, 2) as u32) } else { Ty::Struct(v) };
                let at = match rng.below(5) {
                    0 | 1 => 0,
                    2 => tys.len(),
                    _ => rng.below(tys.len() + 1),
                };
                tys.insert(at, nested);
                let members = tys.into_iter().enumerate().map(|(mi, ty)| Member { name: if mi == at { "highlighted".to_string() } else { format!("param{mi}") }, ty, attr: String::new(), builtin: false, location: None }).collect();
                let sname = format!("{}{k}", rng.pick(&["Scene", "FrameData_", "scene_params"]));
                w.structs.push(SDef { name: sname.clone(), members });
                let si = w.structs.len() - 1;
                let (space, store, root) = if uniform {
                    ("uniform", sname.clone(), Ty::Struct(si))
                } else {
                    let access = if rng.chance(1, 2) { "storage, read" } else { "storage, read_write" };
                    match rng.below(5) {
                        0 => (access, format!("array<{sname}, 2>"), Ty::Array(Box::new(Ty::Struct(si)), 2)),
                        1 => (access, format!("array<{sname}>"), Ty::Runtime(Box::new(Ty::Struct(si)))),
                        _ => (access, sname.clone(), Ty::Struct(si)),
                    }
                };
                text_globals.push_str(&format!("@group({group}) @binding({}) var<{space}> scene_{k}: {store};\n", binding + 2 + k as u32));
                host_roots.push(root);
            }
        }
    }
    // fragment
    if spec.fragment {
        // fragment-only input struct: a parameter that no entry returns -> emitted
        let frag_in = if rng.chance(1, 2) {
            let mut members = vec![];
            for mi in 0..rng.range(1, 3) {
                members.push(Member { name: format!("fin{mi}"), ty: io_leaf(rng, false, false), attr: format!("@location({})", mi + 3), builtin: false, location: Some(mi as u32 + 3) });
            }
            if rng.chance(1, 2) {
                members.push(Member { name: "front".into(), ty: Ty::Scalar(Sc::Bool), attr: "@builtin(front_facing)".into(), builtin: true, location: None });
            }
            w.structs.push(SDef { name: "FragmentOnlyInput".into(), members });
            Some(w.structs.len() - 1)
        } else {
            None
        };
        let frag_out = if rng.chance(1, 2) {
            let members = vec![
                Member { name: "color".into(), ty: Ty::Vec(4, Sc::F32), attr: "@location(0)".into(), builtin: false, location: Some(0) },
                Member { name: "depth".into(), ty: Ty::Scalar(Sc::F32), attr: "@builtin(frag_depth)".into(), builtin: true, location: None },
            ];
            w.structs.push(SDef { name: "FragmentOutput".into(), members });
            Some(w.structs.len() - 1)
        } else {
            None
        };
        let mut params = vec![];
        if let (Some(oi), true) = (inter, rng.chance(3, 4)) {
            // locations of the two structs would collide only if both had location 0..2 and 3..; they do not
            params.push(format!("stage_in: {}", w.structs[oi].name));
            entry_params.insert(oi);
        }
        if let Some(fi) = frag_in {
            params.push(format!("extra_in: {}", w.structs[fi].name));
            entry_params.insert(fi);
        }
        match frag_out {
            Some(fo) => {
                entry_results.insert(fo);
                fn_chunks.push((None, format!("@fragment\nfn fs_main({}) -> {} {{ var o: {}; return o; }}\n", params.join(", "), w.structs[fo].name, w.structs[fo].name)));
            }
            None => fn_chunks.push((None, format!("@fragment\nfn fs_main({}) -> @location(0) vec4<f32> {{ return vec4<f32>(1.0); }}\n", params.join(", ")))),
        }
        // a second consumer of the inter-stage struct that returns nothing (depth-only pass)
        if let (Some(oi), true) = (inter, rng.chance(1, 4)) {
            fn_chunks.push((None, format!("@fragment\nfn fs_depth_only(stage_in: {}) {{ }}\n", w.structs[oi].name)));
            entry_params.insert(oi);
        }
    }
    // compute
    if spec.compute {
        let cin = if rng.chance(1, 2) {
            let members = vec![
                Member { name: "gid".into(), ty: Ty::Vec(3, Sc::U32), attr: "@builtin(global_invocation_id)".into(), builtin: true, location: None },
                Member { name: "lidx".into(), ty: Ty::Scalar(Sc::U32), attr: "@builtin(local_invocation_index)".into(), builtin: true, location: None },
            ];
            w.structs.push(SDef { name: "ComputeInput".into(), members });
            Some(w.structs.len() - 1)
        } else {
            None
        };
        // function-local struct and an unused struct: never emitted
        w.structs.push(SDef { name: "LocalOnly".into(), members: vec![Member { name: "t".into(), ty: Ty::Vec(3, Sc::F32), attr: String::new(), builtin: false, location: None }, Member { name: "n".into(), ty: Ty::Scalar(Sc::I32), attr: String::new(), builtin: false, location: None }] });
        w.structs.push(SDef { name: "NeverUsed".into(), members: vec![Member { name: "q".into(), ty: Ty::Mat(2, 2, Sc::F32), attr: String::new(), builtin: false, location: None }] });
        let p = match cin {
            Some(ci) => {
                entry_params.insert(ci);
                format!("cin: {}", w.structs[ci].name)
            }
            None => String::new(),
        };
        fn_chunks.push((None, "fn helper_local() -> i32 { var l: LocalOnly; l.n = 3; return l.n; }\n".to_string()));
        fn_chunks.push((None, format!("@compute @workgroup_size(4)\nfn cs_main({p}) {{ var l = LocalOnly(vec3<f32>(0.0), helper_local()); l.n = l.n + 1; }}\n")));
    }

    // ---------------- ground truth
    let mut host = BTreeSet::new();
    for r in &host_roots {
        w.closure(r, &mut host);
    }
    let mut emitted: BTreeSet<usize> = host.clone();
    for p in &entry_params {
        if !entry_results.contains(p) {
            emitted.insert(*p);
        }
    }
    w.host = host.iter().map(|i| w.structs[*i].name.clone()).collect();
    w.emitted = emitted.iter().map(|i| w.structs[*i].name.clone()).collect();
    w.has_runtime = emitted.iter().any(|i| w.structs[*i].members.iter().any(|m| matches!(m.ty, Ty::Runtime(_))));
    fn has_f64(w: &World, t: &Ty) -> bool {
        match t {
            Ty::Scalar(Sc::F64) | Ty::Vec(_, Sc::F64) | Ty::Mat(_, _, Sc::F64) => true,
            Ty::Array(b, _) | Ty::Runtime(b) => has_f64(w, b),
            _ => false,
        }
    }
    w.uses_f64 = w.structs.iter().any(|s| s.members.iter().any(|m| has_f64(&w, &m.ty)));

    // ---------------- text: struct definitions in shuffled order (WGSL allows use before definition)
    let mut order: Vec<usize> = (0..w.structs.len()).collect();
    rng.shuffle(&mut order);
    let mut text = String::new();
    // `alias` declarations stand before, between or after the struct definitions
    let alias_at: Vec<usize> = aliases.iter().map(|_| rng.below(order.len() + 1)).collect();
    for (pos, i) in order.into_iter().enumerate() {
        for (a, at) in aliases.iter().zip(&alias_at) {
            if *at == pos {
                text.push_str(a);
                text.push('\n');
            }
        }
        let s = &w.structs[i];
        let ms: Vec<String> = s.members.iter().map(|m| format!("    {}{}{}: {},", m.attr, if m.attr.is_empty() { "" } else { " " }, m.name, w.ty_wgsl(&m.ty))).collect();
        text.push_str(&format!("struct {} {{\n{}\n}}\n", s.name, ms.join("\n")));
    }
    for (a, at) in aliases.iter().zip(&alias_at) {
        if *at == w.structs.len() {
            text.push_str(a);
            text.push('\n');
        }
    }
    text.push_str(&text_globals);
    // entry points (and the helper) in shuffled declaration order; `vertex_entries` follows the text
    rng.shuffle(&mut fn_chunks);
    let by_name: Vec<(String, Vec<String>)> = fn_chunks.iter().filter_map(|(n, _)| n.as_ref()).filter_map(|n| w.vertex_entries.iter().find(|(e, _)| e == n).cloned()).collect();
    debug_assert_eq!(by_name.len(), w.vertex_entries.len());
    w.vertex_entries = by_name;
    for (_, t) in &fn_chunks {
        text.push_str(t);
    }
    w.wgsl = text;
    let _ = group_slots;
    w
}
