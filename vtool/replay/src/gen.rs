//! Shared WGSL text generators.
//!
//! `Program` is a small model of a shader: global resources, helper functions forming a call DAG,
//! and entry points. Every function body is a list of *actions* (access a global / call a helper)
//! wrapped in control flow. The model knows, by construction, which function touches which global
//! and which function calls which — the ground truth some oracles cross-check against naga.

use crate::common::Rng;
use std::collections::BTreeSet;

// ---------------------------------------------------------------------------------------------
// resources
// ---------------------------------------------------------------------------------------------
#[derive(Clone, Copy, Debug, PartialEq, Eq)]
pub enum Res {
    UniformVec,
    UniformStruct,
    StorageRead,
    StorageRw,
    StorageAtomic,
    Texture2d,
    TextureDepth,
    Sampler,
    StorageTexWrite,
    PushConstant,
}

pub const BINDABLE: [Res; 9] = [
    Res::UniformVec,
    Res::UniformStruct,
    Res::StorageRead,
    Res::StorageRw,
    Res::StorageAtomic,
    Res::Texture2d,
    Res::TextureDepth,
    Res::Sampler,
    Res::StorageTexWrite,
];

#[derive(Clone, Debug)]
pub struct Global {
    pub name: String,
    pub kind: Res,
    pub group: u32,
    pub binding: u32,
}

impl Global {
    pub fn decl(&self) -> String {
        let head = if self.kind == Res::PushConstant { String::new() } else { format!("@group({}) @binding({}) ", self.group, self.binding) };
        let n = &self.name;
        match self.kind {
            Res::UniformVec => format!("{head}var<uniform> {n}: vec4<f32>;"),
            Res::UniformStruct => format!("{head}var<uniform> {n}: UStruct;"),
            Res::StorageRead => format!("{head}var<storage, read> {n}: array<f32>;"),
            Res::StorageRw => format!("{head}var<storage, read_write> {n}: array<f32>;"),
            Res::StorageAtomic => format!("{head}var<storage, read_write> {n}: array<atomic<u32>, 4>;"),
            Res::Texture2d => format!("{head}var {n}: texture_2d<f32>;"),
            Res::TextureDepth => format!("{head}var {n}: texture_depth_2d;"),
            Res::Sampler => format!("{head}var {n}: sampler;"),
            Res::StorageTexWrite => format!("{head}var {n}: texture_storage_2d<rgba8unorm, write>;"),
            Res::PushConstant => format!("var<push_constant> {n}: vec4<f32>;"),
        }
    }
}

pub const USTRUCT_DECL: &str = "struct UStruct { a: vec4<f32>, b: f32 }";

/// How a global can be touched. `Expr` forms yield an f32 expression, `Stmt` forms a statement.
#[derive(Clone, Debug)]
pub enum Touch {
    Expr(String),
    Stmt(String),
}

/// All access forms of global `g` (a sampler needs a texture partner and is handled by the caller).
pub fn touches(g: &Global, rng: &mut Rng) -> Touch {
    let n = &g.name;
    let k = rng.below(4);
    match g.kind {
        Res::UniformVec | Res::PushConstant => Touch::Expr(match k {
            0 => format!("{n}.x"),
            1 => format!("dot({n}, {n})"),
            2 => format!("{n}[1]"),
            _ => format!("length({n}.yz)"),
        }),
        Res::UniformStruct => Touch::Expr(if k % 2 == 0 { format!("{n}.b") } else { format!("{n}.a.w") }),
        Res::StorageRead => Touch::Expr(match k {
            0 | 1 => format!("{n}[0]"),
            2 => format!("f32(arrayLength(&{n}))"),
            _ => format!("{n}[u32(acc)]"),
        }),
        Res::StorageRw => match k {
            0 => Touch::Stmt(format!("{n}[0] = acc;")),
            1 => Touch::Expr(format!("{n}[1]")),
            2 => Touch::Expr(format!("f32(arrayLength(&{n}))")),
            _ => Touch::Stmt(format!("{{ let p = &{n}[2]; *p = acc + 1.0; }}")),
        },
        Res::StorageAtomic => match k {
            0 => Touch::Expr(format!("f32(atomicAdd(&{n}[0], 1u))")),
            1 => Touch::Stmt(format!("atomicStore(&{n}[1], 2u);")),
            2 => Touch::Expr(format!("f32(atomicLoad(&{n}[2]))")),
            _ => Touch::Stmt(format!("atomicMax(&{n}[3], 3u);")),
        },
        Res::Texture2d => Touch::Expr(match k {
            0 | 1 => format!("textureLoad({n}, vec2<i32>(0, 0), 0).x"),
            2 => format!("f32(textureDimensions({n}).x)"),
            _ => format!("f32(textureNumLevels({n}))"),
        }),
        Res::TextureDepth => Touch::Expr(match k {
            0 | 1 => format!("textureLoad({n}, vec2<i32>(0, 0), 0)"),
            _ => format!("f32(textureDimensions({n}).y)"),
        }),
        Res::Sampler => unreachable!("samplers are touched together with a texture"),
        Res::StorageTexWrite => match k {
            0 | 1 | 2 => Touch::Stmt(format!("textureStore({n}, vec2<i32>(0, 0), vec4<f32>(acc));")),
            _ => Touch::Expr(format!("f32(textureDimensions({n}).x)")),
        },
    }
}

// ---------------------------------------------------------------------------------------------
// program model
// ---------------------------------------------------------------------------------------------
#[derive(Clone, Copy, Debug, PartialEq, Eq)]
pub enum Stage {
    Vertex,
    Fragment,
    Compute,
}

impl Stage {
    pub fn bit(self) -> u8 {
        match self {
            Stage::Vertex => 1,
            Stage::Fragment => 2,
            Stage::Compute => 4,
        }
    }
}

#[derive(Clone, Debug)]
pub struct Func {
    pub name: String,
    /// None = helper; Some = entry point of that stage
    pub stage: Option<Stage>,
    /// helper only: returns f32 (callable inside expressions) or nothing
    pub returns_value: bool,
    /// helper only: takes one f32 parameter `p`
    pub has_param: bool,
    /// body statements (already wrapped in control flow), excluding prologue / epilogue
    pub body: Vec<String>,
    /// ground truth: indices of globals touched directly / helpers called directly
    pub uses: BTreeSet<usize>,
    pub calls: BTreeSet<usize>,
}

#[derive(Clone, Debug, Default)]
pub struct Program {
    pub globals: Vec<Global>,
    pub helpers: Vec<Func>,
    pub entries: Vec<Func>,
    /// textual order of the helper definitions (a permutation; naga does not need callee-first order)
    pub helper_order: Vec<usize>,
}

impl Program {
    pub fn render(&self) -> String {
        let mut s = String::new();
        if self.globals.iter().any(|g| g.kind == Res::UniformStruct) {
            s.push_str(USTRUCT_DECL);
            s.push('\n');
        }
        for g in &self.globals {
            s.push_str(&g.decl());
            s.push('\n');
        }
        let order: Vec<usize> = if self.helper_order.len() == self.helpers.len() { self.helper_order.clone() } else { (0..self.helpers.len()).collect() };
        for i in order {
            let h = &self.helpers[i];
            let param = if h.has_param { "p: f32" } else { "" };
            let ret = if h.returns_value { " -> f32" } else { "" };
            s.push_str(&format!("fn {}({param}){ret} {{\n  var acc = {};\n  var k = 0;\n", h.name, if h.has_param { "p" } else { "0.25" }));
            for st in &h.body {
                s.push_str("  ");
                s.push_str(st);
                s.push('\n');
            }
            if h.returns_value {
                s.push_str("  return acc;\n");
            }
            s.push_str("}\n");
        }
        for e in &self.entries {
            let (attr, sig, epilogue) = match e.stage.unwrap() {
                Stage::Vertex => ("@vertex", format!("fn {}() -> @builtin(position) vec4<f32>", e.name), "  return vec4<f32>(acc);\n"),
                Stage::Fragment => ("@fragment", format!("fn {}() -> @location(0) vec4<f32>", e.name), "  return vec4<f32>(acc);\n"),
                Stage::Compute => ("@compute @workgroup_size(1)", format!("fn {}()", e.name), ""),
            };
            s.push_str(&format!("{attr}\n{sig} {{\n  var acc = 0.5;\n  var k = 0;\n"));
            for st in &e.body {
                s.push_str("  ");
                s.push_str(st);
                s.push('\n');
            }
            s.push_str(epilogue);
            s.push_str("}\n");
        }
        s
    }

    /// Ground truth: globals reachable from helper `h` (through calls).
    fn reach_helper(&self, h: usize, memo: &mut Vec<Option<BTreeSet<usize>>>) -> BTreeSet<usize> {
        if let Some(r) = &memo[h] {
            return r.clone();
        }
        let mut r = self.helpers[h].uses.clone();
        for &c in &self.helpers[h].calls.clone() {
            r.extend(self.reach_helper(c, memo));
        }
        memo[h] = Some(r.clone());
        r
    }

    /// Ground truth visibility bits per global (index parallel to `globals`).
    pub fn expected_stage_bits(&self) -> Vec<u8> {
        let mut memo = vec![None; self.helpers.len()];
        let mut bits = vec![0u8; self.globals.len()];
        for e in &self.entries {
            let mut r = e.uses.clone();
            for &c in &e.calls {
                r.extend(self.reach_helper(c, &mut memo));
            }
            for g in r {
                bits[g] |= e.stage.unwrap().bit();
            }
        }
        bits
    }
}

/// One thing a function does: an f32 expression or a statement, plus what it touches / calls.
#[derive(Clone, Debug)]
pub struct Action {
    pub form: Touch,
    pub uses: Vec<usize>,
    pub calls: Vec<usize>,
}

/// Action that touches global `gi` (samplers: together with texture `partner`).
pub fn access_action(p: &Program, gi: usize, rng: &mut Rng) -> Option<Action> {
    let g = &p.globals[gi];
    match g.kind {
        Res::Sampler => {
            // needs a sampled texture
            let texs: Vec<usize> = p.globals.iter().enumerate().filter(|(_, t)| t.kind == Res::Texture2d).map(|(i, _)| i).collect();
            if texs.is_empty() {
                return None;
            }
            let ti = *rng.pick(&texs);
            Some(Action {
                form: Touch::Expr(format!("textureSampleLevel({}, {}, vec2<f32>(0.5, 0.5), 0.0).x", p.globals[ti].name, g.name)),
                uses: vec![gi, ti],
                calls: vec![],
            })
        }
        _ => Some(Action { form: touches(g, rng), uses: vec![gi], calls: vec![] }),
    }
}

/// Action that calls helper `hi`.
pub fn call_action(p: &Program, hi: usize, rng: &mut Rng) -> Action {
    let h = &p.helpers[hi];
    let arg = if h.has_param { "acc" } else { "" };
    let form = if h.returns_value {
        match rng.below(5) {
            0 => Touch::Stmt(format!("_ = {}({arg});", h.name)),
            1 => Touch::Stmt(format!("{{ let tmp = {}({arg}); acc = acc + tmp; }}", h.name)),
            _ => Touch::Expr(format!("{}({arg})", h.name)),
        }
    } else {
        Touch::Stmt(format!("{}({arg});", h.name))
    };
    Action { form, uses: vec![], calls: vec![hi] }
}

/// Number of distinct control-flow wrappers `wrap` knows.
pub const WRAPPERS: usize = 22;

/// Put an action somewhere in control flow. `w` selects the placement; placements that need an
/// expression fall back to a statement placement when the action only has a statement form.
pub fn wrap(a: &Touch, w: usize) -> String {
    let (stmt, expr): (String, Option<&str>) = match a {
        Touch::Expr(e) => (format!("acc = acc + {e};"), Some(e.as_str())),
        Touch::Stmt(s) => (s.clone(), None),
    };
    // `simple` = a form allowed as a for-loop update clause (assignment or call, no block / let)
    let simple: Option<String> = match a {
        Touch::Expr(e) => Some(format!("acc = acc + {e}")),
        Touch::Stmt(s) if !s.contains('{') && !s.starts_with("let ") && !s.starts_with("_ =") && s.matches(';').count() == 1 => Some(s.trim_end_matches(';').to_string()),
        _ => None,
    };
    match (w % WRAPPERS, expr) {
        (0, _) => stmt,
        (1, _) => format!("if acc > 0.5 {{ {stmt} }}"),
        (2, _) => format!("if acc > 0.5 {{ acc = 1.0; }} else {{ {stmt} }}"),
        (3, _) => format!("if acc > 0.5 {{ acc = 1.0; }} else if acc > 0.25 {{ acc = 2.0; }} else {{ {stmt} }}"),
        (4, _) => format!("switch i32(acc) {{ case 1: {{ {stmt} }} default: {{ acc = 0.0; }} }}"),
        (5, _) => format!("switch i32(acc) {{ case 1, 2: {{ acc = 0.0; }} case 3: {{ acc = 1.0; }} default: {{ {stmt} }} }}"),
        (6, _) => format!("switch i32(acc) {{ case 0: {{ acc = 3.0; }} case 5: {{ acc = 2.0; }} case 7: {{ {stmt} }} default: {{ }} }}"),
        (7, _) => format!("loop {{ if k > 2 {{ break; }} {stmt} k = k + 1; }}"),
        (8, _) => format!("loop {{ if k > 2 {{ break; }} k = k + 1; continuing {{ {stmt} }} }}"),
        (9, _) => format!("loop {{ k = k + 1; continuing {{ {stmt} break if k > 3; }} }}"),
        (10, _) => format!("for (var i = 0; i < 2; i = i + 1) {{ {stmt} }}"),
        (11, _) => match &simple {
            Some(s) => format!("for (var i = 0; i < 2; {s}) {{ i = i + 1; }}"),
            None => format!("for (var i = 0; i < 2; i = i + 1) {{ if i > 0 {{ {stmt} }} }}"),
        },
        (12, _) => format!("{{ {{ {stmt} }} }}"),
        (13, _) => format!("while acc < 4.0 {{ {stmt} acc = acc + 1.0; }}"),
        (14, _) => format!("loop {{ if k > 1 {{ break; }} k = k + 1; loop {{ if acc > 9.0 {{ break; }} acc = acc + 4.0; continuing {{ if acc > 1.0 {{ {stmt} }} }} }} }}"),
        (15, Some(e)) => format!("if {e} > 0.5 {{ acc = 2.0; }}"),
        (16, Some(e)) => format!("switch i32({e}) {{ case 1: {{ acc = 2.0; }} default: {{ }} }}"),
        (17, Some(e)) => format!("for (var i = i32({e}); i < 2; i = i + 1) {{ acc = acc + 1.0; }}"),
        (18, Some(e)) => format!("for (var i = 0; f32(i) < {e}; i = i + 1) {{ if i > 3 {{ break; }} }}"),
        (19, Some(e)) => format!("for (var i = 0; i < 2; i = i + 1 + i32({e})) {{ acc = acc + 1.0; }}"),
        (20, Some(e)) => format!("loop {{ k = k + 1; continuing {{ break if {e} > 0.5 || k > 3; }} }}"),
        (21, Some(e)) => format!("acc = select(acc, max({e}, 1.0), acc > 0.5);"),
        // expression placements without an expression form: nested fallback
        (w, None) => format!("if acc > 0.125 {{ switch k {{ case {}: {{ {stmt} }} default: {{ }} }} }}", w),
        _ => stmt,
    }
}

/// Wrap with 1..=depth nested placements.
pub fn wrap_nested(a: &Touch, rng: &mut Rng, depth: usize) -> String {
    let mut cur = wrap(a, rng.below(WRAPPERS));
    for _ in 1..depth {
        // outer layers take the inner text as a statement; keep `continuing`-safe layers only
        // (inner text never contains break/continue/return at its own top level)
        cur = wrap(&Touch::Stmt(cur), rng.below(15));
    }
    cur
}

/// Shapes of the call graph.
#[derive(Clone, Copy, Debug, PartialEq, Eq)]
pub enum Shape {
    Random,
    Chain,
    Diamond,
    Shared,
    NoHelpers,
}

pub struct ProgramSpec {
    pub shape: Shape,
    pub n_globals: usize,
    pub n_helpers: usize,
    pub groups: u32,
    pub push_constant: bool,
    /// per stage: number of entry points (0 allowed)
    pub entries: [usize; 3],
    pub wrap_depth: usize,
}

/// Build a random program for the given spec.
pub fn program(spec: &ProgramSpec, rng: &mut Rng) -> Program {
    let mut p = Program::default();
    // --- globals: groups 0..groups-1 all populated, sparse unordered binding numbers
    let mut used: Vec<(u32, u32)> = vec![];
    for i in 0..spec.n_globals {
        let kind = *rng.pick(&BINDABLE);
        let group = if (i as u32) < spec.groups { i as u32 } else { rng.below(spec.groups.max(1) as usize) as u32 };
        let mut binding = rng.below(12) as u32;
        while used.contains(&(group, binding)) {
            binding += 1;
        }
        used.push((group, binding));
        p.globals.push(Global { name: format!("g{i}"), kind, group, binding });
    }
    rng.shuffle(&mut p.globals);
    if spec.push_constant {
        let at = rng.below(p.globals.len() + 1);
        p.globals.insert(at, Global { name: "pc".into(), kind: Res::PushConstant, group: 0, binding: 0 });
    }
    let ng = p.globals.len();

    // --- helpers (index order = callee before caller)
    for hi in 0..spec.n_helpers {
        let mut h = Func {
            name: format!("h{hi}"),
            stage: None,
            returns_value: rng.chance(1, 2),
            has_param: rng.chance(1, 4),
            body: vec![],
            uses: BTreeSet::new(),
            calls: BTreeSet::new(),
        };
        let mut actions: Vec<Action> = vec![];
        // calls
        let callees: Vec<usize> = match spec.shape {
            Shape::Chain => if hi > 0 { vec![hi - 1] } else { vec![] },
            Shape::Diamond => match hi {
                0 => vec![],
                // h1, h2 -> h0 ; h3 -> h1, h2 ; then repeat upward
                _ if hi % 3 == 0 => vec![hi - 1, hi - 2],
                _ => vec![hi - (hi % 3)],
            },
            Shape::Shared => if hi >= 2 { vec![rng.below(2)] } else { vec![] },
            Shape::NoHelpers => vec![],
            Shape::Random => {
                let mut v = vec![];
                if hi > 0 {
                    for _ in 0..rng.below(3) {
                        v.push(rng.below(hi));
                    }
                }
                v
            }
        };
        for c in callees {
            let a = call_action(&p, c, rng);
            actions.push(a);
            if spec.shape == Shape::Diamond && rng.chance(1, 2) {
                actions.push(call_action(&p, c, rng)); // same callee twice
            }
        }
        // accesses: leaves touch more, inner nodes of chains often nothing
        let n_acc = match spec.shape {
            Shape::Chain if hi > 0 => rng.below(2),
            _ => rng.below(3),
        };
        for _ in 0..n_acc {
            if ng > 0 {
                if let Some(a) = access_action(&p, rng.below(ng), rng) {
                    actions.push(a);
                }
            }
        }
        rng.shuffle(&mut actions);
        for a in &actions {
            let d = rng.range(1, spec.wrap_depth.max(1));
            h.body.push(wrap_nested(&a.form, rng, d));
            h.uses.extend(a.uses.iter().copied());
            h.calls.extend(a.calls.iter().copied());
        }
        p.helpers.push(h);
    }
    let mut order: Vec<usize> = (0..p.helpers.len()).collect();
    rng.shuffle(&mut order);
    p.helper_order = order;

    // --- entry points
    let stage_list = [Stage::Vertex, Stage::Fragment, Stage::Compute];
    for (si, &st) in stage_list.iter().enumerate() {
        for k in 0..spec.entries[si] {
            let prefix = ["vs", "fs", "cs"][si];
            let mut e = Func { name: format!("{prefix}{k}"), stage: Some(st), returns_value: false, has_param: false, body: vec![], uses: BTreeSet::new(), calls: BTreeSet::new() };
            let mut actions: Vec<Action> = vec![];
            let nh = p.helpers.len();
            if nh > 0 {
                let n_calls = match spec.shape {
                    Shape::Chain | Shape::Diamond => 1,
                    _ => rng.below(3),
                };
                for _ in 0..n_calls {
                    // chains / diamonds: enter near the top so that depth matters
                    let target = match spec.shape {
                        Shape::Chain | Shape::Diamond => nh - 1 - rng.below(nh.min(2)),
                        _ => rng.below(nh),
                    };
                    actions.push(call_action(&p, target, rng));
                }
            }
            for _ in 0..rng.below(3) {
                if ng > 0 {
                    if let Some(a) = access_action(&p, rng.below(ng), rng) {
                        actions.push(a);
                    }
                }
            }
            rng.shuffle(&mut actions);
            for a in &actions {
                let d = rng.range(1, spec.wrap_depth.max(1));
                e.body.push(wrap_nested(&a.form, rng, d));
                e.uses.extend(a.uses.iter().copied());
                e.calls.extend(a.calls.iter().copied());
            }
            p.entries.push(e);
        }
    }
    rng.shuffle(&mut p.entries);
    p
}

// ---------------------------------------------------------------------------------------------
// plain binding lists (C04, C11-like layouts)
// ---------------------------------------------------------------------------------------------
/// WGSL declaration tails for a broad mix of resource kinds: `{}` is replaced by the variable name.
pub const RESOURCE_DECLS: [&str; 22] = [
    "var<uniform> {}: vec4<f32>;",
    "var<uniform> {}: mat4x4<f32>;",
    "var<uniform> {}: f32;",
    "var<uniform> {}: array<vec4<f32>, 3>;",
    "var<storage, read> {}: array<f32>;",
    "var<storage> {}: array<vec2<u32>, 8>;",
    "var<storage, read_write> {}: array<u32>;",
    "var<storage, read_write> {}: array<atomic<i32>, 2>;",
    "var {}: texture_2d<f32>;",
    "var {}: texture_2d<i32>;",
    "var {}: texture_2d_array<u32>;",
    "var {}: texture_cube<f32>;",
    "var {}: texture_3d<f32>;",
    "var {}: texture_1d<f32>;",
    "var {}: texture_depth_2d;",
    "var {}: texture_depth_cube_array;",
    "var {}: texture_multisampled_2d<u32>;",
    "var {}: texture_storage_2d<rgba8unorm, write>;",
    "var {}: texture_storage_3d<r32float, read_write>;",
    "var {}: texture_storage_1d<rgba32uint, read>;",
    "var {}: sampler;",
    "var {}: sampler_comparison;",
];

#[derive(Clone, Debug)]
pub struct Slot {
    pub group: u32,
    pub binding: u32,
    pub name: String,
    pub decl_tail: &'static str,
}

impl Slot {
    pub fn decl(&self) -> String {
        format!("@group({}) @binding({}u) {}", self.group, self.binding, self.decl_tail.replace("{}", &self.name))
    }
}

/// `n_groups` dense groups, each with 1..=max_per_group bindings at sparse, unordered indices;
/// the returned list is in (shuffled) declaration order.
pub fn slots(n_groups: u32, max_per_group: usize, rng: &mut Rng) -> Vec<Slot> {
    let mut v = vec![];
    let mut id = 0;
    for g in 0..n_groups {
        let n = rng.range(1, max_per_group);
        let mut used: Vec<u32> = vec![];
        for _ in 0..n {
            let mut b = match rng.below(6) {
                0 => rng.below(3) as u32,
                1 => rng.below(1000) as u32,
                2 => 4294967295 - rng.below(3) as u32,
                _ => rng.below(16) as u32,
            };
            while used.contains(&b) {
                b = b.wrapping_add(1);
            }
            used.push(b);
            // names that are prefixes of each other on purpose (x1 / x10 / x1_)
            let name = match rng.below(4) {
                0 => format!("x{id}"),
                1 => format!("x{id}_"),
                2 => format!("res_{id}"),
                _ => format!("X{id}y"),
            };
            v.push(Slot { group: g, binding: b, name, decl_tail: *rng.pick(&RESOURCE_DECLS) });
            id += 1;
        }
    }
    rng.shuffle(&mut v);
    v
}
